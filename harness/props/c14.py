"""C14 — Module discovery matches the import system, independent of listing order.

(C) model (finder.find_package / iter_submodules / submodules / .pth extension / loader submodule attachment)
      vs  GriffeLoader.load on generated directory layouts materialised under ctx.scratch, with the directory
      listing order dictated by the case (os.scandir / os.listdir wrapped, so os.walk and Path.iterdir follow it)
(O) model of CPython (PathFinder/FileFinder precedence, pkgutil.walk_packages, site.addsitedir)
      vs  importlib.util.find_spec / pkgutil.walk_packages / site.addsitedir in a subprocess
direct: Griffe vs CPython (loaded => importable from that file or stub-only; walked => loaded; classification;
        top-level finder precedence), Griffe vs Griffe under permuted listings, Griffe by name vs by path.
"""
from __future__ import annotations

import json
import os
import signal
import subprocess
import sys
from contextlib import contextmanager
from pathlib import Path

from harness.translate import c14_tables

ID = "C14"
TRANSLATOR_NAME = "harness/translate/c14_tables.py"


def translate(ctx):
    c14_tables.translate(ctx)


MODEL = ("Model.C14_finder", "run_C14")
COQ_TARGETS = ["Proofs/C14_finder.vo", "Proofs/C14_order.vo", "Proofs/C14_import.vo", "Proofs/C14_pth.vo", "Proofs/C14_ns.vo", "Proofs/C14_bypath.vo", "Proofs/C14_nsload.vo", "Proofs/C14_nsinv.vo", "Proofs/C14_nsorder.vo", "Proofs/C14_state.vo"]

EXT_SUFFIX = ".cpython-312-x86_64-linux-gnu.so"

# ---------------------------------------------------------------------------------------------------------------
# Case representation
#   case = {"dirs": [[id, listing], ...], "search": [id, ...], "name": "top"}
#   listing = [[name, node], ...]          (in the order the operating system is made to list the directory)
#   node = ["f", ns, [ids]] | ["d", listing]      ns=1: file text declares a pkgutil/pkg_resources-style namespace
#                                                  ids: for a *.pth file, its lines (see PTH_LINES)
# A .pth line is an int (absolute path of the root directory with that id), or a string written verbatim.
# ---------------------------------------------------------------------------------------------------------------
CWD_LINE = "@cwd:"      # "@cwd:3" in a case = the path of root directory 3 written relative to the current directory
NS_DECL = "__path__ = __import__('pkgutil').extend_path(__path__, __name__)\n"
# Realistic __init__.py texts of pkgutil / pkg_resources-style namespace packages: the declaration (in the spellings
# finder._is_pkg_style_namespace recognises) is rarely the first thing in the file.  A node's ns value k >= 1 selects
# NS_TEXTS[(k - 1) % len(NS_TEXTS)]; the model only sees "declares a namespace".
_NS_FORMS = [
    "__path__ = __import__('pkgutil').extend_path(__path__, __name__)\n",
    '__path__ = __import__("pkgutil").extend_path(__path__, __name__)\n',
    "__import__('pkg_resources').declare_namespace(__name__)\n",
    '__import__("pkg_resources").declare_namespace(__name__)\n',
    # recognised since fix 01f8900 (F11): the spelling of the pkgutil documentation, and the plain-import forms
    "from pkgutil import extend_path\n__path__ = extend_path(__path__, __name__)\n",
    "import pkgutil\n__path__ = pkgutil.extend_path(__path__, __name__)\n",
    "import pkg_resources\npkg_resources.declare_namespace(__name__)\n",
]
_NS_PREFIXES = [
    "",
    '"""A namespace package."""\n\n',
    "# Copyright (c) the authors\n# Licensed under the ISC licence\n",
    "# -*- coding: utf-8 -*-\n\n",
    '"""Top-level namespace.\n\nSeveral distributions install into it.\n"""\nfrom __future__ import annotations\n\nimport sys\n\n',
    "\n\n",
    "try:\n    ",            # the setuptools template: try: __import__('pkg_resources').declare_namespace(__name__) except ImportError: ...
]
NS_TEXTS = []
for _f in _NS_FORMS:
    for _p in _NS_PREFIXES:
        if _p.startswith("try:"):
            NS_TEXTS.append("try:\n" + "".join("    " + _l + "\n" for _l in _f.splitlines()) + "except ImportError:\n    __path__ = __import__('pkgutil').extend_path(__path__, __name__)\n")
        else:
            NS_TEXTS.append(_p + _f + ("\nVERSION = '1'\n" if len(_p) % 2 else ""))
# the oracle runs `python -S`: pkg_resources (setuptools) is not importable there; its declare_namespace is emulated with
# pkgutil.extend_path (same portions, same order for the layouts generated here)
PKG_RESOURCES_STUB = ("import sys, pkgutil\n\n\ndef declare_namespace(name):\n    module = sys.modules[name]\n"
                      "    module.__path__ = pkgutil.extend_path(module.__path__, name)\n")


def ns_text(k) -> str:
    return NS_TEXTS[(int(k) - 1) % len(NS_TEXTS)]



def _empty_pyc() -> bytes:
    import importlib._bootstrap_external as be
    return bytes(be._code_to_timestamp_pyc(compile("", "<empty>", "exec", dont_inherit=True), 0, 0))


EMPTY_PYC = _empty_pyc()


def F(ns=0, pth=None):
    return ["f", ns, list(pth or [])]


def D(listing):
    return ["d", listing]


def root_dir(base: Path, i: int) -> Path:
    return base / f"d{i}"


def materialise(case, base: Path):
    """Write the layout below `base` and return {absolute dir path: [names in case order]}."""
    order = {}
    links = []

    def rec(path: Path, listing):
        path.mkdir(parents=True, exist_ok=True)
        order[str(path)] = [n for n, _ in listing]
        for name, node in listing:
            p = path / name
            if node[0] == "d":
                rec(p, node[1])
            elif node[0] == "l":
                links.append((p, node[1]))        # ["l", relative target]: a symbolic link, created once everything exists
            else:
                _, ns, pth = node
                if name.endswith(".pth"):
                    lines = []
                    for l in pth:
                        if isinstance(l, int):
                            lines.append(str(root_dir(base, l)))
                        elif l.startswith(CWD_LINE):
                            # a relative line that exists relative to the current directory only
                            lines.append(os.path.relpath(root_dir(base, int(l[len(CWD_LINE):])), os.getcwd()))
                        else:
                            lines.append(l)
                    p.write_text("".join(x + "\n" for x in lines))
                elif name.endswith(".pyc"):
                    p.write_bytes(EMPTY_PYC)          # valid byte code of an empty module
                else:
                    p.write_text(ns_text(ns) if ns else "")

    for i, listing in case["dirs"]:
        rec(root_dir(base, i), listing)
    for p, target in links:
        os.symlink(target, p)
    return order


class _Scandir:
    """Re-ordered os.scandir result (context manager + iterator, as os.walk and pathlib use it)."""

    def __init__(self, entries):
        self._it = iter(entries)

    def __iter__(self):
        return self

    def __next__(self):
        return next(self._it)

    def __enter__(self):
        return self

    def __exit__(self, *a):
        return False

    def close(self):
        pass


@contextmanager
def listing_order(order: dict):
    """Make os.listdir / os.scandir (hence os.walk, Path.iterdir, Path.glob) list each known directory in the given order."""
    real_listdir, real_scandir = os.listdir, os.scandir

    def key_for(path):
        names = order.get(os.path.abspath(os.fspath(path)) if path is not None else None)
        if names is None:
            return None
        pos = {n: k for k, n in enumerate(names)}
        return lambda n: pos.get(n, len(pos))

    def listdir(path="."):
        res = real_listdir(path)
        k = key_for(path)
        return sorted(res, key=k) if k else res

    def scandir(path="."):
        k = key_for(path)
        if k is None:
            return real_scandir(path)
        with real_scandir(path) as it:
            entries = list(it)
        return _Scandir(sorted(entries, key=lambda e: k(e.name)))

    os.listdir, os.scandir = listdir, scandir
    try:
        yield
    finally:
        os.listdir, os.scandir = real_listdir, real_scandir


def permute_case(case, how, rng=None):
    """Return the same layout with every directory listing re-ordered: how in sorted|reversed|random."""
    def perm(listing):
        l = [[n, (["d", perm(x[1])] if x[0] == "d" else x)] for n, x in listing]
        if how == "sorted":
            l.sort(key=lambda e: e[0])
        elif how == "reversed":
            l.sort(key=lambda e: e[0], reverse=True)
        else:
            rng.shuffle(l)
        return l
    return {**case, "dirs": [[i, perm(l)] for i, l in case["dirs"]]}


# ---------------------------------------------------------------------------------------------------------------
# Implementation under test
# ---------------------------------------------------------------------------------------------------------------
class Watchdog(Exception):
    pass


@contextmanager
def watchdog(seconds=20):
    def handler(signum, frame):
        raise Watchdog()
    old = signal.signal(signal.SIGALRM, handler)
    signal.alarm(seconds)
    try:
        yield
    finally:
        signal.alarm(0)
        signal.signal(signal.SIGALRM, old)


def rel(base: Path, p) -> list:
    """absolute path -> [id, [components]]"""
    parts = Path(p).relative_to(base).parts
    return [int(parts[0][1:]), list(parts[1:])]


def classify(m) -> str:
    if m.is_package:
        return "P"
    if m.is_subpackage:
        return "S"
    if m.is_namespace_package:
        return "NP"
    if m.is_namespace_subpackage:
        return "NS"
    return "M"


def tree_of(top, base: Path):
    out = []

    def rec(o, parts):
        fp = o.filepath
        files = sorted(rel(base, x) for x in fp) if isinstance(fp, list) else [rel(base, fp)]
        out.append([parts, classify(o), "ns" if isinstance(fp, list) else "file", files])
        for n, v in o.members.items():
            if not v.is_alias and v.is_module:
                rec(v, parts + [n])
    rec(top, [top.name])
    out.sort()
    return out


def impl_find(case, base: Path, order):
    """ModuleFinder.find_spec(name) -> canonical value."""
    from _griffe.finder import ModuleFinder, NamespacePackage
    try:
        with listing_order(order), watchdog():
            finder = ModuleFinder([root_dir(base, i) for i in case["search"]])
            paths = [rel(base, p)[0] for p in finder.search_paths]
            try:
                _, pkg = finder.find_spec(case["name"], try_relative_path=False)
            except ModuleNotFoundError:
                return ["ok", paths, ["notfound"]]
        if isinstance(pkg, NamespacePackage):
            return ["ok", paths, ["ns", [rel(base, p) for p in pkg.path]]]
        return ["ok", paths, ["pkg", rel(base, pkg.path), [] if pkg.stubs is None else [rel(base, pkg.stubs)]]]
    except Watchdog:
        return ["err", "Timeout"]
    except Exception as e:  # noqa: BLE001
        return ["err", type(e).__name__]


def impl_load(case, base: Path, order, by_path: Path | None = None, want_subs: list | None = None):
    """GriffeLoader(search_paths, allow_inspection=False).load(name or path) -> canonical tree."""
    import griffe
    try:
        with listing_order(order), watchdog():
            loader = griffe.GriffeLoader(search_paths=[root_dir(base, i) for i in case["search"]], allow_inspection=False)
            try:
                if by_path is not None:
                    top = loader.load(by_path)
                else:
                    top = loader.load(case["name"], try_relative_path=False)
            except ModuleNotFoundError:
                return ["notfound"]
            while top.parent is not None:
                top = top.parent
            if want_subs is not None:
                # the finder stage on its own: the ordered list finder.submodules() hands to the loader
                want_subs.append([[list(parts), rel(base, path)] for parts, path in loader.finder.submodules(top)])
        return ["ok", tree_of(top, base)]
    except Watchdog:
        return ["err", "Timeout"]
    except Exception as e:  # noqa: BLE001
        return ["err", type(e).__name__]


# ---------------------------------------------------------------------------------------------------------------
# Authority: CPython in a subprocess (sys.path = the case's search paths)
# ---------------------------------------------------------------------------------------------------------------
ORACLE_SRC = r'''
import importlib, importlib.util, importlib.machinery, json, os, pkgutil, site, sys, inspect, zipimport, io, traceback, contextlib
BASE_PATH = list(sys.path)

def spec_value(spec):
    if spec is None:
        return ["notfound"]
    locs = list(spec.submodule_search_locations) if spec.submodule_search_locations is not None else None
    if spec.origin is None or spec.origin == "namespace":
        return ["ns", locs or []]
    if locs is not None:
        return ["pkg", spec.origin]
    return ["mod", spec.origin]

def one(case):
    before = set(sys.modules)
    sys.path[:] = list(case["search"]) + BASE_PATH
    sys.path_importer_cache.clear()
    importlib.invalidate_caches()
    out = {}
    try:
        err = io.StringIO()
        with contextlib.redirect_stderr(err):
            for p in case["search"]:
                site.addsitedir(p)
        out["site_stderr"] = err.getvalue()[-300:]
        out["paths"] = [p for p in sys.path if p not in BASE_PATH]
        name = case["name"]
        try:
            top = importlib.util.find_spec(name)
            out["find"] = spec_value(top)
        except Exception as e:
            top = None
            out["find"] = ["err", type(e).__name__]
        walked = []
        if top is not None and top.submodule_search_locations is not None:
            errors = []
            try:
                try:
                    top_path = list(importlib.import_module(name).__path__)     # runs the (trivial) __init__
                except Exception as e:
                    out["top_import_error"] = type(e).__name__
                    top_path = []
                out["top_path"] = top_path
                for info in pkgutil.walk_packages(top_path, name + ".", onerror=errors.append):
                    try:
                        sp = importlib.util.find_spec(info.name)
                        walked.append([info.name, bool(info.ispkg), spec_value(sp)])
                    except Exception as e:
                        walked.append([info.name, bool(info.ispkg), ["err", type(e).__name__]])
            except Exception as e:
                out["walk_error"] = type(e).__name__
            out["walk_onerror"] = errors
        out["walk"] = walked
        q = {}
        for dotted in case.get("queries", []):
            try:
                q[dotted] = spec_value(importlib.util.find_spec(dotted))
            except ModuleNotFoundError:
                q[dotted] = ["notfound"]
            except Exception as e:
                q[dotted] = ["err", type(e).__name__]
        out["queries"] = q
    finally:
        for k in set(sys.modules) - before:
            del sys.modules[k]
        sys.path[:] = BASE_PATH
    return out

cases = json.load(open(sys.argv[1]))
res = []
for c in cases:
    try:
        res.append(one(c))
    except Exception as e:
        res.append({"crash": traceback.format_exc()[-500:]})
json.dump(res, open(sys.argv[2], "w"))
'''


def run_oracle(scratch: Path, jobs: list, tag="o"):
    """jobs: [{"search": [abs paths], "name": str, "queries": [dotted]}] -> list of result dicts."""
    if not jobs:
        return []
    scratch.mkdir(parents=True, exist_ok=True)
    script = scratch / "c14_oracle.py"
    script.write_text(ORACLE_SRC)
    (scratch / "pkg_resources.py").write_text(PKG_RESOURCES_STUB)     # found through sys.path[0], the script's directory
    fin, fout = scratch / f"oracle_in_{tag}.json", scratch / f"oracle_out_{tag}.json"
    fin.write_text(json.dumps(jobs))
    env = {k: v for k, v in os.environ.items() if k not in ("PYTHONPATH",)}
    env["PYTHONDONTWRITEBYTECODE"] = "1"
    p = subprocess.run([sys.executable, "-S", str(script), str(fin), str(fout)], capture_output=True, text=True, timeout=900, env=env)
    if p.returncode != 0:
        raise RuntimeError("oracle subprocess failed: " + p.stderr[-800:])
    return json.loads(fout.read_text())


# ---------------------------------------------------------------------------------------------------------------
# Abstraction: case -> model input
# ---------------------------------------------------------------------------------------------------------------
import re

_REL_LINE = re.compile(r"^\.\./d(\d+)$")


def abstract_pth_lines(lines, known_ids):
    out = []
    for l in lines:
        if isinstance(l, int):
            if l in known_ids:
                out.append([0, l])
            continue
        t = l.strip()
        if t.startswith(CWD_LINE):
            if int(t[len(CWD_LINE):]) in known_ids:
                out.append([1, int(t[len(CWD_LINE):])])      # exists relative to the cwd only
            continue
        m = _REL_LINE.match(t)
        if m and int(m.group(1)) in known_ids:
            out.append([0, int(m.group(1))])                 # relative to the directory of the .pth file (a root directory)
        # comments, blank lines, non-existing paths: dropped by both Griffe and CPython
    return out


def abstract_case(case):
    ids = {i for i, _ in case["dirs"]}

    def node(name, x):
        if x[0] == "d":
            return ["d", [[n, node(n, y)] for n, y in x[1]]]
        return ["f", 1 if x[1] else 0, abstract_pth_lines(x[2], ids) if name.endswith(".pth") else []]

    return [[[i, [[n, node(n, x)] for n, x in l]] for i, l in case["dirs"]], case["search"], case["name"]]


def case_node_at(case, base: Path, path: Path):
    """the node of the case at an absolute (normalised) path below base, or None"""
    try:
        parts = Path(os.path.normpath(path)).relative_to(base).parts
    except ValueError:
        return None
    if not parts:
        return None
    cur = next((["d", l] for i, l in case["dirs"] if f"d{i}" == parts[0]), None)
    for c in parts[1:]:
        if cur is None or cur[0] != "d":
            return None
        cur = next((x for n, x in cur[1] if n == c), None)
    return cur


def order_map(case, base: Path):
    om = {}

    def rec(p, l, depth=0):
        om[str(p)] = [n for n, _ in l]
        for n, x in l:
            if x[0] == "d":
                rec(p / n, x[1], depth)
            elif x[0] == "l" and depth < 3:
                # the listing of a linked directory, under the link's own path (os.walk(followlinks=True) lists it there)
                t = case_node_at(case, base, p / x[1])
                if t is not None and t[0] == "d":
                    rec(p / n, t[1], depth + 1)
    for i, l in case["dirs"]:
        rec(root_dir(base, i), l)
    return om


def canon_model_load(v):
    if v[0] != "ok":
        return v
    out = []
    for parts, cls, (kind, files) in v[1]:
        out.append([parts, cls, kind, sorted(files) if kind == "ns" else files])
    out.sort()
    return ["ok", out]


def canon_oracle_spec(base: Path, v):
    if v[0] in ("pkg", "mod"):
        return [v[0], rel(base, v[1])]
    if v[0] == "ns":
        return ["ns", [rel(base, p) for p in v[1]]]
    if v[0] == "err":
        return ["err"]
    return v


def canon_model_spec(v):
    if v[0] == "pkg":
        return ["pkg", v[1]]
    return v


# ---------------------------------------------------------------------------------------------------------------
# Generation
# ---------------------------------------------------------------------------------------------------------------
TOP = "aa"
MODNAMES = ["m", "n", "sub", "deep", "x"]
COMPILED_FORMS = [EXT_SUFFIX, ".abi3.so", ".so", ".pyc", ".pyd", ".pyo", ".cpython-311-x86_64-linux-gnu.so"]
JUNK = ["README.md", "data.txt", ".hidden", "notes", "py.typed", "Makefile", "m.txt", "x.json"]


DOTTED_DIRS = ["v1.2", "data.v2", "sub.d", "m.egg-info"]


def gen_dotted_dir(rng, depth: int):
    """Content of a directory with a dotted name: module files, maybe an __init__, maybe a (regular or init-less) sub-directory."""
    es = [[rng.choice(MODNAMES) + ".py", F()]]
    if rng.random() < 0.4:
        es.append(["__init__.py", F()])
    if rng.random() < 0.3:
        es.append([rng.choice(MODNAMES) + ".pyi", F()])
    if depth < 3 and rng.random() < 0.5:
        inner = [[rng.choice(MODNAMES) + ".py", F()]]
        if rng.random() < 0.5:
            inner.append(["__init__.py", F()])
        es.append([rng.choice(["sub", "deep", "v3.0"]), D(inner)])
    seen, out = set(), []
    for n, x in es:
        if n not in seen:
            seen.add(n)
            out.append([n, x])
    rng.shuffle(out)
    return out


def gen_init_files(rng, top_level: bool):
    """Entries that make a directory a package (or not)."""
    r = rng.random()
    if r < 0.45:
        out = [["__init__.py", F()]]
    elif r < 0.55:
        out = [["__init__.py", F()], ["__init__.pyi", F()]]
    elif r < 0.65:
        out = [["__init__.pyi", F()]]
    elif r < 0.92:
        out = []
    elif r < 0.95:
        out = [["__init__" + rng.choice([EXT_SUFFIX, ".so", ".pyc"]), F()]]
    elif r < 0.98:
        out = [["__init__.py", F()], ["__init__" + rng.choice([EXT_SUFFIX, ".pyc"]), F()]]
    else:
        out = [["__init__.py", F(rng.randint(1, len(NS_TEXTS)) if top_level else 0)]]
    return out


def gen_dir(rng, depth: int, top_level: bool, force_init=None, rich=1.0):
    """Listing of a (candidate) package directory."""
    es = gen_init_files(rng, top_level) if force_init is None else list(force_init)
    names = rng.sample(MODNAMES, rng.randint(0, 3 if depth < 2 else 2))
    for n in names:
        r = rng.random()
        forms = []
        if r < 0.40:
            forms = [".py"]
        elif r < 0.50:
            forms = [".py", ".pyi"]
        elif r < 0.56:
            forms = [".pyi"]
        elif r < 0.62:
            forms = [rng.choice(COMPILED_FORMS)]
        elif r < 0.68:
            forms = [".py", rng.choice(COMPILED_FORMS)]
        elif r < 0.71:
            forms = [".pyi", rng.choice(COMPILED_FORMS)]
        elif r < 0.90:
            forms = ["/"]
        elif r < 0.96:
            forms = ["/", rng.choice([".py", ".pyi", ".py", EXT_SUFFIX])]
        elif r < 0.98:
            forms = [".pyi", ".x.pyi"]
        else:
            forms = [".py", ".v2.py"]
        for f in forms:
            if f == "/":
                if depth < 3:
                    es.append([n, D(gen_dir(rng, depth + 1, False))])
                else:
                    es.append([n, D([["__init__.py", F()]] if rng.random() < 0.5 else [])])
            else:
                es.append([n + f, F()])
    if rng.random() < 0.12:
        # a directory whose name contains a dot (not importable): modules and sub-packages inside it
        es.append([rng.choice(DOTTED_DIRS), D(gen_dotted_dir(rng, depth))])
    if rng.random() < 0.30 * rich:
        es.append([rng.choice(JUNK), F()])
    if rng.random() < 0.15 * rich:
        inner = [[rng.choice(MODNAMES) + ".cpython-312.pyc", F()]]
        if rng.random() < 0.3:
            inner.append(["__init__.cpython-312.pyc", F()])
        es.append(["__pycache__", D(inner)])
    if rng.random() < 0.03 * rich:
        es.append([rng.choice([".x.pyi", ".y" + EXT_SUFFIX, ".z.pyc"]), F()])
    if rng.random() < 0.05 * rich:
        es.append([rng.choice(["conftest.py", "__main__.py", "a.b.py"]), F()])
    seen = set()
    out = []
    for n, x in es:
        if n not in seen:
            seen.add(n)
            out.append([n, x])
    rng.shuffle(out)
    return out


def gen_top_form(rng):
    """How the top-level name appears in one search directory."""
    r = rng.random()
    if r < 0.34:
        return [[TOP, D(gen_dir(rng, 1, True, force_init=[["__init__.py", F()]] if rng.random() < 0.8 else None))]]
    if r < 0.60:
        return [[TOP, D(gen_dir(rng, 1, True, force_init=[]))]]            # namespace portion
    if r < 0.70:
        return [[TOP + ".py", F()]] + ([[TOP + ".pyi", F()]] if rng.random() < 0.4 else [])
    if r < 0.75:
        return [[TOP + ".py", F()], [TOP, D(gen_dir(rng, 1, True, force_init=[] if rng.random() < 0.6 else None))]]
    if r < 0.79:
        return [[TOP + rng.choice([EXT_SUFFIX, ".pyc", ".so"]), F()]] + ([[TOP, D(gen_dir(rng, 1, True))]] if rng.random() < 0.5 else [])
    if r < 0.83:
        return [[TOP + ".pyi", F()]]
    if r < 0.86:
        return [[TOP, D(gen_dir(rng, 1, True, force_init=[["__init__.pyi", F()]]))]]
    if r < 0.89:
        return [[TOP, D(gen_dir(rng, 1, True, force_init=[["__init__.py", F(rng.randint(1, len(NS_TEXTS)))]]))]]    # pkgutil / pkg_resources-style namespace
    return []


def gen_case(rng, allow_pth=True):
    nsearch = rng.choice([1, 2, 2, 3, 3])
    nextra = rng.choice([0, 0, 1, 2]) if allow_pth else 0
    ids = list(range(nsearch + nextra))
    dirs = []
    for i in ids:
        listing = gen_top_form(rng)
        if rng.random() < 0.2:
            listing.append(["bb", D([["__init__.py", F()]])])
        if rng.random() < 0.2:
            listing.append([rng.choice(["setup.py", "README", "zz.py"]), F()])
        dirs.append([i, listing])
    # .pth files live in the search directories (and sometimes in the directories they add)
    if nextra:
        extra = ids[nsearch:]
        holders = ids[:nsearch] + ([rng.choice(extra)] if rng.random() < 0.15 else [])
        npth = rng.choice([1, 1, 2, 3])
        for k in range(npth):
            h = rng.choice(holders)
            lines = []
            for _ in range(rng.randint(1, 3)):
                r = rng.random()
                if r < 0.6:
                    lines.append(rng.choice(extra))
                elif r < 0.7:
                    lines.append(rng.choice(ids))
                elif r < 0.78:
                    lines.append("# a comment")
                elif r < 0.84:
                    lines.append("")
                elif r < 0.92:
                    lines.append("/nonexistent/dir")
                elif r < 0.97:
                    lines.append(f"../d{rng.choice(extra)}")          # relative to the directory of the .pth file
                else:
                    lines.append(f"{CWD_LINE}{rng.choice(extra)}")     # relative to the current directory only (F6)
            name = rng.choice(["a", "b", "c", "zz", "_x"]) + ".pth"
            if rng.random() < 0.05:
                name = rng.choice([".pth", ".x.pth"])      # hidden names: ".pth" has no pathlib suffix (outside the domain), ".x.pth" has
            listing = dirs[h][1]
            if not any(n == name for n, _ in listing):
                listing.append([name, F(0, lines)])
    for _, l in dirs:
        rng.shuffle(l)
    return {"dirs": dirs, "search": ids[:nsearch], "name": TOP}


def case_features(case):
    """Shape tags for the distribution report."""
    tags = set()
    ntop = 0
    for i, l in case["dirs"]:
        for n, x in l:
            if n == TOP and x[0] == "d":
                inner = {m for m, _ in x[1]}
                ntop += 1
                if "__init__.py" in inner:
                    tags.add("top:regular" if not any(m == "__init__.py" and y[1] for m, y in x[1]) else "top:nsdecl")
                elif "__init__.pyi" in inner:
                    tags.add("top:stubpkg")
                else:
                    tags.add("top:nsportion")
            elif n == TOP + ".py":
                tags.add("top:module")
                ntop += 1
            elif n.startswith(TOP + ".") and x[0] == "f":
                tags.add("top:other-file")
            if n.endswith(".pth"):
                tags.add("pth")
    tags.add(f"top-occurrences:{min(ntop, 3)}")
    return sorted(tags)


def count_nodes(case):
    k = 0

    def rec(l):
        nonlocal k
        for _, x in l:
            k += 1
            if x[0] == "d":
                rec(x[1])
    for _, l in case["dirs"]:
        rec(l)
    return k


# ---------------------------------------------------------------------------------------------------------------
# Evaluation of a batch of cases: (C), (O) and the direct property checks
# ---------------------------------------------------------------------------------------------------------------
COMPILED_SUFFIXES = (".so", ".pyc")


def is_compiled(p) -> bool:
    return p[1][-1].endswith(COMPILED_SUFFIXES)


def dotted(parts):
    return ".".join(parts)


def perms_of(case, rng, n_random=1):
    out = [("asis", case), ("sorted", permute_case(case, "sorted")), ("reversed", permute_case(case, "reversed"))]
    for k in range(n_random):
        out.append((f"random{k}", permute_case(case, "random", rng)))
    return out


def evaluate(cases, scratch: Path, model, rng, n_random=1, tag="b", perms_fn=None):
    """Run implementation (all listing orders), model and CPython on every case.  Returns a list of reports."""
    reports = []
    model_in = []
    for k, case in enumerate(cases):
        base = scratch / f"{tag}{k}"
        materialise(case, base)
        rep = {"case": case, "base": base, "perms": []}
        for label, pc in (perms_fn(case) if perms_fn else perms_of(case, rng, n_random)):
            om = order_map(pc, base)
            subs = []
            rep["perms"].append({"label": label, "case": pc, "find": impl_find(pc, base, om), "load": impl_load(pc, base, om, want_subs=subs),
                                 "subs": subs[0] if subs else None})
        # by path (finder._module_name_path / _top_module_name): every top-level directory called like the package, in
        # search directories and elsewhere, its __init__ files, some nested directories and files, a missing path
        rep["by_paths"] = []
        for tgt in bypath_targets(case):
            target = root_dir(base, tgt[0]).joinpath(*tgt[1])
            rep["by_paths"].append({"target": tgt, "impl": impl_load(case, base, order_map(case, base), by_path=target)})
        reports.append(rep)
    # model: find + load for every permutation, spec functions once
    for rep in reports:
        for p in rep["perms"]:
            a = abstract_case(p["case"])
            model_in.append(["find", a])
            model_in.append(["load", 0, a])
            model_in.append(["gaps", a])
            model_in.append(["domain", a])
            model_in.append(["subs", a])
            model_in.append(["nsok", a])
        a = abstract_case(rep["case"])
        model_in += [["paths", a], ["pyfind", a], ["pywalk", a], ["gaps", a]]
        model_in += [["bypath", a, bp["target"]] for bp in rep["by_paths"]]
    out = iter(model(model_in))
    for rep in reports:
        for p in rep["perms"]:
            p["m_find"] = next(out)
            p["m_load"] = canon_model_load(next(out))
            p["m_gaps"] = next(out)
            p["m_domain"] = next(out)
            p["m_subs"] = next(out)
            p["m_nsok"] = next(out)
        rep["m_paths"], rep["m_pyfind"], rep["m_pywalk"], rep["m_gaps"] = next(out), next(out), next(out), next(out)
        for bp in rep["by_paths"]:
            bp["model"] = next(out)
    # CPython
    jobs = []
    for rep in reports:
        q = set()
        for p in rep["perms"]:
            if p["load"][0] == "ok":
                q.update(dotted(e[0]) for e in p["load"][1])
        q.update(dotted(nb[0]) for nb in rep["m_pywalk"] if isinstance(nb, list) and nb and isinstance(nb[0], list))
        rep["queries"] = sorted(q)
        jobs.append({"search": [str(root_dir(rep["base"], i)) for i in rep["case"]["search"]], "name": rep["case"]["name"],
                     "queries": rep["queries"]})
    for rep, o in zip(reports, run_oracle(scratch, jobs, tag)):
        rep["oracle"] = o
    # model of CPython on the same queries
    mi = [["pyimport", abstract_case(rep["case"]), [q.split(".") for q in rep["queries"]]] for rep in reports]
    for rep, o in zip(reports, model(mi)):
        rep["m_pyimport"] = dict(zip(rep["queries"], o))
    return reports


def bypath_targets(case):
    tg = []
    for i, l in case["dirs"]:
        for n, x in l:
            if n == TOP and x[0] == "d":
                tg.append([i, [TOP]])
                nd = nf = 0
                for m, y in x[1]:
                    if y[0] == "f" and m.startswith("__init__."):
                        tg.append([i, [TOP, m]])
                    elif y[0] == "d" and m != "__pycache__" and nd < 1:
                        nd += 1
                        tg.append([i, [TOP, m]])
                        inits = [k for k, z in y[1] if z[0] == "f" and k.startswith("__init__.")]
                        if inits:
                            tg.append([i, [TOP, m, inits[0]]])
                    elif y[0] == "f" and m.endswith(".py") and nf < 1:
                        nf += 1
                        tg.append([i, [TOP, m]])
            elif n == TOP + ".py" and x[0] == "f":
                tg.append([i, [n]])
    tg.append([case["dirs"][0][0], ["nonexistent"]])
    return tg[:10]


def direct_checks(rep):
    """Griffe against CPython and against itself.  Returns ([(check, detail)] for every disagreement, counters)."""
    base = rep["base"]
    o = rep["oracle"]
    fails = []
    counts = {}

    def cnt(k):
        counts[k] = counts.get(k, 0) + 1

    if "crash" in o:
        return [("oracle-crash", o["crash"])], counts
    ofind = canon_oracle_spec(base, o["find"])
    opaths = [rel(base, x)[0] for x in o["paths"]]
    oq = {q: canon_oracle_spec(base, v) for q, v in o["queries"].items()}
    top_path = [rel(base, x) for x in o.get("top_path", [])]
    first = rep["perms"][0]
    # D5: listing-order invariance (search paths, top-level answer, tree)
    for p in rep["perms"][1:]:
        if p["find"] != first["find"]:
            fails.append(("order-find", {"order": p["label"], "a": first["find"], "b": p["find"]}))
        if p["load"] != first["load"]:
            fails.append(("order-tree", {"order": p["label"], "a": first["load"], "b": p["load"]}))
    # D6: by name vs by path of a top-level directory of a search directory (any of them, not only the winning one)
    eff = first["find"][1] if first["find"][0] == "ok" else []
    for bp in rep.get("by_paths", []):
        i, comps = bp["target"]
        if comps == [rep["case"]["name"]] and i in eff:
            cnt("by-path-compared")
            if bp["impl"] != first["load"]:
                fails.append(("name-vs-path", {"path": bp["target"], "by_name": first["load"], "by_path": bp["impl"]}))
    # Griffe vs CPython, for the listing order of the case (all orders when the orders disagree)
    for p in (rep["perms"] if any(k.startswith("order") for k, _ in fails) else rep["perms"][:1]):
        f, t = p["find"], p["load"]
        lab = p["label"]
        if f[0] != "ok":
            fails.append(("find-raises", {"order": lab, "griffe": f}))
            continue
        # D0: effective search paths (.pth additions)
        if f[1] != opaths:
            fails.append(("paths", {"order": lab, "griffe": f[1], "cpython": opaths}))
            continue
        # D1: top-level precedence
        g = f[2]
        if ofind[0] in ("pkg", "mod") and is_compiled(ofind[1]):
            cnt("scope:top-compiled")
            continue
        if g[0] == "pkg" and g[1][1][-1].endswith(".pyi"):
            cnt("scope:top-stub-only-package")
            continue
        if g[0] == "pkg":
            if not (ofind[0] in ("pkg", "mod") and ofind[1] == g[1]):
                fails.append(("find", {"order": lab, "griffe": g, "cpython": ofind}))
                continue
        elif g[0] == "ns":
            # a pkgutil-style namespace is a regular package for CPython whose __path__ spans the portions
            cp_dirs = ofind[1] if ofind[0] == "ns" else top_path if ofind[0] == "pkg" else None
            if ofind[0] == "pkg":
                cnt("top:pkgutil-namespace")
            if cp_dirs is None or cp_dirs != g[1]:
                fails.append(("find", {"order": lab, "griffe": g, "cpython": ofind, "cpython_path": top_path}))
                continue
        elif ofind[0] != "notfound":
            fails.append(("find", {"order": lab, "griffe": g, "cpython": ofind}))
            continue
        cnt("find-agrees:" + g[0])
        # D2/D4: loaded => importable from that file (or stub-only), classified alike
        if t[0] == "err":
            fails.append(("load-raises", {"order": lab, "griffe": t, "cpython": ofind}))
            continue
        if t[0] == "notfound":
            continue
        loaded = {dotted(e[0]): e for e in t[1]}
        # modules outside the stated domain, and everything below them: CPython's spec is a compiled file / needs a fake
        # binary, or Griffe took a stub-only package where CPython finds a regular one elsewhere
        out_of_scope = set()
        for name, q in oq.items():
            if q[0] == "err" or (q[0] in ("pkg", "mod") and is_compiled(q[1])):
                out_of_scope.add(name)
        for name, (parts, cls, kind, files) in loaded.items():
            q = oq.get(name)
            if kind == "file" and files[0][1][-1] == "__init__.pyi" and len(parts) > 1:
                out_of_scope.add(name)          # a stub-only package is a namespace portion (or nothing) for CPython
        # the walker's own answers say which walked packages are compiled (needed when the model's walk is unavailable: search mode)
        for wname, ispkg, spec in o["walk"]:
            wspec = canon_oracle_spec(base, spec)
            if wspec[0] == "err" or (wspec[0] in ("pkg", "mod") and is_compiled(wspec[1])):
                out_of_scope.add(wname)

        def scoped(name):
            ps = name.split(".")
            return any(".".join(ps[:k]) in out_of_scope for k in range(1, len(ps) + 1))

        for name, (parts, cls, kind, files) in sorted(loaded.items()):
            q = oq.get(name)
            if q is None:
                fails.append(("harness", f"no oracle answer for {name}"))
                continue
            if scoped(name):
                cnt("scope:compiled-or-stub-only-package")
                continue
            if kind == "ns":
                want = q[1] if q[0] == "ns" else top_path if (len(parts) == 1 and q[0] == "pkg") else None
                # the top-level portions must be CPython's; below, Griffe only records portions in which it met a module
                # ... but every portion from which it loaded a module below this namespace must be recorded
                needed = []
                if want is not None:
                    for n2, e2 in loaded.items():
                        if n2.startswith(name + ".") and e2[2] == "file":
                            f2 = e2[3][0]
                            needed += [x for x in want if x[0] == f2[0] and f2[1][:len(x[1])] == x[1] and x not in needed]
                if want is None or (sorted(want) != files if len(parts) == 1 else (not files or any(x not in want for x in files) or any(x not in files for x in needed))):
                    fails.append(("loaded-not-importable", {"order": lab, "module": name, "griffe": [cls, files], "cpython": q}))
                elif cls != ("NP" if len(parts) == 1 else "NS"):
                    fails.append(("classification", {"order": lab, "module": name, "griffe": cls, "cpython": q}))
                else:
                    cnt("importable-namespace")
                continue
            f0 = files[0]
            if q[0] in ("pkg", "mod") and q[1] == f0:
                want = ("P" if len(parts) == 1 else "S") if q[0] == "pkg" else "M"
                if cls != want:
                    fails.append(("classification", {"order": lab, "module": name, "griffe": cls, "cpython": q}))
                cnt("importable")
            elif f0[1][-1].endswith(".pyi") and q[0] in ("notfound", "ns"):
                # stub-only module: its parent must be importable and must search the stub's directory,
                # or the parent is itself a stub-only package
                par = oq.get(dotted(parts[:-1])) if len(parts) > 1 else None
                stub_dir = [f0[0], f0[1][:-1] if not f0[1][-1].startswith("__init__") else f0[1][:-2]]
                ok = len(parts) == 1 or (par is not None and (
                    (par[0] == "pkg" and [par[1][0], par[1][1][:-1]] == stub_dir) or (par[0] == "ns" and stub_dir in par[1])
                    or (par[0] == "pkg" and len(parts) == 2 and stub_dir in top_path)))
                if not ok and len(parts) > 1 and par is not None and par[0] in ("notfound", "ns") and dotted(parts[:-1]) in loaded \
                        and loaded[dotted(parts[:-1])][3][0][1][-1].endswith(".pyi"):
                    ok = True
                if ok:
                    cnt("stub-only")
                else:
                    fails.append(("loaded-not-importable", {"order": lab, "module": name, "griffe": [cls, files], "cpython": q, "parent": par}))
            else:
                fails.append(("loaded-not-importable", {"order": lab, "module": name, "griffe": [cls, files], "cpython": q}))
        # D3: walked by CPython => loaded from the same file
        for wname, ispkg, spec in o["walk"]:
            spec = canon_oracle_spec(base, spec)
            if spec[0] == "err" or (spec[0] in ("pkg", "mod") and is_compiled(spec[1])) or scoped(wname):
                cnt("scope:walk-compiled-or-stub-only-package")
                continue
            e = loaded.get(wname)
            if e is None or (spec[0] in ("pkg", "mod") and e[3] != [spec[1]]):
                fails.append(("walked-not-loaded", {"order": lab, "module": wname, "cpython": spec, "griffe": e}))
            else:
                cnt("walked-loaded")
    return fails, counts


# ---------------------------------------------------------------------------------------------------------------
# Known findings: classification of a disagreement by the shape of the layout (model verdict: run_C14 "gaps")
# ---------------------------------------------------------------------------------------------------------------
def classify_failure(kind, detail, gaps, loaded_cls=None):
    """-> finding id, "scope" (outside the stated domain, counted), or None (new violation).
    Repaired findings (F1 plain-module parent, F2 .pth order, F3/F10 regular sub-package shadows the other portions,
    F4 dot-file, F5 dotted stubs name, F7 transitive .pth, F8 first portion's module wins, F9 compiled __init__ stem)
    have no classifier."""
    g = set(gaps)
    if kind == "paths":
        if "F6" in g:
            return "C14-F6"
        if "pth-dot-name" in g:
            return "scope"
    elif kind in ("find", "loaded-not-importable", "walked-not-loaded"):
        if "nsdecl-mixed" in g:
            return "scope"
    return None


def py_gaps(case):
    """Python mirror of the model's gap verdicts; used only when the extracted model is unavailable (search)."""
    g = set()
    for i, l in case["dirs"]:
        for n, x in l:
            if x[0] == "f" and n.endswith(".pth") and len(n) > 4:
                if any(isinstance(z, str) and z.strip().startswith(CWD_LINE) for z in x[2]):
                    g.add("F6")
            if x[0] == "f" and n == ".pth":
                g.add("pth-dot-name")
    tops = [x for i, l in case["dirs"] for n, x in l if n == case["name"] and x[0] == "d"]
    if any(m == "__init__.py" and y[0] == "f" and y[1] for x in tops for m, y in x[1]):
        g.add("nsdecl-mixed")
    return sorted(g)


# ---------------------------------------------------------------------------------------------------------------
# Witnesses of the known findings (replayed on the implementation on every run) and targeted layouts
# ---------------------------------------------------------------------------------------------------------------
def _pkg(*entries):
    return D([["__init__.py", F()]] + [list(e) for e in entries])


WITNESSES = {
    "C14-F6": ({"dirs": [[0, [["a.pth", F(0, [CWD_LINE + "1"])]]], [1, [["aa", _pkg(["m.py", F()])]]]], "search": [0], "name": "aa"}, "paths"),
}

# witnesses of the repaired findings: ordinary corpus layouts now, they must PASS (no classifier is left for them)
FIXED_WITNESSES = {
    "C14-F1": ({"dirs": [[0, [["aa", _pkg(["bar.py", F()], ["bar", D([["inner.py", F()]])])]]]], "search": [0], "name": "aa"},
               "loaded-not-importable"),
    "C14-F2": ({"dirs": [[0, [["b.pth", F(0, [1])], ["a.pth", F(0, [2])]]],
                         [1, [["aa", _pkg(["one.py", F()])]]], [2, [["aa", _pkg(["two.py", F()])]]]], "search": [0], "name": "aa"},
               "order-find"),
    "C14-F3": ({"dirs": [[0, [["aa", D([["sub", _pkg(["a.py", F()])]])]]],
                         [1, [["aa", D([["sub", D([["x.py", F()], ["other", _pkg(["z.py", F()])]])]])]]]], "search": [0, 1], "name": "aa"},
               "loaded-not-importable"),
    "C14-F4": ({"dirs": [[0, [["aa", _pkg(["m.py", F()], [".x.pyi", F()])]]]], "search": [0], "name": "aa"}, "load-raises"),
    "C14-F5": ({"dirs": [[0, [["aa", _pkg(["r.pyi", F()], ["r.x.pyi", F()])]]]], "search": [0], "name": "aa"}, "order-tree"),
    "C14-F6-pth-dir": ({"dirs": [[0, [["a.pth", F(0, ["../d1"])]]], [1, [["aa", _pkg(["m.py", F()])]]]], "search": [0], "name": "aa"}, "paths"),
    "C14-F7": ({"dirs": [[0, [["a.pth", F(0, [1])]]], [1, [["b.pth", F(0, [2])]]], [2, [["aa", _pkg(["m.py", F()])]]]], "search": [0], "name": "aa"},
               "paths"),
    "C14-F8": ({"dirs": [[0, [["aa", D([["n.py", F()], ["x.py", F()]])]]], [1, [["aa", D([["n.py", F()]])]]]], "search": [0, 1], "name": "aa"},
               "loaded-not-importable"),
    "C14-F9": ({"dirs": [[0, [["aa", D([["sub", D([["deep", D([["__init__" + EXT_SUFFIX, F()]])]])]])]]],
                         [1, [["aa", D([["sub", D([["b.py", F()]])]])]]]], "search": [0, 1], "name": "aa"}, "loaded-not-importable"),
    "C14-F10": ({"dirs": [[0, [["aa", D([["sub", D([["early.py", F()]])]])]]], [1, [["aa", D([["sub", _pkg(["late.py", F()])]])]]]],
                 "search": [0, 1], "name": "aa"}, "loaded-not-importable"),
    # F11: `from pkgutil import extend_path` after a docstring (ns text 30), `import pkgutil` form (37), `import pkg_resources` form (44)
    "C14-F11": ({"dirs": [[0, [["aa", D([["__init__.py", F(30)], ["a.py", F()]])]]], [1, [["aa", D([["__init__.py", F(30)], ["b.py", F()]])]]]],
                 "search": [0, 1], "name": "aa"}, "walked-not-loaded"),
    "C14-F11b": ({"dirs": [[0, [["aa", D([["__init__.py", F(37)], ["a.py", F()]])]]], [1, [["aa", D([["__init__.py", F(44)], ["b.py", F()]])]]]],
                  "search": [0, 1], "name": "aa"}, "walked-not-loaded"),
}


def targeted_cases():
    """Hand-picked layouts around every decision of the anchored code."""
    cs = [w for w, _ in WITNESSES.values()] + [w for w, _ in FIXED_WITNESSES.values()]
    mk = lambda dirs, search: {"dirs": [[i, l] for i, l in enumerate(dirs)], "search": search, "name": TOP}
    cs += [
        # precedence across search paths
        mk([[["aa", D([["m.py", F()]])]], [["aa", _pkg(["n.py", F()])]]], [0, 1]),                     # namespace portion then regular package
        mk([[["aa", _pkg(["m.py", F()])]], [["aa", _pkg(["n.py", F()])]]], [0, 1]),                    # two regular packages
        mk([[["aa", D([["m.py", F()]])]], [["aa.py", F()]]], [0, 1]),                                  # namespace portion then module
        mk([[["aa", D([["m.py", F()]])], ["aa.py", F()]]], [0]),                                       # module beats namespace portion in one path
        mk([[["aa.py", F()], ["aa", _pkg(["m.py", F()])]]], [0]),                                      # package beats module in one path
        mk([[["aa.py", F()], ["aa.pyi", F()]]], [0]),                                                  # module with stubs
        mk([[["aa", D([["__init__.py", F()], ["__init__.pyi", F()], ["m.py", F()], ["m.pyi", F()]])]]], [0]),
        mk([[["aa", D([["__init__.pyi", F()], ["m.pyi", F()]])]]], [0]),                               # stub-only package
        mk([[], [["aa", _pkg()]]], [0, 1]),                                                            # empty first path
        mk([[["bb", _pkg()]]], [0]),                                                                   # not found
        # nested packages, missing __init__, __pycache__, junk
        mk([[["aa", _pkg(["sub", _pkg(["deep", _pkg(["x.py", F()])], ["m.py", F()])], ["noinit", D([["m.py", F()]])],
                         ["__pycache__", D([["m.cpython-312.pyc", F()], ["__init__.cpython-312.pyc", F()]])], ["README.md", F()])]]], [0]),
        mk([[["aa", _pkg(["m.py", F()], ["m", _pkg(["x.py", F()])])]]], [0]),                          # module and package of one name
        mk([[["aa", _pkg(["m.pyi", F()], ["m", _pkg(["x.py", F()])])]]], [0]),
        mk([[["aa", _pkg(["m.py", F()], ["m", D([["__init__.pyi", F()], ["x.py", F()]])])]]], [0]),
        mk([[["aa", _pkg(["a.b.py", F()], ["m.v2.py", F()], ["n.x.pyi", F()])]]], [0]),                # dots in file names
        # directories with a dot in their name, at every level, below regular / namespace packages and sub-packages
        mk([[["aa", _pkg(["v1.2", D([["api.py", F()], ["__init__.py", F()], ["sub", _pkg(["x.py", F()])]])], ["m.py", F()],
                         ["sub", _pkg(["data.v2", D([["y.py", F()]])])])]]], [0]),
        mk([[["aa", D([["core", D([["v1.2", D([["api.py", F()]])], ["api.py", F()]])], ["v1.2", D([["top.py", F()]])]])]]], [0]),
        mk([[["aa", D([["core", D([["api.py", F()]])]])]], [["aa", D([["core", D([["data.v2", D([["y.py", F()], ["sub", _pkg(["z.py", F()])]])]])]])]]], [0, 1]),
        mk([[["aa", D([["sub", _pkg(["v1.2", D([["api.py", F()]])], ["a.py", F()])], ["ns", D([["sub.d", D([["__init__.py", F()], ["k.py", F()]])], ["k.py", F()]])]])]]], [0]),
        mk([[["aa", D([["v1.2", D([["deep", D([["x.py", F()]])]])], ["m.py", F()]])]]], [0]),
        # compiled names
        mk([[["aa", _pkg(["m" + EXT_SUFFIX, F()], ["n.abi3.so", F()], ["x.so", F()], ["deep.pyc", F()], ["sub.pyd", F()],
                         ["q.cpython-311-x86_64-linux-gnu.so", F()])]]], [0]),
        mk([[["aa", _pkg(["m.py", F()], ["m" + EXT_SUFFIX, F()])]]], [0]),
        mk([[["aa", _pkg(["sub", D([["__init__" + EXT_SUFFIX, F()], ["m.py", F()]])])]]], [0]),
        # namespace packages over several portions
        mk([[["aa", D([["sub", _pkg(["a.py", F()])], ["m.py", F()]])]], [["aa", D([["sub", _pkg(["b.py", F()])], ["n.py", F()]])]]], [0, 1]),
        mk([[["aa", D([["sub", D([["a.py", F()]])]])]], [["aa", D([["sub", D([["b.py", F()]]), ], ["sub2", D([["deep", D([["c.py", F()]])]])]])]]], [0, 1]),
        mk([[["aa", D([["sub", D([["deep", D([["x.py", F()]])]])]])]], [["aa", D([["sub", D([["b.py", F()]])]])]]], [0, 1]),
        mk([[["aa", D([["sub", D([["__init__" + EXT_SUFFIX, F()]])]])]], [["aa", D([["sub", D([["b.py", F()]])]])]]], [0, 1]),
        mk([[["aa", D([["sub", D([["deep", D([["__init__.abi3.so", F()]])]])]])]], [["aa", D([["sub", D([["b.py", F()]])]])]]], [0, 1]),
        mk([[["aa", D([["__init__.py", F(1)], ["m.py", F()]])]], [["aa", D([["__init__.py", F(1)], ["n.py", F()]])]]], [0, 1]),   # pkgutil style
        mk([[["aa", D([["__init__.py", F(1)], ["m.py", F()]])]], [["aa", _pkg(["n.py", F()])]]], [0, 1]),                         # mixed
        # realistic declaring __init__ files: docstring / licence header / imports before the declaration, both quote styles,
        # the pkg_resources spelling, the try/except template
        *[mk([[["aa", D([["__init__.py", F(k)], ["m.py", F()], ["sub", _pkg(["a.py", F()])]])]], [["aa", D([["__init__.py", F(k2)], ["n.py", F()]])]]], [0, 1])
          for k, k2 in ((2, 2), (3, 10), (5, 16), (7, 21), (12, 26), (19, 5), (28, 1), (14, 23))],
        # which portion provides a regular sub-package is decided top-down over ALL portions
        mk([[["aa", D([["sub", D([["deep", _pkg(["a.py", F()])]])]])]], [["aa", D([["sub", _pkg(["deep", _pkg(["x.py", F()])], ["late.py", F()])]])]]], [0, 1]),
        mk([[["aa", D([["sub", D([["deep", _pkg(["a.py", F()])], ["e.py", F()]])]])]], [["aa", D([["sub", D([["deep", _pkg(["x.py", F()])], ["late.py", F()]])]])]]], [0, 1]),
        mk([[["aa", D([["n.py", F()], ["n", D([["z.py", F()]])]])]], [["aa", D([["n", _pkg(["x.py", F()])]])]], [["aa", D([["n", D([["y.py", F()]])]])]]], [0, 1, 2]),
        mk([[["aa", D([["m", D([["__init__.pyi", F()], ["n.pyi", F()]])]])]], [["aa", D([["m", _pkg(["n.py", F()])], ["m.py", F()]])]]], [0, 1]),   # stubs do not make a provider
        mk([[["aa", D([["x.cpython-311-x86_64-linux-gnu.so", F()], ["m.py", F()]])]], [["aa", D([["x.py", F()], ["m.py", F()], ["m.pyi", F()]])]]], [0, 1]),   # a foreign-ABI binary does not take the name
        # shapes that once needed a decision in this harness (regression corpus)
        mk([[["aa", D([["sub.py", F()], ["m", D([["m", D([["m.py", F()]])]])]])]], [["aa", D([["sub", D([["sub.pyi", F()]])]])]]], [0, 1]),   # plain module in one portion, directory in the other
        mk([[["aa", D([["deep", D([["m.pyi", F()], ["__init__.pyi", F()]])]])]], [["aa", D([["deep", D([["m.py", F()]])]])]]], [0, 1]),          # stub-only sub-package shadows the next portion
        mk([[["aa", D([["deep", D([["m.py", F()]])]])]], [["aa", D([["deep", D([["deep", D([])]])], ["m.py", F()]])]]], [0, 1]),                  # portion without modules
        mk([[["aa", _pkg(["m.pyc", F()], ["m", D([["__init__.pyi", F()], ["x.py", F()]])])]]], [0]),                                               # compiled module beside a stub-only package
        mk([[["aa.py", F()], ["aa", D([["__init__.py", F(1)], ["m.py", F()]])]]], [0]),                                                            # pkgutil declaration beside a module file
        mk([[["aa", D([["sub", D([["sub", _pkg(["m.py", F()])], ["m", D([["m.py", F()]])]])]])]], [["aa", D([["sub", _pkg(["sub", D([["deep.py", F()]])])]])]]], [0, 1]),
        # .pth files
        mk([[["a.pth", F(0, [1, "# comment", "", "/nonexistent", 1])]], [["aa", _pkg()]]], [0]),
        mk([[["a.pth", F(0, [1])], ["aa", D([["m.py", F()]])]], [["aa", D([["n.py", F()]])]]], [0]),
        mk([[["a.pth", F(0, [2])]], [["aa", _pkg(["one.py", F()])]], [["aa", _pkg(["two.py", F()])]]], [0, 1]),
        mk([[[".x.pth", F(0, [1])]], [["aa", _pkg(["one.py", F()])]]], [0]),                          # hidden .pth file with a stem
        mk([[[".pth", F(0, [1])]], [["aa", _pkg(["one.py", F()])]]], [0]),                            # ".pth": no pathlib suffix (scope)
        mk([[["a.pth", F(0, ["../d1", 2])], ["b.pth", F(0, [1])]], [["c.pth", F(0, [3])], ["aa", D([["m.py", F()]])]], [["aa", D([["n.py", F()]])]], [["aa", _pkg()]]], [0]),   # relative line, not transitive
    ]
    return cs


CLASH_ATOMS = [
    ("m.py", lambda: F()), ("m.pyi", lambda: F()), ("m" + EXT_SUFFIX, lambda: F()), ("m.pyc", lambda: F()),
    ("m", lambda: _pkg(["x.py", F()])), ("m/", lambda: D([["x.py", F()]])), ("m//", lambda: D([["__init__.pyi", F()], ["x.py", F()]])),
    ("n.py", lambda: F()),
]


def clash_family(max_size):
    """Every subset (up to max_size) of same-name atoms inside a regular package; all listing orders are tried by the caller."""
    import itertools
    out = []
    for k in range(1, max_size + 1):
        for combo in itertools.combinations(CLASH_ATOMS, k):
            names = [n.rstrip("/") for n, _ in combo]
            if len(set(names)) < len(names):
                continue
            out.append({"dirs": [[0, [["aa", D([["__init__.py", F()]] + [[n.rstrip("/"), mkn()] for n, mkn in combo])]]]], "search": [0], "name": TOP})
    return out


def all_orders_of_top(case):
    """All permutations of the listing of the first search path's top-level package directory."""
    import itertools
    i0, l0 = case["dirs"][0]
    idx = next(k for k, (n, x) in enumerate(l0) if n == TOP)
    inner = l0[idx][1][1]
    out = []
    for k, perm in enumerate(itertools.permutations(inner)):
        l = list(l0)
        l[idx] = [TOP, D([list(e) for e in perm])]
        out.append((f"perm{k}", {**case, "dirs": [[i0, l]] + case["dirs"][1:]}))
    return out


def gen_ns_dir(rng, depth):
    es = []
    for n in rng.sample(["sub", "deep", "m"], rng.randint(1, 3)):
        r = rng.random()
        if r < 0.35:
            es.append([n + ".py", F()])
        elif r < 0.42:
            es.append([n + ".pyi", F()])
        elif r < 0.47:
            es.append([n + rng.choice([EXT_SUFFIX, ".pyc"]), F()])
        elif depth < 3:
            inner = gen_ns_dir(rng, depth + 1)
            r2 = rng.random()
            if r2 < 0.40:
                inner.append(["__init__.py", F()])
            elif r2 < 0.46:
                inner.append(["__init__.pyi", F()])
            elif r2 < 0.50:
                inner.append(["__init__" + rng.choice([EXT_SUFFIX, ".so", ".abi3.so"]), F()])
            rng.shuffle(inner)
            es.append([n, D(inner)])
            if rng.random() < 0.08:
                es.append([n + ".py", F()])
    if rng.random() < 0.18:
        es.append([rng.choice(DOTTED_DIRS), D(gen_dotted_dir(rng, depth))])
    seen, out = set(), []
    for n, x in es:
        if n not in seen:
            seen.add(n)
            out.append([n, x])
    rng.shuffle(out)
    return out


def gen_ns_case(rng):
    """Namespace package spread over 2-3 search paths with overlapping sub-directories."""
    n = rng.choice([2, 2, 3])
    dirs = []
    for i in range(n):
        inner = gen_ns_dir(rng, 1)
        r = rng.random()
        if r < 0.10:
            inner.append(["__init__.py", F()])
        elif r < 0.16:
            inner.append(["__init__.py", F(rng.randint(1, len(NS_TEXTS)))])
        listing = [[TOP, D(inner)]] if rng.random() < 0.9 else []
        if rng.random() < 0.1:
            listing.append([TOP + ".py", F()])
        rng.shuffle(listing)
        dirs.append([i, listing])
    return {"dirs": dirs, "search": list(range(n)), "name": TOP}


# ---------------------------------------------------------------------------------------------------------------
# Histories on ONE loader: several top-level packages of one layout loaded one after the other
# ---------------------------------------------------------------------------------------------------------------
MULTI_NAMES = ["aa", "bb", "cc"]


def gen_multi_layout(rng):
    """A layout with two or three top-level packages whose trees use the same folder names in different roles
    (a folder without __init__ in one package, a regular sub-package of that name in another, a module of that name ...)."""
    names = MULTI_NAMES[:rng.choice([2, 3, 3])]
    nsearch = rng.choice([1, 1, 2])
    dirs = []
    for i in range(nsearch):
        listing = []
        for nm in names:
            r = rng.random()
            if r < 0.62:
                listing.append([nm, D(gen_dir(rng, 1, True, force_init=[["__init__.py", F()]], rich=0.3))])
            elif r < 0.80:
                listing.append([nm, D(gen_dir(rng, 1, True, force_init=[], rich=0.3))])          # namespace portion
            elif r < 0.88:
                listing.append([nm + ".py", F()])
        rng.shuffle(listing)
        dirs.append([i, listing])
    return {"dirs": dirs, "search": list(range(nsearch))}, names


def targeted_multi_layouts():
    """Hand-picked histories: a folder that is not importable in one package and a regular sub-package (or a module) of the
    same relative name in another one."""
    one = lambda listing, search=(0,): {"dirs": [[0, listing]], "search": list(search)}
    return [
        (one([["aa", _pkg(["tests", D([["helpers.py", F()]])], ["m.py", F()])],
              ["bb", _pkg(["tests", _pkg(["helpers.py", F()], ["deep", _pkg(["x.py", F()])])], ["n.py", F()])]]), ["aa", "bb"]),
        (one([["aa", _pkg(["sub.py", F()], ["sub", D([["inner.py", F()]])])],                     # files below a plain module of the same name
              ["bb", _pkg(["sub", _pkg(["inner.py", F()])])],
              ["cc", D([["sub", D([["inner.py", F()]])]])]]), ["aa", "bb", "cc"]),                   # ... and a namespace package
        (one([["aa", _pkg(["sub", _pkg(["deep", D([["x.py", F()]])], ["a.py", F()])])],
              ["bb", _pkg(["sub", _pkg(["deep", _pkg(["x.py", F()])], ["a.py", F()])])]]), ["aa", "bb"]),
        ({"dirs": [[0, [["aa", _pkg(["v1.2", D([["m.py", F()]])], ["noinit", D([["y.py", F()]])])]]],
                   [1, [["bb", D([["noinit", D([["y.py", F()]])]])], ["cc.py", F()]]]], "search": [0, 1]}, ["aa", "bb", "cc"]),
    ]


def impl_history(layout, base: Path, names):
    """ONE GriffeLoader loads the names one after the other -> list of canonical trees."""
    import griffe
    order = order_map({**layout, "name": names[0]}, base)
    out = []
    try:
        with listing_order(order), watchdog(40):
            loader = griffe.GriffeLoader(search_paths=[root_dir(base, i) for i in layout["search"]], allow_inspection=False)
            for nm in names:
                try:
                    top = loader.load(nm, try_relative_path=False)
                    while top.parent is not None:
                        top = top.parent
                    out.append(["ok", tree_of(top, base)])
                except ModuleNotFoundError:
                    out.append(["notfound"])
                except Exception as e:  # noqa: BLE001
                    out.append(["err", type(e).__name__])
    except Watchdog:
        out += [["err", "Timeout"]] * (len(names) - len(out))
    return out


def history_stream(ctx, n_layouts, model, tag, stream="one-loader-history"):
    """Each package of a layout goes through the ordinary checks (fresh loader vs model vs CPython); then the packages are
    loaded with ONE loader in several orders, and every tree must be the fresh loader's tree."""
    import itertools
    fixed = targeted_multi_layouts()
    for k in range(len(fixed) + n_layouts):
        layout, names = fixed[k] if k < len(fixed) else gen_multi_layout(ctx.rng)
        cases = [{**layout, "name": nm} for nm in names]
        scratch = ctx.scratch / f"{tag}{k}"
        reps = evaluate(cases, scratch, model, ctx.rng, n_random=0, tag="h") if model is not None else evaluate_no_model(cases, scratch, ctx.rng)
        if model is not None:
            process(ctx, reps, stream)
        else:
            for rep in reps:
                ctx.evaluations += 1
                report_direct(ctx, rep, py_gaps(rep["case"]))
        fresh = {nm: rep["perms"][0]["load"] for nm, rep in zip(names, reps)}
        orders = list(itertools.permutations(names))
        ctx.rng.shuffle(orders)
        for order in orders:                       # every order in which the packages can be loaded (at most 6)
            got = impl_history(layout, reps[0]["base"], list(order))
            ctx.count("history_loads")
            for pos, (nm, tree) in enumerate(zip(order, got)):
                ctx.observe("history", f"position{pos}:" + tree[0])
                if tree != fresh[nm]:
                    ctx.property_failure({"case": {**layout, "name": nm}, "check": "loader-history", "loaded_in_order": list(order)},
                                         {"package": nm, "position": pos, "with_one_loader": tree, "with_a_fresh_loader": fresh[nm]}, finding=None)
        subprocess.run(["rm", "-rf", str(scratch)])
        if model is None and ctx.prop_failures:
            return


# ---------------------------------------------------------------------------------------------------------------
# Symbolic links inside packages (not in the model: Griffe vs CPython, and Griffe vs Griffe across listing orders)
# ---------------------------------------------------------------------------------------------------------------
def _has_link(node):
    return node[0] == "l" or (node[0] == "d" and any(_has_link(x) for _, x in node[1]))


def add_symlinks(rng, case, how_many):
    """Add directory / file links inside the package trees: to a sibling, or to a sibling of a parent (never to an
    ancestor: no cycles).  Returns the number of links added."""
    spots = []          # (root id, path components of a directory below the root, its listing)

    def rec(i, comps, listing):
        if comps and comps[-1] == "__pycache__":
            return
        if comps:
            spots.append((i, comps, listing))
        for n, x in listing:
            if x[0] == "d":
                rec(i, comps + [n], x[1])
    for i, l in case["dirs"]:
        rec(i, [], [e for e in l if e[0] == case["name"]])
    added = 0
    for _ in range(how_many * 4):
        if added >= how_many or not spots:
            break
        i, comps, listing = rng.choice(spots)
        j, tcomps, tlisting = rng.choice(spots)
        cands = [(n, x) for n, x in tlisting if not _has_link(x) and n != "__pycache__" and not n.endswith(".pth")
                 and (x[0] == "d" or n.endswith((".py", ".pyi")))]
        if not cands:
            continue
        tn, tx = rng.choice(cands)
        tpath = tcomps + [tn]
        if (i, comps[:len(tpath)]) == (j, tpath):          # the target contains the place of the link: a cycle
            continue
        if tx[0] == "d":
            name = rng.choice(["compat", "alias", "legacy", "zz_link", "a_link"])
        else:
            name = rng.choice(["compat", "alias", "zz_link"]) + (".pyi" if tn.endswith(".pyi") else ".py")
        if any(n == name for n, _ in listing) or (tx[0] == "f" and tn.startswith("__init__")):
            continue
        target = os.path.relpath(os.path.join(f"d{j}", *tpath), os.path.join(f"d{i}", *comps))
        listing.append([name, ["l", target]])
        rng.shuffle(listing)
        added += 1
    return added


def symlink_targeted():
    mk = lambda dirs, search: {"dirs": [[i, l] for i, l in enumerate(dirs)], "search": search, "name": TOP}
    return [
        mk([[["aa", _pkg(["core", _pkg(["a.py", F()], ["deep", _pkg(["x.py", F()])])], ["compat", ["l", "core"]], ["m.py", F()])]]], [0]),
        mk([[["aa", _pkg(["zcore", _pkg(["a.py", F()])], ["alias", ["l", "zcore"]], ["m.py", F()], ["mm.py", ["l", "m.py"]])]]], [0]),
        mk([[["aa", _pkg(["sub", _pkg(["inner", ["l", "../shared"]], ["b.py", F()])], ["shared", _pkg(["s.py", F()])])]]], [0]),
        mk([[["aa", D([["sub", D([["a.py", F()]])]])]], [["aa", D([["sub2", ["l", "../../d0/aa/sub"]], ["n.py", F()]])]]], [0, 1]),
        mk([[["aa", _pkg(["noinit", D([["y.py", F()]])], ["lnk", ["l", "noinit"]], ["data", ["l", "m.py"]], ["m.py", F()])]]], [0]),
    ]


def symlink_stream(ctx, n_cases, tag="lnk"):
    cases = symlink_targeted()
    while len(cases) < n_cases + len(symlink_targeted()):
        c = gen_ns_case(ctx.rng) if ctx.rng.random() < 0.3 else gen_case(ctx.rng, allow_pth=False)
        if add_symlinks(ctx.rng, c, ctx.rng.choice([1, 1, 2])):
            cases.append(c)
    for start in range(0, len(cases), 100):
        scratch = ctx.scratch / f"{tag}{start}"
        reps = evaluate_no_model(cases[start:start + 100], scratch, ctx.rng)
        for rep in reps:
            ctx.case(rep["case"], count_nodes(rep["case"]) >= 4)
            ctx.observe("stream", "symlinks")
            first = rep["perms"][0]
            ctx.observe("symlink_load", first["load"][0] + (":" + first["load"][1] if first["load"][0] == "err" else ""))
            report_direct(ctx, rep, py_gaps(rep["case"]))
        subprocess.run(["rm", "-rf", str(scratch)])


# ---------------------------------------------------------------------------------------------------------------
# Histories inside ONE process: several loaders, different options (allow_inspection, find_stubs_package), the same
# name requested more than once -- every tree against the tree of the same single request in a fresh process
# ---------------------------------------------------------------------------------------------------------------
def gen_process_layout(rng):
    def pkg_listing(depth=1):
        es = [["__init__.py", F()], ["m.py", F()]]
        es.append([rng.choice(["fast", "n"]) + rng.choice([".pyc", ".pyc", EXT_SUFFIX, ".so"]), F()])
        if rng.random() < 0.5:
            es.append(["m.pyi", F()])
        if depth < 2 and rng.random() < 0.7:
            es.append(["sub", D(pkg_listing(depth + 1))])
        if rng.random() < 0.3:
            es.append(["noinit", D([["y.py", F()]])])
        rng.shuffle(es)
        return es
    d0 = [["aa", D(pkg_listing())], ["bb", D([["a.py", F()], ["speed.pyc", F()]])]]
    d1 = [["bb", D([["b.py", F()]])]]
    if rng.random() < 0.85:
        where = rng.choice([d0, d1])
        where.append(["aa-stubs", D([["__init__.pyi", F()], ["extra.pyi", F()]] + ([["m.pyi", F()]] if rng.random() < 0.5 else []))])
    if rng.random() < 0.7:
        rng.choice([d0, d1]).append(["bb-stubs", D([["c.pyi", F()]] + ([["a.pyi", F()]] if rng.random() < 0.5 else []))])
    if rng.random() < 0.5:
        d1.append(["cc", D([["__init__.py", F()], ["k.pyc", F()], ["k2.py", F()]])])
    # a directory that is not searched: a request by the path of a package in it makes the loader search it, first
    d2 = [["ee", D([["__init__.py", F()], ["e.py", F()]])]]
    if rng.random() < 0.6:
        d2.append(["aa", D([["__init__.py", F()], ["other.py", F()]])])
    if rng.random() < 0.4:
        d2.append(["bb", D([["z.py", F()]])])
    return {"dirs": [[0, d0], [1, d1], [2, d2]], "search": [0, 1], "name": "aa"}


def gen_history(rng):
    nload = rng.choice([1, 2, 2, 3])
    loaders = [{"allow_inspection": rng.random() < 0.5} for _ in range(nload)]
    if nload > 1 and all(l["allow_inspection"] for l in loaders):
        loaders[0]["allow_inspection"] = False
    steps = []
    for _ in range(rng.randint(2, 6)):
        st = {"loader": rng.randrange(nload), "name": rng.choice(["aa", "aa", "bb", "bb", "cc", "ee"]), "stubs": rng.random() < 0.4}
        if rng.random() < 0.25:
            # by the path of a top-level directory (searched or not), of a nested directory, of a missing one
            st = {"loader": st["loader"], "name": "", "stubs": False,
                  "path": rng.choice([[0, ["aa"]], [1, ["bb"]], [2, ["ee"]], [2, ["ee"]], [2, ["aa"]], [2, ["bb"]], [0, ["aa", "sub"]], [2, ["nope"]]])}
        steps.append(st)
    return {"loaders": loaders, "steps": steps}


def _run_step(loaders, cache, step, base, search):
    import griffe
    k = step["loader"]
    if k not in cache:
        cache[k] = griffe.GriffeLoader(search_paths=search, allow_inspection=loaders[k]["allow_inspection"])
    try:
        if step.get("path"):
            top = cache[k].load(root_dir(base, step["path"][0]).joinpath(*step["path"][1]))
        else:
            top = cache[k].load(step["name"], try_relative_path=False, find_stubs_package=step["stubs"])
        while top.parent is not None:
            top = top.parent
        return ["ok", tree_of(top, base)]
    except ModuleNotFoundError:
        return ["notfound"]
    except Exception as e:  # noqa: BLE001
        return ["err", type(e).__name__]


def _in_child(fn):
    """run fn() in a forked child (its own process state) and return its JSON-able result"""
    r, w = os.pipe()
    pid = os.fork()
    if pid == 0:
        try:
            os.close(r)
            signal.alarm(60)
            try:
                out = fn()
            except BaseException as e:  # noqa: BLE001
                out = ["child-error", type(e).__name__ + ": " + str(e)[:200]]
            with os.fdopen(w, "w") as fh:
                json.dump(out, fh)
        finally:
            os._exit(0)
    os.close(w)
    with os.fdopen(r) as fh:
        data = fh.read()
    os.waitpid(pid, 0)
    return json.loads(data) if data else ["child-error", "no output"]


def history_worker():
    """Subprocess entry point (python -c): the parent only imports griffe; every history runs in ONE forked child, every
    single request of it again in a child of its own (the 'fresh process')."""
    import logging
    import griffe  # noqa: F401
    logging.getLogger("griffe").setLevel(logging.CRITICAL)
    jobs = json.load(sys.stdin)
    out = []
    for job in jobs:
        base = Path(job["base"])
        search = [str(root_dir(base, i)) for i in job["search"]]
        hist = job["history"]

        def whole():
            cache = {}
            with listing_order(job["order"]):
                return [_run_step(hist["loaders"], cache, st, base, search) for st in hist["steps"]]

        def single(st):
            def run():
                with listing_order(job["order"]):
                    return _run_step(hist["loaders"], {}, st, base, search)
            return run
        out.append({"history": _in_child(whole), "fresh": [_in_child(single(st)) for st in hist["steps"]]})
    json.dump(out, sys.stdout)


def history_requests(layout, h):
    """the history as requests of the model's state machine (Model/C14_finder.v: step): loaders are created at first use"""
    reqs, seen, index = [], set(), []
    for st in h["steps"]:
        if st["loader"] not in seen:
            seen.add(st["loader"])
            reqs.append(["new", st["loader"], layout["search"]])
        index.append(len(reqs))
        reqs.append(["path", st["loader"], st["path"]] if st.get("path") else ["name", st["loader"], st["name"]])
    return reqs, index


def process_history_stream(ctx, n_layouts, tag="proc", model=None):
    from harness.common import framework
    scratch = ctx.scratch / tag
    scratch.mkdir(parents=True, exist_ok=True)
    jobs, meta = [], []
    fixed = [
        # m10-like: the option first, then the plain request, on one loader; m11-like: a static-only loader first, then a default one
        {"loaders": [{"allow_inspection": False}], "steps": [{"loader": 0, "name": "aa", "stubs": True}, {"loader": 0, "name": "aa", "stubs": False},
                                                             {"loader": 0, "name": "bb", "stubs": True}, {"loader": 0, "name": "bb", "stubs": True},
                                                             {"loader": 0, "name": "bb", "stubs": False}]},
        {"loaders": [{"allow_inspection": False}, {"allow_inspection": True}],
         "steps": [{"loader": 0, "name": "bb", "stubs": False}, {"loader": 1, "name": "aa", "stubs": False}, {"loader": 1, "name": "bb", "stubs": False}]},
        {"loaders": [{"allow_inspection": True}, {"allow_inspection": False}],
         "steps": [{"loader": 0, "name": "aa", "stubs": True}, {"loader": 1, "name": "aa", "stubs": False}, {"loader": 0, "name": "aa", "stubs": False}]},
        # by path of a package in a directory that is not searched: that loader searches it first from then on, the other loader does not
        {"loaders": [{"allow_inspection": False}, {"allow_inspection": False}],
         "steps": [{"loader": 0, "name": "ee", "stubs": False}, {"loader": 0, "name": "", "stubs": False, "path": [2, ["ee"]]},
                   {"loader": 0, "name": "ee", "stubs": False}, {"loader": 0, "name": "aa", "stubs": False}, {"loader": 1, "name": "ee", "stubs": False},
                   {"loader": 1, "name": "aa", "stubs": False}, {"loader": 0, "name": "", "stubs": False, "path": [0, ["aa", "sub"]]}]},
    ]
    for k in range(n_layouts):
        layout = gen_process_layout(ctx.rng)
        base = scratch / f"p{k}"
        materialise(layout, base)
        for h in ([fixed[k % len(fixed)]] if k < 3 * len(fixed) else []) + [gen_history(ctx.rng) for _ in range(2)]:
            jobs.append({"base": str(base), "search": layout["search"], "order": order_map(layout, base), "history": h})
            meta.append((layout, h))
    env = {k: v for k, v in os.environ.items()}
    env["PYTHONPATH"] = f"{framework.REPO}/src:{framework.VERIF}"
    env["PYTHONDONTWRITEBYTECODE"] = "1"
    p = subprocess.run([sys.executable, "-c", "from harness.props.c14 import history_worker; history_worker()"], input=json.dumps(jobs),
                       capture_output=True, text=True, timeout=1500, env=env, cwd=str(framework.VERIF))
    if p.returncode != 0:
        ctx.tie_failure("harness", "process-history worker", p.stderr[-800:], None)
        return
    # the model's state machine on the same histories (C14_history_independent: = the stateless reference)
    m_out = [None] * len(meta)
    if model is not None:
        m_out = model([["history", abstract_case(layout), history_requests(layout, h)[0]] for layout, h in meta])
    for (layout, h), res, mo in zip(meta, json.loads(p.stdout), m_out):
        ctx.case({"layout": layout, "history": h}, True)
        ctx.observe("stream", "process-history")
        ctx.observe("history_loaders", len(h["loaders"]))
        got, fresh = res["history"], res["fresh"]
        if not isinstance(got, list) or len(got) != len(h["steps"]) or (got and got[0] == "child-error"):
            ctx.tie_failure("harness", "process-history child", got, layout)
            continue
        index = history_requests(layout, h)[1]
        for pos, (st, a, b) in enumerate(zip(h["steps"], got, fresh)):
            insp = h["loaders"][st["loader"]]["allow_inspection"]
            kind = "path" if st.get("path") else ("stubs" if st["stubs"] else "plain")
            ctx.observe("process_history_step", f"{'inspect' if insp else 'static'}:{kind}:{a[0]}")
            own_paths = True
            if isinstance(mo, list) and len(mo) == 2:
                own_paths = bool(mo[1][index[pos]])
                ma = mo[0][index[pos]]
                # (C) the state machine against the implementation inside the history: static loaders, no stubs package
                if not insp and not st["stubs"] and ma != ["unsupported"]:
                    ctx.count("history_steps_vs_model")
                    if canon_model_load(ma) != a:
                        ctx.tie_failure("correspondence", "state machine step (model) vs GriffeLoader in a history",
                                        {"position": pos, "request": st, "impl": a, "model": canon_model_load(ma), "history": h}, {**layout, "name": st["name"] or "aa"})
            if not own_paths:
                # an earlier request by path made this loader search another directory (by design): the fresh process is not the reference
                ctx.observe("process_history_step", "after-a-path-request-added-a-search-directory")
                continue
            if a != b:
                ctx.property_failure({"case": {**layout, "name": st["name"]}, "check": "process-history", "history": h, "position": pos},
                                     {"request": st, "loader_options": h["loaders"][st["loader"]], "position": pos,
                                      "in_the_history": a, "alone_in_a_fresh_process": b}, finding=None)
    subprocess.run(["rm", "-rf", str(scratch)])


# ---------------------------------------------------------------------------------------------------------------
# Discovery through the load_git entry point: the package of a Git reference, whatever the current directory holds
# ---------------------------------------------------------------------------------------------------------------
def gen_git_project(rng):
    """{relative path: text at the tag}, {relative path: text in the working tree (None = deleted)}, search path, flat?"""
    flat = rng.random() < 0.7
    root = "" if flat else "src/"
    files = {root + "aa/__init__.py": None, root + "aa/m.py": None}
    if rng.random() < 0.3:
        del files[root + "aa/__init__.py"]                      # a namespace package
    if rng.random() < 0.7:
        files[root + "aa/sub/__init__.py"] = None
        files[root + "aa/sub/x.py"] = None
        if rng.random() < 0.4:
            files[root + "aa/sub/deep/__init__.py"] = None
            files[root + "aa/sub/deep/y.py"] = None
    if rng.random() < 0.4:
        files[root + "aa/n.pyi"] = None
    if rng.random() < 0.3:
        files[root + "aa/noinit/z.py"] = None
    if rng.random() < 0.3:
        files[root + "bb.py"] = None
    tag = {f: f"ORIGIN = 'tag:{f}'\n" for f in files}
    work = {}
    for f in files:
        r = rng.random()
        work[f] = None if (r < 0.15 and not f.endswith("__init__.py")) else f"ORIGIN = 'working tree:{f}'\nEXTRA = 1\n"
    work[root + "aa/only_in_working_tree.py"] = "ORIGIN = 'working tree only'\n"
    return tag, work, ("." if flat else "src"), flat


def expected_git_modules(tag, search):
    """{dotted name: text} of what the tagged tree holds below the search path, by the import system's rules for these simple trees"""
    pre = "" if search == "." else search + "/"
    out = {}
    dirs_with_init = {os.path.dirname(f) for f in tag if os.path.basename(f).startswith("__init__.")}
    top_ns = (pre + "aa") not in dirs_with_init
    for f, text in tag.items():
        if not f.startswith(pre + "aa/"):
            continue
        relparts = f[len(pre):].split("/")
        folder = pre + "/".join(relparts[:-1])
        # below a namespace package folders without __init__ are namespace sub-packages; below a regular package they are dropped
        ok, nszone, nsdirs = True, top_ns, []
        for k in range(2, len(relparts)):
            d = pre + "/".join(relparts[:k])
            if d in dirs_with_init:
                nszone = False
            elif nszone:
                nsdirs.append(".".join(relparts[:k]))
            else:
                ok = False
        if not ok:
            continue
        for nd in nsdirs:
            out.setdefault(nd, None)
        stem = relparts[-1].split(".")[0]
        name = ".".join(relparts[:-1] if stem == "__init__" else relparts[:-1] + [stem])
        if name in out and relparts[-1].endswith(".pyi"):
            continue
        out[name] = text
    if top_ns:
        out["aa"] = None
    return out


GIT_WORKER = r"""
import json, os, sys, logging
import griffe
logging.getLogger("griffe").setLevel(logging.CRITICAL)
jobs = json.load(sys.stdin)
out = []
for job in jobs:
    os.chdir(job["cwd"])
    try:
        top = griffe.load_git("aa", ref="v1", repo=job["repo"], search_paths=[job["search"]], allow_inspection=False)
        while top.parent is not None:
            top = top.parent
        mods = {}
        def rec(m):
            try:
                mods[m.path] = None if isinstance(m.filepath, list) else m.source
            except Exception as e:
                mods[m.path] = "unreadable: " + type(e).__name__
            for v in m.members.values():
                if not v.is_alias and v.is_module:
                    rec(v)
        rec(top)
        out.append(["ok", mods])
    except Exception as e:
        out.append(["err", type(e).__name__ + ": " + str(e)[:200]])
json.dump(out, sys.stdout)
"""


def load_git_stream(ctx, n_projects, tag="git"):
    from harness.common import framework
    scratch = ctx.scratch / tag
    (scratch / "tmp").mkdir(parents=True, exist_ok=True)
    (scratch / "elsewhere").mkdir(parents=True, exist_ok=True)
    genv = dict(os.environ, GIT_AUTHOR_NAME="verif", GIT_AUTHOR_EMAIL="verif@example.com", GIT_COMMITTER_NAME="verif",
                GIT_COMMITTER_EMAIL="verif@example.com", GIT_CONFIG_GLOBAL="/dev/null", GIT_CONFIG_SYSTEM="/dev/null", TMPDIR=str(scratch / "tmp"))
    git = lambda repo, *a: subprocess.run(["git", "-C", str(repo), *a], capture_output=True, text=True, env=genv, check=True).stdout
    jobs, meta = [], []
    for k in range(n_projects):
        tagged, work, search, flat = gen_git_project(ctx.rng)
        repo = scratch / f"r{k}"
        repo.mkdir()
        git(repo, "init", "-q")
        for f, text in tagged.items():
            (repo / f).parent.mkdir(parents=True, exist_ok=True)
            (repo / f).write_text(text)
        git(repo, "add", "-A")
        git(repo, "commit", "-q", "-m", "v1")
        git(repo, "tag", "v1")
        for f, text in tagged.items():            # the authority: what the reference holds
            if git(repo, "show", f"v1:{f}") != text:
                ctx.tie_failure("harness", "git show", f, None)
        for f, text in work.items():              # the working tree moves on (uncommitted and committed changes)
            if text is None:
                (repo / f).unlink()
            else:
                (repo / f).parent.mkdir(parents=True, exist_ok=True)
                (repo / f).write_text(text)
        if ctx.rng.random() < 0.5:
            git(repo, "add", "-A")
            git(repo, "commit", "-q", "-m", "later")
        exp = expected_git_modules(tagged, search)
        for cwd_kind, cwd in (("project-root", repo), ("package-parent", repo if flat else repo / "src"), ("elsewhere", scratch / "elsewhere")):
            jobs.append({"cwd": str(cwd), "repo": str(repo), "search": search})
            meta.append(({"tagged": tagged, "working_tree": work, "search": search, "cwd": cwd_kind}, exp))
    env = dict(genv, PYTHONPATH=f"{framework.REPO}/src", PYTHONDONTWRITEBYTECODE="1")
    p = subprocess.run([sys.executable, "-c", GIT_WORKER], input=json.dumps(jobs), capture_output=True, text=True, timeout=1200, env=env)
    if p.returncode != 0:
        ctx.tie_failure("harness", "load_git worker", p.stderr[-800:], None)
        return
    for (desc, exp), res in zip(meta, json.loads(p.stdout)):
        ctx.case(desc, True)
        ctx.observe("stream", "load_git")
        ctx.observe("load_git", f"cwd={desc['cwd']}:{res[0]}")
        norm = lambda d: {k: (v.rstrip("\n") if isinstance(v, str) else v) for k, v in d.items()}     # Module.source joins the stored lines
        if res[0] != "ok" or norm(res[1]) != norm(exp):
            ctx.property_failure({"case": desc, "check": "load-git"},
                                 {"cwd": desc["cwd"], "loaded {module: source}": res[1] if res[0] == "ok" else res,
                                  "the reference holds {module: source}": exp}, finding=None)
    subprocess.run(["rm", "-rf", str(scratch)])


# ---------------------------------------------------------------------------------------------------------------
# The check
# ---------------------------------------------------------------------------------------------------------------
LEVEL_TEXT = ("Coq theorems (22, all closed under the global context) over an executable model of finder.py / loader.py discovery, for all layouts, search-path lists "
              "and listing orders: (1) find_package = CPython's PathFinder/FileFinder precedence on source-form layouts (three exclusions shown necessary), also end to end on "
              "the .pth-extended search paths; find_package is listing-order independent; (2) the .pth extension of the search paths IS site.addsitedir's (modulo the cwd-fallback "
              "line kept by the repair of F6 and a file called exactly '.pth') and is listing-order independent (sorted() = insertion sort, insertions of different names commute); "
              "(3) the loader's fold over ANY depth-sorted submodule list is characterised key by key, for a regular top module AND for a namespace package over several portions "
              "(files: merge of the candidates iff the chain of parents holds; namespace sub-packages: created exactly in the namespace zone, recording the directories passed through); "
              "(4) os.walk's files-first contract is a theorem of the model, and the WHOLE static load (.pth extension, find_package, iter_submodules over one package or over several "
              "namespace portions, the fold) is invariant under every permutation of every directory listing with NO side condition besides unique names per directory (the former "
              "no_clash hypothesis is gone; for namespace sub-packages the recorded directories are compared as a set), the finder stage yielding the same set of entries under every "
              "listing order; and (5) every module loaded below a regular package is the file CPython resolves that "
              "dotted name to, or a stub where CPython has no regular module, on source-form trees, again without no_clash; (6) the repaired iter_submodules over a list of portions "
              "never yields two source files of one name and suffix from different portions, nor anything from inside a folder that another portion provides as a regular package "
              "(the shapes of the former findings F8, F3, F10), for every universe and every list of portions; (7) load by the path of a top-level directory (or of its __init__ file) "
              "of any search directory = load by name (finder._module_name_path / _top_module_name are in the model); (8) static loading is total; (9) history independence: a process with several loaders (search paths, memo of listings, collection of loaded packages per loader -- the fields a census "
              "regenerated from the source finds) answers EVERY history of requests (new loader, by name, by path) like the stateless reference, which only looks at the addressed loader's own search paths and the "
              "requests by path addressed to it; a loader that served only requests by name answers like a fresh process. "
              "Ten defects were repaired in /repo (F1-F5, F7-F10 and F6 for lines relative to the .pth file); one remains known (F6, cwd fallback, pinned by an upstream test), refuted by a "
              "machine-checked witness with a decidable shape predicate. The model is tied to the code by differential runs (Griffe under wrapped os.scandir/os.listdir vs model vs CPython "
              "in a subprocess) on four observables per listing order: search paths + top-level answer, the ORDERED finder.submodules() list, the loaded tree, and loads by path.")
LEVEL_NOTE = ("Static mode only (allow_inspection=False): compiled names are discovered but not loaded; modules whose CPython spec is a compiled file are out of scope. "
              "NOT proved, only checked by the direct Griffe-vs-CPython evaluation on generated layouts: 'walk_packages found => loaded', classification against CPython, and "
              "'loaded => importable' for namespace packages over several portions (the fold over a namespace top is characterised key by key and the finder stage is proved free of the "
              "F8/F3/F10 shapes and listing-order independent, but the link to CPython's resolution over several portions is not made in Coq). Python's str/pathlib operations are re-implemented for the names that occur; the "
              "abstraction layout -> model term and the .pth line classification (absolute / relative to the .pth file / relative to the cwd only / ignored by both) are harness code. "
              "load(Path) is modelled for paths below root directories of the universe; a path that makes _top_module_name insert a non-root directory (a namespace folder above the target) or "
              "that is a single-file top-level module is outside the model (counted). Editable-install .pth import lines, find_stubs_package, zip imports, the `seen` argument of "
              "iter_submodules (public API, no longer used by the loader) are not modelled.")
RULE = ("targeted layouts (witnesses of all eleven findings, every precedence decision, the provider decision top-down, hidden .pth names, relative .pth lines); exhaustive same-name clash "
        "family (subsets of m.py/m.pyi/m.so/m.pyc/m/ with and without __init__, every permutation of the package listing); seeded random layouts over 1-3 search paths + .pth-added paths "
        "(regular/namespace/stub/pkgutil-style/module/compiled top-level forms, nested packages to depth 4, junk, __pycache__, dotted file names, dot-files, directories with dotted names at "
        "every level holding modules and sub-packages, .pth lines absolute / relative to the .pth file / relative to the cwd / comments / missing); seeded namespace-heavy layouts (2-3 portions "
        "with overlapping sub-directories: about half of them have the F8/F3/F10 shapes in the raw scan); pkgutil / pkg_resources-style namespace __init__ files with realistic text (docstring, licence header, coding cookie, imports before the declaration, both quote styles, the import forms, the try/except template; 49 variants); layouts with 2-3 top-level packages sharing folder names in different roles, each checked on its own AND loaded with ONE GriffeLoader in several orders (every tree must be the fresh loader's); histories inside one process (several GriffeLoaders with allow_inspection on/off, find_stubs_package on/off with -stubs distributions present, compiled modules, the same name requested repeatedly), run in a forked child of a worker subprocess, every tree against the tree of the same single request in a fresh forked process; layouts with directory and file symbolic links inside the packages (to siblings, to siblings of parents, across portions; never to an ancestor), Griffe vs CPython's import/walk under all listing orders; small projects committed and tagged in a scratch Git repository whose working tree then changes, loaded with griffe.load_git by name from three current directories (project root, package parent, elsewhere): {module: source} must be what the reference holds. Each layout is run under its own, the sorted, the reversed and random listing orders, "
        "and loaded by up to 10 paths (top-level directories in and outside the search directories, __init__ files, nested directories and files, a missing path). "
        "non-trivial = at least 4 file-system nodes; distinct by canonical layout")
TRUSTED = ["translator harness/translate/c14_tables.py (constants and loop shapes of finder.py / loader.py -> coq/Gen/C14_tables.v; the rest of the model is hand-written and tied by differential runs)",
           "abstraction: the generated layout is both written to disk and passed to the model; listing order is imposed by wrapping os.scandir/os.listdir",
           "pth lines are pre-classified by the harness (absolute existing dir / relative to the .pth file / relative to the cwd only / ignored by both sides)"]
ASSUMPTIONS = ["allow_inspection=False; files are empty (or a pkgutil namespace declaration); byte-code files are valid, extension modules are fake",
               "modules whose CPython spec is a compiled file (or whose import needs a fake binary) are out of scope of the direct comparison",
               "a stub-only package (__init__.pyi without __init__.py) is accepted as the property's stub-only clause; it and everything below it is not compared with CPython (which sees a namespace portion)",
               "compiled file names carry a suffix CPython 3.12 recognises or none at all below namespace portions (an unrecognised tag on a compiled __init__ is outside the generated domain)",
               "pkgutil-style namespaces are compared only when every portion declares the namespace",
               "entries named like modules have the expected type (no directory called x.py, no extension-less file called like the package)",
               "a file called exactly '.pth' is outside the domain (site of CPython 3.12.1 reads it, pathlib gives it no suffix; newer CPythons skip hidden .pth files): generated, counted as scope",
               "the portions of a namespace package are distinct directories; search directories are not nested in one another",
               "the oracle runs python -S without setuptools: pkg_resources.declare_namespace is emulated there by pkgutil.extend_path (a stub module next to the oracle script)",
               "process histories: static, stubs-less requests (by name, by path) are in the Coq model (state machine, C14_history_independent) and compared step by step; find_stubs_package and inspection steps, "
               "and the symlink stream, are direct checks only (implementation vs itself in a fresh process / vs CPython)",
               "pkg-style namespace declarations are generated in seven spellings (__import__('pkgutil'/'pkg_resources') with either quote, from pkgutil import extend_path, "
               "import pkgutil, import pkg_resources); other ways of extending __path__ are outside the generated domain"]

FINDING_KINDS = ("paths", "order-find", "order-tree", "find", "load-raises", "loaded-not-importable", "walked-not-loaded",
                 "classification", "name-vs-path", "find-raises")


def process(ctx, reports, stream):
    for rep in reports:
        case = rep["case"]
        ctx.case(case, count_nodes(case) >= 4)
        ctx.observe("stream", stream)
        for t in case_features(case):
            ctx.observe("shape", t)
        ctx.observe("nodes", min(count_nodes(case) // 5 * 5, 40))
        first = rep["perms"][0]
        ctx.observe("griffe_find", first["find"][2][0] if first["find"][0] == "ok" else "raises")
        ctx.observe("griffe_load", first["load"][0] + (":" + first["load"][1] if first["load"][0] == "err" else ""))
        if first["load"][0] == "ok":
            ctx.observe("modules_loaded", min(len(first["load"][1]), 12))
            for e in first["load"][1]:
                ctx.observe("classification", e[1])
        gaps = rep["m_gaps"] if isinstance(rep["m_gaps"], list) else []
        for g in gaps:
            ctx.observe("gap_shape", g)
        ctx.observe("importability_theorem_domain", {1: "inside", 0: "outside"}.get(first.get("m_domain"), "n/a"))
        # (C) model vs implementation, every listing order
        for p in rep["perms"]:
            ctx.count("impl_runs")
            if p["find"] != p["m_find"]:
                ctx.tie_failure("correspondence", "find_package/.pth (model) vs ModuleFinder.find_spec", {"order": p["label"], "impl": p["find"], "model": p["m_find"]}, p["case"])
            if p["load"] != p["m_load"]:
                ctx.tie_failure("correspondence", "load (model) vs GriffeLoader.load", {"order": p["label"], "impl": p["load"], "model": p["m_load"]}, p["case"])
            # the finder stage: the ORDERED list of (name parts, file) that finder.submodules() hands to the loader
            if p.get("subs") is not None and p.get("m_subs") is not None:
                ctx.count("finder_stage_compared")
                ctx.observe("submodule_entries", min(len(p["subs"]), 12))
                if p["subs"] != p["m_subs"]:
                    ctx.tie_failure("correspondence", "iter_submodules/submodules (model) vs ModuleFinder.submodules",
                                    {"order": p["label"], "impl": p["subs"], "model": p["m_subs"]}, p["case"])
            # C14_namespace_first_module_wins / _regular_subpackage_shadows, evaluated: never on the yielded list;
            # how often the raw scan of the portions has these shapes tells whether the generator reaches them
            ns = p.get("m_nsok")
            if isinstance(ns, list) and len(ns) == 4:
                ctx.observe("ns_yielded_shapes", f"dup={ns[0]} shadow={ns[1]}")
                ctx.observe("ns_raw_scan_shapes", f"dup={ns[2]} shadow={ns[3]}")
                if ns[0] or ns[1]:
                    ctx.tie_failure("correspondence", "model contradicts C14_namespace_* theorems", {"order": p["label"], "nsok": ns}, p["case"])
        # (C) load by path: model (module_name_path / top_module_name / get_member) vs GriffeLoader.load(Path)
        for bp in rep.get("by_paths", []):
            m = bp.get("model")
            if m is None:
                continue
            if m == ["unsupported"]:
                ctx.observe("by_path", "outside-model")
                continue
            mm = canon_model_load(m)
            eff0 = rep["perms"][0]["find"][1] if rep["perms"][0]["find"][0] == "ok" else []
            ctx.observe("by_path_directory", "search-directory" if bp["target"][0] in eff0 else "not-searched(inserted-first)")
            ctx.observe("by_path", mm[0] + (":" + mm[1] if mm[0] == "err" else "") + ("" if len(bp["target"][1]) == 1 else ":nested"))
            if bp["impl"] != mm:
                ctx.tie_failure("correspondence", "load_by_path (model) vs GriffeLoader.load(Path)", {"target": bp["target"], "impl": bp["impl"], "model": mm}, case)
        # (O) model of CPython vs CPython
        o = rep["oracle"]
        base = rep["base"]
        if "crash" in o:
            ctx.tie_failure("harness", "oracle", o["crash"], case)
            continue
        opaths = [rel(base, x)[0] for x in o["paths"]]
        if rep["m_paths"][1] != opaths:
            ctx.tie_failure("oracle", "py_paths (model) vs site.addsitedir", {"model": rep["m_paths"][1], "cpython": opaths}, case)
        ofind = canon_oracle_spec(base, o["find"])
        if canon_model_spec(rep["m_pyfind"]) != ofind:
            ctx.tie_failure("oracle", "py_find (model) vs importlib.util.find_spec", {"model": rep["m_pyfind"], "cpython": ofind}, case)
        ow = [[w[0].split("."), 1 if w[1] else 0] for w in o["walk"]]
        if rep["m_pywalk"] != ow:
            ctx.tie_failure("oracle", "py_walk (model) vs pkgutil.walk_packages", {"model": rep["m_pywalk"], "cpython": ow}, case)
        for q, v in o["queries"].items():
            ctx.observe("cpython_spec", v[0])
            if canon_model_spec(rep["m_pyimport"][q]) != canon_oracle_spec(base, v):
                ctx.tie_failure("oracle", "py_import (model) vs importlib.util.find_spec", {"name": q, "model": rep["m_pyimport"][q], "cpython": v}, case)
        # direct: Griffe vs CPython, Griffe vs Griffe
        report_direct(ctx, rep, gaps)


def report_direct(ctx, rep, gaps):
    fails, counts = direct_checks(rep)
    for k, v in counts.items():
        ctx.observe("direct", k, v)
    first = rep["perms"][0]
    for kind, detail in fails:
        loaded_cls = None
        if kind == "loaded-not-importable":
            p = next((q for q in rep["perms"] if q["label"] == detail["order"]), first)
            if p["load"][0] == "ok":
                loaded_cls = {dotted(e[0]): e[1] for e in p["load"][1]}
        pg = gaps
        pp = None
        if isinstance(detail, dict) and "order" in detail:
            pp = next((q for q in rep["perms"] if q["label"] == detail["order"]), None)
            if pp is not None:
                pg = pp["m_gaps"] if isinstance(pp.get("m_gaps"), list) else py_gaps(pp["case"])
        fid = classify_failure(kind, detail, pg, loaded_cls) if kind in FINDING_KINDS else None
        # inside the domain of C14_loaded_importable_modulo_known nothing may be attributed to a finding
        if kind == "loaded-not-importable" and pp is not None and pp.get("m_domain") == 1 and key_ok(detail["module"]):
            ctx.observe("direct", "failure-inside-theorem-domain")
            fid = None
        if kind in ("oracle-crash", "harness"):
            ctx.tie_failure("harness", kind, detail, rep["case"])
        elif fid == "scope":
            ctx.observe("direct", "scope:" + kind)
        else:
            ctx.observe("direct_failure", f"{kind}:{fid}")
            ctx.property_failure({"case": rep["case"], "check": kind}, detail, finding=fid)


def key_ok(dotted_name):
    return all(c not in ("", "__init__", "__pycache__") for c in dotted_name.split(".")[1:])


def check_witnesses(ctx, model):
    cases = [WITNESSES[f][0] for f in WITNESSES]
    reps = evaluate(cases, ctx.scratch / "wit", model, ctx.rng, n_random=0, tag="w")
    for (fid, (case, kind)), rep in zip(WITNESSES.items(), reps):
        gaps = rep["m_gaps"] if isinstance(rep["m_gaps"], list) else py_gaps(case)
        fails, _ = direct_checks(rep)
        hit = False
        for k, d in fails:
            cls = None
            if k == "loaded-not-importable":
                p = next((q for q in rep["perms"] if q["label"] == d["order"]), rep["perms"][0])
                cls = {dotted(e[0]): e[1] for e in p["load"][1]} if p["load"][0] == "ok" else None
            if k == kind and classify_failure(k, d, gaps, cls) == fid:
                hit = True
        ctx.witness(fid, hit)
    return reps


def null_model(values):
    """Stand-in when the extracted model is unavailable: implementation vs CPython only."""
    out = []
    for v in values:
        out.append({"find": None, "load": None, "paths": [None, None], "pyfind": None, "pywalk": [], "gaps": None, "pyimport": None, "subs": None, "nsok": None, "domain": None, "bypath": None, "history": None}[v[0]])
    return out


def explore(ctx):
    import logging
    logging.getLogger("griffe").setLevel(logging.CRITICAL)
    model = ctx.model
    reps = check_witnesses(ctx, model)
    process(ctx, reps, "witness")
    process(ctx, evaluate(targeted_cases(), ctx.scratch / "tgt", model, ctx.rng, n_random=ctx.budget(1, 4), tag="t"), "targeted")
    fam = clash_family(ctx.budget(2, 3))
    process(ctx, evaluate(fam, ctx.scratch / "fam", model, ctx.rng, tag="f", perms_fn=all_orders_of_top), "clash-family-all-orders")
    if not ctx.quick:
        ctx.exhaustive = True
    n_gen, n_ns = ctx.budget(260, 3000), ctx.budget(160, 2000)
    chunk = 250
    k = 0
    for start in range(0, n_gen, chunk):
        cases = [gen_case(ctx.rng) for _ in range(min(chunk, n_gen - start))]
        process(ctx, evaluate(cases, ctx.scratch / f"gen{k}", model, ctx.rng, n_random=ctx.budget(1, 2), tag="g"), "random")
        subprocess.run(["rm", "-rf", str(ctx.scratch / f"gen{k}")])
        k += 1
    for start in range(0, n_ns, chunk):
        cases = [gen_ns_case(ctx.rng) for _ in range(min(chunk, n_ns - start))]
        process(ctx, evaluate(cases, ctx.scratch / f"ns{k}", model, ctx.rng, n_random=ctx.budget(1, 2), tag="n"), "random-namespace")
        subprocess.run(["rm", "-rf", str(ctx.scratch / f"ns{k}")])
        k += 1
    history_stream(ctx, ctx.budget(40, 400), model, "hist")
    symlink_stream(ctx, ctx.budget(60, 600))
    process_history_stream(ctx, ctx.budget(24, 240), model=model)
    load_git_stream(ctx, ctx.budget(10, 80))
    if not ctx.quick:
        sample = []
        for c in targeted_cases()[:20]:
            a = abstract_case(c)
            sample += [["load", 0, a], ["find", a], ["pywalk", a], ["gaps", a]]
        ctx.cross_check_extraction(sample, n=40)


def search(ctx):
    """A tie broke: look for a failing input with implementation vs CPython only (no model)."""
    import logging
    logging.getLogger("griffe").setLevel(logging.CRITICAL)
    ctx.scratch.mkdir(parents=True, exist_ok=True)
    batches = [targeted_cases(), clash_family(2)]
    for _ in range(4):
        batches.append([gen_case(ctx.rng) for _ in range(150)] + [gen_ns_case(ctx.rng) for _ in range(100)])
    history_stream(ctx, 60, None, "shist")
    if ctx.prop_failures:
        return
    symlink_stream(ctx, 80, "slnk")
    if ctx.prop_failures:
        return
    process_history_stream(ctx, 24, "sproc")
    if ctx.prop_failures:
        return
    load_git_stream(ctx, 12, "sgit")
    if ctx.prop_failures:
        return
    for k, cases in enumerate(batches):
        reps = evaluate_no_model(cases, ctx.scratch / f"search{k}", ctx.rng)
        for rep in reps:
            ctx.evaluations += 1
            report_direct(ctx, rep, py_gaps(rep["case"]))
        subprocess.run(["rm", "-rf", str(ctx.scratch / f"search{k}")])
        if ctx.prop_failures:
            return


def evaluate_no_model(cases, scratch, rng):
    def fake(values):
        out = []
        for v in values:
            if v[0] == "pyimport":
                out.append([None] * len(v[2]))
            else:
                out.append({"find": None, "load": ["none"], "paths": [None, None], "pyfind": None, "pywalk": [], "gaps": None, "domain": None, "subs": None, "nsok": None, "bypath": None}[v[0]])
        return out
    return evaluate(cases, scratch, fake, rng, n_random=1, tag="s")


def replay(ctx, data):
    import logging
    logging.getLogger("griffe").setLevel(logging.CRITICAL)
    fi = data.get("failing_input") or {}
    case = fi.get("case") if isinstance(fi, dict) and "case" in fi else (data.get("broken_ties") or [{}])[0].get("case")
    if not case or "dirs" not in case:
        print("replay names no input:", data.get("no_longer_checks"))
        return 0
    ctx.scratch.mkdir(parents=True, exist_ok=True)
    model = ctx.model if ctx.driver is not None else None
    reps = evaluate([case], ctx.scratch / "replay", model, ctx.rng) if model else evaluate_no_model([case], ctx.scratch / "replay", ctx.rng)
    rep = reps[0]
    print("layout :", json.dumps(case))
    for p in rep["perms"]:
        print(f"griffe[{p['label']}] find:", json.dumps(p["find"]))
        print(f"griffe[{p['label']}] load:", json.dumps(p["load"]))
        if model:
            print(f"model [{p['label']}] load:", json.dumps(p["m_load"]))
    print("cpython:", json.dumps({k: rep["oracle"].get(k) for k in ("paths", "find", "walk", "queries")}))
    print("gaps   :", rep["m_gaps"] if model else py_gaps(case))
    if isinstance(fi, dict) and fi.get("history"):
        from harness.common import framework
        h = fi["history"]
        job = [{"base": str(rep["base"]), "search": case["search"], "order": order_map(case, rep["base"]), "history": h}]
        env = dict(os.environ, PYTHONPATH=f"{framework.REPO}/src:{framework.VERIF}", PYTHONDONTWRITEBYTECODE="1")
        pr = subprocess.run([sys.executable, "-c", "from harness.props.c14 import history_worker; history_worker()"], input=json.dumps(job),
                            capture_output=True, text=True, timeout=300, env=env, cwd=str(framework.VERIF))
        print("history in one process:", json.dumps(h))
        if pr.returncode == 0:
            res = json.loads(pr.stdout)[0]
            for pos, (st, a, b) in enumerate(zip(h["steps"], res["history"], res["fresh"])):
                print(f"  step {pos} {st} loader options {h['loaders'][st['loader']]}: {'same as alone in a fresh process' if a == b else 'DIFFERS'}")
                if a != b:
                    print("    in the history    :", json.dumps(a)[:1500])
                    print("    alone, fresh proc :", json.dumps(b)[:1500])
        else:
            print("worker failed:", pr.stderr[-500:])
    if isinstance(fi, dict) and fi.get("loaded_in_order"):
        names = fi["loaded_in_order"]
        print("one loader, packages loaded in the order", names)
        for nm, tree in zip(names, impl_history(case, rep["base"], names)):
            fresh = impl_load({**case, "name": nm}, rep["base"], order_map({**case, "name": nm}, rep["base"]))
            print(f"  {nm}: {'same as a fresh loader' if tree == fresh else 'DIFFERS from a fresh loader'}")
            if tree != fresh:
                print("    one loader  :", json.dumps(tree)[:1500])
                print("    fresh loader:", json.dumps(fresh)[:1500])
    fails, _ = direct_checks(rep)
    for k, d in fails:
        print("FAIL", k, json.dumps(d)[:600])
    subprocess.run(["rm", "-rf", str(ctx.scratch)])
    return 0
