"""C18 — Synthesised dataclass constructors equal the ones CPython generates.

(T) harness/translate/c18_flags.py: the shape of the merging code (current_mode), the keyword-only / default / reorder rules, the
    skeleton (_post_load order, built-in extension, on_package_loaded, class branch of _apply_recursively) -> coq/Gen/C18_flags.v
(C) model gm_init_member / g_label / gm_presented (in the translated shape) and the state machine `session`
        vs  Griffe (built-in dataclasses extension, as the loader runs it) on generated class hierarchies written as real source
            files under ctx.scratch: members['__init__'], labels, Class.parameters, after one load, after several loads through
            one extensions object, after several packages through one loader
(O) model py_init_member / py_is_dataclass / py_presented / "module raises"   vs  the same source executed by CPython
        (cls.__dict__['__init__'], inspect.signature(cls.__init__), inspect.signature(cls), dataclasses.is_dataclass)
direct: Griffe's __init__ member vs CPython's, Class.parameters of classes that inherit their constructor vs inspect.signature(cls),
        label vs is_dataclass, hand-written __init__ untouched, non-dataclass classes get none — outside the known-gap predicates
        of the shape as evaluated by the extracted model (F10: layout predicate in this module, confirmed by the model on the masked table).
"""
from __future__ import annotations

import dataclasses
import inspect
import itertools
import signal
import sys

ID = "C18"
LEVEL_TEXT = ("Theorems over all class tables (any number of classes, any bodies, any MRO lists), for each of the three shapes the merging code of "
              "extensions/dataclasses.py can have (the shape of the tree under test is read off its source on every run): the __init__ Griffe synthesises for a "
              "decorated class without a hand-written __init__ has exactly the parameters (names, order, kind, required-ness) of the one CPython's dataclasses "
              "module generates, modulo the decidable known-gap predicates that remain in that shape (FlatFilterFirst = before the repairs: F2 F3 F4 F6 F7; "
              "FlatFilterLast = F3 repaired: F2 F4 F6 F7; Accumulated = F3 and F6 repaired, the tree since 51129ce / 08abe96: F2 F4 F7), each refuted by a computed witness; in the Accumulated shape "
              "names, order and kinds are CPython's for every hierarchy with no hypothesis on field forms or overrides (F2 only changes required-ness); for "
              "single-inheritance tables of any depth F6 is proved impossible; the constructor PRESENTED for a class (Class.parameters, the only one a class inheriting "
              "its __init__ has) is provided by the same class as in CPython and equal when the providers are gap-free; the extension as a state machine (memo of "
              "_dataclass_parameters, InitVar members deleted after use, member-order walk, per-event set of seen paths) leaves on every class, after ANY history of "
              "on_package_loaded events through one extension object, exactly the stateless result - and does not with the memo dropped or the seen set kept (computed "
              "counterexamples); for loads in ANY order (the table changes between events) each class carries the stateless result on the table of its event, and "
              "Class.parameters read after all loads is the stateless presented constructor of the final table exactly when the members of the lookup list are the final ones (decidable, evaluated by the model); "
              "finding F12 has an exact predicate in the layout model (the base name resolves to the class itself) with a for-all-layouts sufficient condition; a hand-written __init__ is kept by both; an undecorated class gets none; the 'dataclass' label equals dataclasses.is_dataclass for every class. "
              "What the extension can see when the event fires is modelled too (module scopes after the visit and after expand_wildcards): for all layouts, expand_wildcards never changes a "
              "binding made on a later line than every star import, or hidden by the __all__ of the star-imported modules, so @dataclass stays recognised there (the complement is finding F10, computed); "
              "fired before expand_wildcards the event would not see star-imported bases (computed). "
              "The models are tied to the code by a translator (merge shape, keyword-only rule, default rule, reorder groups, MRO walk direction, _post_load order, "
              "built-in extension, on_package_loaded, class branch of _apply_recursively) and by differential runs on generated hierarchies loaded from files "
              "(single loads, version histories through one extensions object, package chains through one loader); the CPython model by real execution of the same source.")
LEVEL_NOTE = ("Trusted: Coq kernel, extraction, the renderer structure->source text in this module, CPython 3.12 as authority. The MRO of each class "
              "is an input (C07's subject): the harness feeds CPython's and checks Griffe's Class.mro() equals it; the Accumulated shape needs the MRO lists to be "
              "well formed (wf_mro: earlier classes, closed under the MRO of members), checked on every case. The recursion of _dataclass_fields is modelled with explicit fuel; "
              "C18_accumulated_fuel_suffices shows the out-of-fuel value is never observed on well-formed tables. Default *values* and annotation "
              "text are not compared (the property asks for names, order, kinds, required-ness). Class bodies bind each name at most once (plus the "
              "annotated-name-then-property form); undecorated classes contain no field() calls; field(default=..., default_factory=...) together "
              "is not generated. In the state machine the memo is warmed for the classes of the reversed MRO and the class itself; the real Accumulated code also memoises classes "
              "reachable outside that list when the MRO lists are not closed (never for real MROs), with the same values. Expression resolution of `dataclass`/`field`/`KW_ONLY`/`InitVar` "
              "spellings is abstracted: the layout model (Model/C18_layout.v) has one name for the helper imports, no expand_exports, no C3 - it answers `decorator recognised / base resolved` per class and is compared "
              "with a recorder extension that observes exactly that at on_package_loaded; the table-level model takes the MRO over all bases. Finding C18-F10 (star import re-binding `dataclass`) is classified by a layout "
              "predicate in the harness that is compared with the layout model on every case, and accepted only when the table-level "
              "model applied to the table with those decorators dropped reproduces everything Griffe presents. Loading a package before the package its bases come from is not generated "
              "(the bases are unresolvable then; not a defect). The repairs of F3 and F6 have landed (the translator finds the Accumulated shape); the theorems for the two older shapes "
              "stay so that a tree that goes back to them is still described. The helper names may reach a module by any one-hop spelling (direct, module, module alias, `as` alias: all recognised), "
              "through a re-exporting module of the package or a star import (finding F10 for dataclass / field / KW_ONLY; ClassVar stays recognised, by its last name - translated from Expr.is_classvar); "
              "__post_init__ bodies and imports inside class bodies are rendered (no model counterpart needed: neither is a field for either side; the translated flag skips_alias_members is proved true, "
              "a load that raises is a violation again since the repair of F11).")
MODEL = ("Model.C18_main", "run_C18")
MODEL_TARGETS = ["Model/C18_main.vo"]
COQ_TARGETS = ["Proofs/C18_dataclass.vo", "Proofs/C18_modes.vo", "Proofs/C18_machine.vo", "Proofs/C18_presented.vo", "Proofs/C18_top.vo", "Proofs/C18_order.vo", "Proofs/C18_layout.vo", "Proofs/C18_wrongorder.vo"]
RULE = ("systematic: every (parent decorator, child decorator) pair over {undecorated} + {init in (absent,True,False)} x {kw_only in (absent,True,False)} "
        "x fixed body pairs; every single field form (5 annotation kinds x value none/plain/each field(...) argument combination) under each kw-only "
        "context; seeded random diamonds A;B(A);C(A);D(B,C)|D(C,B)[;E(D)] over three names with decorated / undecorated / init=False joins and hand-written __init__ in a branch "
        "(classes that INHERIT their constructor, provider not the first base); seeded random hierarchies of 1-4 classes (thorough: up to 5), depth <=3-4, 0-2 bases, bodies of 0-5 statements over a pool of 6 "
        "names so that overrides collide, optional hand-written __init__ (parameter named after the class), one-module (53%), importable two-module package (35%; bases reach the derived module by from-import, "
        "same-package star import with/without __all__, or re-export through __init__) or cross-package layout (12% + a dedicated stream with 30% InitVar fields: 2-3 packages a<-b<-c loaded in dependency order "
        "by ONE GriffeLoader, bases by from-import / re-export / star import); history stream: 2-3 versions of one package (same package and class names) loaded through ONE shared "
        "griffe.load_extensions() container, each version compared with CPython and the whole history with the model's state machine; `from __future__ import annotations` (9%), "
        "every helper name (dataclass, field, KW_ONLY, InitVar, ClassVar) spelled per site bare / through the module / a module alias / an `as` alias; in 25 % of the package layouts some of them "
        "reach the modules through the package's _compat module (explicit re-export import or star import); ClassVar from `from typing import *` (8 %); 15 % of the decorated classes have a "
        "__post_init__ assigning declared fields (any form) and new attributes; un-annotated class attributes are sometimes bound by an import inside the class body. Every case also runs the state machine with the walk order of its layout (modules in random order). "
        "CPython-rejected modules are counted and compared with the model's rejection. non-trivial = at least one decorated class with "
        "at least one annotated statement; distinct by rendered source")
TRUSTED = ["renderer: harness turns the generated class table into source text; the same table is the model input (abstraction = generator structure)"]
ASSUMPTIONS = ["Class.mro() equals CPython's __mro__ on the generated hierarchies (checked on every case; C07's property)",
               "the MRO lists are well formed (wf_mro; checked on every case) - needed by the Accumulated shape only",
               "one on_package_loaded event never meets the same canonical path twice (a package is a tree)",
               "a class body binds a name at most once (except `n: int` followed by `@property def n`)",
               "undecorated classes do not call field(); field() never gets both default and default_factory"]



def translate(ctx):
    from harness.translate import c18_flags
    c18_flags.translate(ctx)


def gen_flag(name):
    """a boolean definition of Gen/C18_flags.v as the translator last wrote it"""
    import re
    from harness.common.framework import VERIF
    m = re.search(rf"Definition {name} : bool := (\w+)\.", (VERIF / "coq/Gen/C18_flags.v").read_text())
    return bool(m) and m.group(1) == "true"


def body_imports(table):
    """decorated classes with a name bound by an import inside the class body (render_class: an un-annotated plain attribute at a
    position with (style + k) % 9 == 4)"""
    return [i for i, c in enumerate(table) if c["dec"] is not None
            and any(s[0] == "attr" and s[2] == "none" and s[3][0] == "plain" and (c.get("style", 0) + k) % 9 == 4 for k, s in enumerate(c["body"]))]


def current_mode():
    """the shape of the merging code as the translator last wrote it (Gen/C18_flags.v)"""
    import re
    from harness.common.framework import VERIF
    m = re.search(r"Definition current_mode : mode := (\w+)\.", (VERIF / "coq/Gen/C18_flags.v").read_text())
    return m.group(1) if m else "FlatFilterFirst"


# findings that are no defects of the tree under test once the merging code has the repaired shape
REPAIRED_BY_MODE = {"FlatFilterFirst": set(), "FlatFilterLast": {"C18-F3"}, "Accumulated": {"C18-F3", "C18-F6"}}

NAMES = 6
FINDINGS = ["C18-F2", "C18-F3", "C18-F4", "C18-F6", "C18-F7"]     # order of the model's `gaps` list: [G2; G3; G4; G6; G7]
GK = {"positional or keyword": "PK", "keyword-only": "KO"}
IK = {inspect.Parameter.POSITIONAL_OR_KEYWORD: "PK", inspect.Parameter.KEYWORD_ONLY: "KO"}


# ---------------------------------------------------------------- structure -> source text
def fname(n):
    return f"f{n}"


def r_bool(b):
    return "True" if b else "False"


HELPERS = ["dataclass", "field", "KW_ONLY", "InitVar", "ClassVar"]      # the layout model's helper names 0..4
ALIAS = {"dataclass": "dcls", "field": "fld", "KW_ONLY": "KWO", "InitVar": "IVar", "ClassVar": "CV"}


def sp(name, style, via=()):
    """How a helper name is spelled at one site: bare (direct import, or the only binding when the name reaches the module through
    the package's _compat module / a star import), through the module, through a module alias, or through an `as` alias."""
    if name in via:
        return name
    mod, al = ("typing", "t") if name == "ClassVar" else ("dataclasses", "dc")
    return [name, f"{mod}.{name}", f"{al}.{name}", ALIAS[name], name][style % 5]


def render_value(v, uid, style, via=()):
    if v[0] == "none":
        return ""
    if v[0] == "plain":
        return f" = {uid}"
    _, init, kw, dflt, fac, other = v
    args = []
    if dflt:
        args.append(f"default={uid}")
    if fac:
        args.append("default_factory=list")
    if init is not None:
        args.append(f"init={r_bool(init)}")
    if kw is not None:
        args.append(f"kw_only={r_bool(kw)}")
    if other:
        args.append("repr=False")
    if style % 2:
        args.reverse()
    return f" = {sp('field', style // 2, via)}({', '.join(args)})"


def render_class(i, c, ind="    ", via=(), names=None):
    """c = {dec, body, hw, bases, style[, post]}; returns (lines, init_line_offset or None).  via: helper names that must be spelled bare."""
    lines = []
    style = c.get("style", 0)
    if c["dec"] is not None:
        init, kw = c["dec"]
        args = []
        if init is not None:
            args.append(f"init={r_bool(init)}")
        if kw is not None:
            args.append(f"kw_only={r_bool(kw)}")
        if style % 5 == 2:
            args.append("eq=False")
        if style % 2:
            args.reverse()
        dn = sp("dataclass", style // 3, via)
        if args or style % 7 == 3:
            lines.append(f"@{dn}({', '.join(args)})")
        else:
            lines.append(f"@{dn}")
    nm = (lambda j: names[j]) if names else (lambda j: f"K{j}")      # names: a class may be given the name of another (re-binding shapes)
    bases = ", ".join(base_list(c, nm))
    lines.append(f"class {nm(i)}({bases}):" if bases else f"class {nm(i)}:")
    body = []
    for k, s in enumerate(c["body"]):
        uid = 1000 + 100 * i + k
        if s[0] == "attr":
            _, n, a, v = s
            ann = {"none": "", "plain": ": int", "classvar": f": {sp('ClassVar', style + k, via)}[int]",
                   "initvar": f": {sp('InitVar', style // 7 + k, via)}[int]",
                   "kwonly": f": {sp('KW_ONLY', style // 11, via)}"}[a]
            if a == "none" and v[0] == "plain" and (style + k) % 9 == 4:
                body.append(f"from os import path as {fname(n)}")       # a name bound by an import inside the class body: a class attribute like any other
            else:
                body.append(f"{fname(n)}{ann}{render_value(v, uid, style + k, via)}")
        elif s[0] == "def":
            _, n, prop = s
            if prop:
                body.append("@property")
                body.append(f"def {fname(n)}(self) -> int: return {uid}")
            else:
                body.append(f"def {fname(n)}(self): return {uid}")
        elif s[0] == "annprop":
            n = s[1]
            body.append(f"{fname(n)}: int")
            body.append("@property")
            body.append(f"def {fname(n)}(self) -> int: return {uid}")
    if c.get("post"):
        # assignments in __post_init__ are no fields and change no field (neither for CPython nor for the visitor)
        body.append("def __post_init__(self, *initvars):")
        for n, annotated in c["post"]:
            body.append(f"    self.{fname(n)}{': int' if annotated else ''} = {2000 + n}")
    init_off = None
    if c["hw"] is not None:
        init_off = len(lines) + len(body)
        body.append(f"def __init__(self, q{i}):")       # one distinguishable signature per class (presented-constructor checks)
        if c["hw"]:
            for n in c["hw"]:
                body.append(f"    self.{fname(n)}: int = 0")
            body.append(f"    self.plain_instance_attribute = q{i}")
        else:
            body.append("    pass")
    if not body:
        body.append("pass")
    return lines + [ind + b for b in body], init_off


def typing_star(table):
    """table[0]['style'] % 13 == 5: ClassVar comes from `from typing import *` (never expanded: typing is not loaded)"""
    return bool(table) and table[0].get("style", 0) % 13 == 5


def header(table, via=(), compat=None, how="from"):
    """Import lines of a generated module.  Every one-hop spelling is imported (direct, module, module alias, `as` alias) so that
    each site can pick one.  via: helper names that reach this module through `compat` (the package's _compat module) instead:
    they get no direct binding here; how = "from" (explicit re-export import) or "star".
    table[0]['style'] % 11 == 4: the module uses `from __future__ import annotations` (CPython then sees string annotations)."""
    dc_names = [n for n in HELPERS[:4] if n not in via]
    lines = []
    if table and table[0].get("style", 0) % 11 == 4:
        lines.append("from __future__ import annotations")
    if dc_names:
        lines.append("from dataclasses import " + ", ".join(dc_names))
    lines.append("import dataclasses")
    lines.append("import dataclasses as dc")
    if dc_names:
        lines.append("from dataclasses import " + ", ".join(f"{n} as {ALIAS[n]}" for n in dc_names))
    if "ClassVar" not in via:
        lines.append("from typing import *" if typing_star(table) else "from typing import ClassVar")
        lines.append("import typing")
        lines.append("import typing as t")
        lines.append("from typing import ClassVar as CV")
    if via:
        lines.append(f"from {compat} import " + (", ".join(n for n in HELPERS if n in via) if how == "from" else "*"))
    if any(c.get("xb") for c in table):
        lines += XIMPORTS
    return lines


def compat_source(via):
    dc_names = [n for n in HELPERS[:4] if n in via]
    return (("from dataclasses import " + ", ".join(dc_names) + "\n") if dc_names else "") + ("from typing import ClassVar\n" if "ClassVar" in via else "")


def via_parts(split):
    """(helper names routed through the package's _compat module, "from" | "star") of a package layout"""
    v = split.get("via") if isinstance(split, dict) else None
    return (tuple(v["names"]), v["how"]) if v else ((), "from")


def spell_via(table, via):
    """names that must be spelled bare at every site: those routed through _compat, and ClassVar when it comes from `from typing import *`"""
    return tuple(via) + (("ClassVar",) if typing_star(table) and "ClassVar" not in via else ())


def render(table, split=None):
    """Single-module source, plus (optionally) a two-module layout {modname: source} for Griffe.
    Returns (single_source, {class index: line of hand-written def __init__ in single source})."""
    lines = header(table)
    hw_line = {}
    for i, c in enumerate(table):
        lines.append("")
        cl, off = render_class(i, c, via=spell_via(table, ()))
        if off is not None:
            hw_line[i] = len(lines) + off + 1
        lines.extend(cl)
    return "\n".join(lines) + "\n", hw_line


def split_parts(split):
    """split is None, a list of module names per class (plain from-imports), or {"where": [...], "imp": style}."""
    if split is None:
        return None, "from"
    if isinstance(split, dict):
        return split["where"], split.get("imp", "from")
    return split, "from"


def render_split(table, where, pkg, imp="from", via=(), how="from"):
    """where[i] in ('ma','mz'): Griffe sees a package with two modules whose classes inherit across the module boundary.
    imp: how a base class defined in the other module reaches the module that uses it:
      from      explicit `from pkg.other import K0` / `from .other import K0`
      wild      `from pkg.other import *` (same-package wildcard import) placed before the stdlib imports
      wild_all  the star import after the stdlib imports, the defining module lists its classes in __all__
      wild_shadow  the star import after the stdlib imports, no __all__: the star re-binds dataclass/field/... (finding C18-F10)
      reexport  `from pkg import K0`, the package __init__ re-exporting with wildcard imports of both modules
      reexport_from  the same with explicit from-imports in __init__
    via / how: helper names that reach both modules through the package's `_compat` module (explicit import or star import).
    Returns ({module: source} including "__init__", {class index: line of the hand-written def __init__})."""
    out = {}
    hw_line = {}
    init_lines = []
    for m in (("ma", "mz") if not where or where[0] == "ma" else ("mz", "ma")):
        lines = header(table, via, f"{pkg}._compat", how)
        need = sorted({b for i, c in enumerate(table) if where[i] == m for b in c["bases"] if where[b] != m})
        other = "mz" if m == "ma" else "ma"
        mine = [i for i in range(len(table)) if where[i] == m]
        if imp in ("wild", "wild_all", "wild_shadow"):
            if need:
                star = f"from {pkg}.{other} import *" if len(need) % 2 else f"from .{other} import *"
                if imp == "wild":
                    # before the stdlib imports: the later `from dataclasses import dataclass, ...` re-binds the helper names
                    lines.insert(1 if lines[0].startswith("from __future__") else 0, star)
                else:
                    # isort order (stdlib first).  Without __all__ in the other module ("wild_shadow") the star import re-binds
                    # `dataclass`, `field`, ... to aliases of the sibling's imports: finding C18-F10
                    lines.append(star)
        elif imp in ("reexport", "reexport_from"):
            for b in need:
                lines.append(f"from {pkg} import K{b}")
        else:
            for b in need:
                lines.append(f"from {pkg}.{other} import K{b}" if b % 2 else f"from .{other} import K{b}")
        if imp == "wild_all":
            lines.append("__all__ = [" + ", ".join(f'"K{i}"' for i in mine) + "]")
        if imp == "reexport" and mine:
            init_lines.append(f"from {pkg}.{m} import *")
        if imp == "reexport_from" and mine:
            init_lines.append(f"from {pkg}.{m} import " + ", ".join(f"K{i}" for i in mine))
        for i in mine:
            lines.append("")
            cl, off = render_class(i, table[i], via=spell_via(table, via))
            if off is not None:
                hw_line[i] = len(lines) + off + 1
            lines.extend(cl)
        out[m] = "\n".join(lines) + "\n"
    out["__init__"] = "\n".join(init_lines) + ("\n" if init_lines else "")
    if via:
        out["_compat"] = compat_source(via)
    return out, hw_line


XBASES = ["ABC", "Generic[T]"]       # bases Griffe cannot resolve (their packages are never loaded); each at most once per class
XIMPORTS = ["from abc import ABC", "from typing import Generic, TypeVar", 'T = TypeVar("T")']


def base_list(c, nm=lambda j: f"K{j}"):
    """the bases as written: the classes of the table with the external ones (c['xb'] = [(position, kind)]) put in between"""
    out = [nm(b) for b in c["bases"]]
    for pos, kind in sorted(c.get("xb") or []):
        out.insert(min(pos, len(out)), XBASES[kind])
    return out


def skeleton(table):
    return "\n".join(XIMPORTS) + "\n" + "".join(f"class K{i}({', '.join(base_list(c))}): pass\n" for i, c in enumerate(table))


# ---------------------------------------------------------------- model encoding
def enc_opt(o):
    return [] if o is None else [bool(o)]


def enc_value(v):
    if v[0] != "field":
        return [v[0]]
    _, init, kw, d, f, o = v
    return ["field", enc_opt(init), enc_opt(kw), bool(d), bool(f), bool(o)]


def enc_stmt(s):
    if s[0] == "attr":
        return ["attr", s[1], s[2], enc_value(s[3])]
    if s[0] == "def":
        return ["def", s[1], bool(s[2])]
    return ["annprop", s[1]]


def enc_table(table, mros):
    out = []
    for c, m in zip(table, mros):
        dec = [] if c["dec"] is None else [[enc_opt(c["dec"][0]), enc_opt(c["dec"][1])]]
        hw = [] if c["hw"] is None else [list(c["hw"])]
        out.append([dec, [enc_stmt(s) for s in c["body"]], hw, list(m)])
    return ["table", out]


# ---------------------------------------------------------------- the two real systems
class Watchdog:
    def __init__(self, seconds=20):
        self.seconds = seconds

    def __enter__(self):
        def boom(signum, frame):
            raise TimeoutError("watchdog")
        self.old = signal.signal(signal.SIGALRM, boom)
        signal.alarm(self.seconds)

    def __exit__(self, *a):
        signal.alarm(0)
        signal.signal(signal.SIGALRM, self.old)
        return False


def cpython_mros(table):
    ns = {"__name__": "c18skel"}
    try:
        exec(compile(skeleton(table), "<c18skel>", "exec", dont_inherit=True), ns)
    except TypeError:
        return None
    idx = {ns[f"K{i}"]: i for i in range(len(table))}
    return [[idx[k] for k in ns[f"K{i}"].__mro__[1:-1] if k in idx] for i in range(len(table))]


def pname(s):
    """f<n> -> n (field names); q<j> -> 100 + j (parameter of class j's hand-written __init__, the model's hw_name)."""
    if len(s) > 1 and s[1:].isdigit():
        if s[0] == "f":
            return int(s[1:])
        if s[0] == "q":
            return 100 + int(s[1:])
    return s


def cpython_view(src, n):
    """Execute the source. Returns None when CPython raises, else per class [init_member, is_dataclass, presented]:
    presented = [provider class index or None, parameters of inspect.signature(cls)] (the constructor CPython resolves along __mro__)."""
    import types
    mod = types.ModuleType("c18mod")        # dataclasses looks string annotations up in sys.modules[cls.__module__]
    ns = mod.__dict__
    sys.modules["c18mod"] = mod
    try:
        exec(compile(src, "<c18mod>", "exec", dont_inherit=True), ns)
    except Exception as e:  # noqa: BLE001  (TypeError / ValueError are dataclasses' own rejections; anything else shows up in the distribution)
        return None, f"{type(e).__name__}: {str(e)[:60]}"
    finally:
        sys.modules.pop("c18mod", None)
    out = []
    idx = {ns[f"K{i}"]: i for i in range(n)}
    for i in range(n):
        k = ns[f"K{i}"]
        f = k.__dict__.get("__init__")
        if f is None:
            mem = ["absent"]
        elif getattr(f, "__code__", None) is not None and f.__code__.co_filename == "<c18mod>":
            mem = ["handwritten", [p for p in inspect.signature(f).parameters]]
        else:
            ps = []
            for p in list(inspect.signature(f).parameters.values())[1:]:
                ps.append([pname(p.name), IK.get(p.kind, str(p.kind)), p.default is not inspect.Parameter.empty])
            mem = ["synth", ps]
        provider = next((idx[b] for b in k.__mro__ if b in idx and "__init__" in b.__dict__), None)
        pres = [[pname(p.name), IK.get(p.kind, str(p.kind)), p.default is not inspect.Parameter.empty]
                for p in inspect.signature(k).parameters.values()]
        out.append([mem, dataclasses.is_dataclass(k), [provider, pres]])
    return out, None


_counter = itertools.count()


def render_xpkg(table, where, name, via=(), how="from", explicit=False):
    """Cross-package layout: where[i] in 'a','b','c' names the package <name><letter> whose module `m` defines class i; a class may
    only derive from classes of its own or an EARLIER package (a <- b <- c), which real Python could import in that order.
    Each package gets its own import style for the bases it takes from earlier packages (by package letter):
      a/b/c -> from <pkg>.m import K   |  `from <pkg> import K` through an explicit re-export in <pkg>/__init__.py  |
      `from <pkg>.m import *` placed before the stdlib imports (so that the helper names are re-bound by the stdlib line).
    via / how: helper names that reach every module `m` through its own package's `_compat` module.
    Returns ({package: {module: source}} in dependency order, {class index: line of hand-written def __init__}, locate)."""
    out, hw_line = {}, {}
    for letter in sorted(set(where)):
        pkg = name + letter
        lines = header(table, via, f"{pkg}._compat", how)
        mine = [i for i in range(len(table)) if where[i] == letter]
        need = sorted({b for i in mine for b in table[i]["bases"] if where[b] != letter})
        style = (table[mine[0]].get("style", 0) + len(need)) % (2 if explicit else 3)
        stars = []
        for b in need:
            src_pkg = name + where[b]
            if style == 0:
                lines.append(f"from {src_pkg}.m import K{b}")
            elif style == 1:
                lines.append(f"from {src_pkg} import K{b}")
            elif src_pkg not in stars:
                stars.append(src_pkg)
        for k, star_pkg in enumerate(stars):
            lines.insert((1 if lines[0].startswith("from __future__") else 0) + k, f"from {star_pkg}.m import *")
        for i in mine:
            lines.append("")
            cl, off = render_class(i, table[i], via=spell_via(table, via))
            if off is not None:
                hw_line[i] = len(lines) + off + 1
            lines.extend(cl)
        out[pkg] = {"m": "\n".join(lines) + "\n",
                    "__init__": f"from {pkg}.m import " + ", ".join(f"K{i}" for i in mine) + "\n"}
        if via:
            out[pkg]["_compat"] = compat_source(via)
    return out, hw_line, (lambda i: f"{name}{where[i]}.m.K{i}")


UNLOADED = 99      # a module index that is not in the layout: `from typing import *`


def std_stmts(table, via, compat, how):
    """the import lines of header() as layout statements: the one-hop bindings, then the names routed through _compat"""
    hs = [h for h, nme in enumerate(HELPERS) if nme not in via and not (nme == "ClassVar" and typing_star(table))]
    out = [["std", hs]]
    if typing_star(table) and "ClassVar" not in via:
        out.append(["star", UNLOADED])
    if via:
        out += [["fromh", compat, h] for h, nme in enumerate(HELPERS) if nme in via] if how == "from" else [["star", compat]]
    return out


def layout_of(table, split):
    """The generated files as the statements of Model/C18_layout.v, mirroring render / render_split / render_xpkg line by line
    (only the order of the statements matters): returns (modules, per class (module index, base names))."""
    where, imp = split_parts(split)
    via, how = via_parts(split)
    n = len(table)
    compat_mod = [[["std", [h for h, nme in enumerate(HELPERS) if nme in via]]], []]
    if where is None:
        return [[std_stmts(table, (), 0, how) + [["class", i] for i in range(n)], []]], [[0, list(table[i]["bases"])] for i in range(n)]
    if imp == "xpkg":
        letters = sorted(set(where))
        idx = {letter: 3 * p for p, letter in enumerate(letters)}        # __init__ of the package; its module m is idx + 1, _compat idx + 2
        mods = []
        for letter in letters:
            mine = [i for i in range(n) if where[i] == letter]
            need = sorted({b for i in mine for b in table[i]["bases"] if where[b] != letter})
            style = (table[mine[0]].get("style", 0) + len(need)) % (2 if (isinstance(split, dict) and split.get("order")) else 3)
            stmts, stars = std_stmts(table, via, idx[letter] + 2, how), []
            for b in need:
                q = idx[where[b]]
                if style == 0:
                    stmts.append(["from", q + 1, b])
                elif style == 1:
                    stmts.append(["from", q, b])
                elif q + 1 not in stars:
                    stars.append(q + 1)
            stmts = [["star", q] for q in stars] + stmts
            mods.append([[["from", idx[letter] + 1, i] for i in mine], []])
            mods.append([stmts + [["class", i] for i in mine], []])
            mods.append(compat_mod)
        return mods, [[idx[where[i]] + 1, list(table[i]["bases"])] for i in range(n)]
    mi = {"__init__": 0, "ma": 1, "mz": 2}
    mods = {0: [[], []], 1: None, 2: None}
    for m in (("ma", "mz") if where[0] == "ma" else ("mz", "ma")):
        other = "mz" if m == "ma" else "ma"
        mine = [i for i in range(n) if where[i] == m]
        need = sorted({b for i in mine for b in table[i]["bases"] if where[b] != m})
        stmts = std_stmts(table, via, 3, how)
        if imp in ("wild", "wild_all", "wild_shadow"):
            if need:
                stmts = [["star", mi[other]]] + stmts if imp == "wild" else stmts + [["star", mi[other]]]
        elif imp in ("reexport", "reexport_from"):
            stmts += [["from", 0, b] for b in need]
        else:
            stmts += [["from", mi[other], b] for b in need]
        if imp == "reexport" and mine:
            mods[0][0].append(["star", mi[m]])
        if imp == "reexport_from" and mine:
            mods[0][0] += [["from", mi[m], i] for i in mine]
        mods[mi[m]] = [stmts + [["class", i] for i in mine], [list(mine)] if imp == "wild_all" else []]
    return [mods[0], mods[1], mods[2], compat_mod], [[mi[where[i]], list(table[i]["bases"])] for i in range(n)]


def make_recorder():
    """An extension placed BEFORE the built-in one: at on_package_loaded it notes, for every class of the package, the canonical
    path of each decorator and the paths of the bases that resolve - what the dataclasses extension can see at that moment."""
    import griffe

    class Recorder(griffe.Extension):
        def __init__(self):
            super().__init__()
            self.seen = {}

        def on_package_loaded(self, *, pkg, **kwargs):  # noqa: ARG002
            def walk(mod):
                for mem in list(mod.members.values()):
                    if mem.is_alias:
                        continue
                    if mem.is_module:
                        walk(mem)
                    elif mem.is_class:
                        decs = [getattr(d.value, "canonical_path", str(d.value)) for d in mem.decorators]
                        try:
                            rb = [b.path for b in mem.resolved_bases]
                        except Exception as e:  # noqa: BLE001
                            rb = [f"raised {type(e).__name__}"]
                        attrs = {}
                        for an, am in mem.members.items():
                            if am.is_alias or not am.is_attribute:
                                continue
                            ann, val = am.annotation, am.value
                            attrs[an] = [getattr(ann, "canonical_path", None), getattr(val, "canonical_path", None) if type(val).__name__ == "ExprCall" else None,
                                         "class-attribute" in am.labels and "instance-attribute" not in am.labels]
                        self.seen[mem.path] = [decs, rb, attrs]
            walk(pkg)
    return Recorder()


def read_class(cls, i, hw_line):
    """What Griffe presents for one class: [__init__ member, 'dataclass' label, mro, presented constructor]."""
    m = cls.members.get("__init__")
    if m is None:
        mem = ["absent"]
    elif m.lineno:
        mem = ["handwritten", [p.name for p in m.parameters], m.lineno == hw_line.get(i)]
    else:
        ps = []
        params = list(m.parameters)
        if not params or params[0].name != "self" or params[0].default is not None:
            ps.append(["<no-self>", "PK", False])
        for p in params[1:]:
            kind = p.kind.value if p.kind is not None else "None"
            ps.append([pname(p.name), GK.get(kind, kind), p.default is not None])
        mem = ["synth", ps]
    try:
        mro = [int(b.name[1:]) for b in cls.mro()]
    except ValueError:
        mro = "ValueError"
    # the constructor a consumer sees: Class.parameters (own __init__ member, else the first inherited one along the MRO)
    try:
        am = cls.all_members.get("__init__")
        owner = None if am is None else (am.final_target.parent if am.is_alias else am.parent)
        provider = None if owner is None else int(owner.name[1:])
        params = list(cls.parameters)
        if params and params[0].name == "self":
            params = params[1:]
        elif params:
            params = ["<no-self>"] + params
        pres = [provider, [p if isinstance(p, str) else [pname(p.name), GK.get(p.kind.value if p.kind is not None else "None", "?"), p.default is not None]
                           for p in params]]
    except Exception as e:  # noqa: BLE001
        pres = ["raised", f"{type(e).__name__}: {e}"[:80]]
    return [mem, "dataclass" in cls.labels, mro, pres]


def griffe_view(ctx, table, hw_line_single, split, load=None):
    """Write the source under ctx.scratch and load it with Griffe.  Default: a fresh module name and default extensions
    (=> built-in dataclasses extension, as the loader adds it); layouts with several modules, and 30 % of the others, are loaded
    through griffe.load_extensions(recorder) instead, which adds the built-in extension after the recorder.
    load = {"name", "dir", "extensions", "recorder"} selects a fixed package name in its own directory and a shared Extensions
    container (history stream: several versions through ONE container).
    Cross-package layouts (imp == "xpkg"): ONE GriffeLoader loads the packages one after the other in dependency order.
    Per class: [__init__ member, label, mro, presented constructor, what the recorder saw at the event or None]."""
    import griffe
    k = next(_counter)
    where, imp = split_parts(split)
    rec = None
    if load is None:
        base = ctx.scratch / "src"
        name = f"c18m{k}" if where is None else f"c18p{k}"
        kwargs = {}
        if where is not None or ctx.rng.random() < 0.3:
            rec = make_recorder()
            kwargs = {"extensions": griffe.load_extensions(rec)}
    else:
        base = ctx.scratch / load["dir"]
        name = load["name"]
        kwargs = {"extensions": load["extensions"]}
        rec = load.get("recorder")
        if rec is not None:
            rec.seen.clear()
    if load is not None and load.get("inplace") and base.exists():
        import shutil
        shutil.rmtree(base)             # edit in place: the next version takes the very paths of the previous one
    base.mkdir(parents=True, exist_ok=True)
    via, how = via_parts(split)
    if imp == "xpkg":
        base = base / f"x{k}"
        wrong = isinstance(split, dict) and bool(split.get("order"))
        pkgs, hw_line, locate = render_xpkg(table, where, name, via, how, explicit=wrong)
        for pkg, mods in pkgs.items():
            (base / pkg).mkdir(parents=True)
            for m, text in mods.items():
                (base / pkg / f"{m}.py").write_text(text)
        with Watchdog():
            loader = griffe.GriffeLoader(search_paths=[str(base)], **kwargs)
            for letter in load_order(split):
                loader.load(name + letter)
        get = lambda i: loader.modules_collection[locate(i)]  # noqa: E731
        full = locate
    else:
        if where is None:
            src, hw_line = render(table)
            (base / f"{name}.py").write_text(src)
            locate = lambda i: f"K{i}"  # noqa: E731
        else:
            d = base / name
            if d.exists():          # edit-and-reload histories: the same files are rewritten in place
                import shutil
                shutil.rmtree(d)
            d.mkdir()
            mods, hw_line = render_split(table, where, name, imp, via, how)
            for m, text in mods.items():
                (d / f"{m}.py").write_text(text)
            locate = lambda i: f"{where[i]}.K{i}"  # noqa: E731
        with Watchdog():
            pkg = griffe.load(name, search_paths=[str(base)], **kwargs)
        get = lambda i: pkg[locate(i)]  # noqa: E731
        full = lambda i: f"{name}.{locate(i)}"  # noqa: E731
    out = []
    for i in range(len(table)):
        r = read_class(get(i), i, hw_line)
        seen = None
        if rec is not None:
            decs, rb, attrs = rec.seen.get(full(i), [None, None, None])
            if decs is not None:
                # per helper name: None when the class does not use it, else whether every use is recognised
                def allof(xs):
                    xs = list(xs)
                    return None if not xs else all(xs)
                body = table[i]["body"]
                got = lambda n: attrs.get(fname(n), [None, None, None])  # noqa: E731
                seen = [any(p == "dataclasses.dataclass" for p in decs) if table[i]["dec"] is not None else None,
                        [full(b) in rb for b in table[i]["bases"]],
                        allof(got(s[1])[1] == "dataclasses.field" for s in body if s[0] == "attr" and s[3][0] == "field" and s[2] != "none"),
                        allof(got(s[1])[0] == "dataclasses.KW_ONLY" for s in body if s[0] == "attr" and s[2] == "kwonly"),
                        allof(got(s[1])[0] == "dataclasses.InitVar" for s in body if s[0] == "attr" and s[2] == "initvar"),
                        allof(got(s[1])[2] for s in body if s[0] == "attr" and s[2] == "classvar" and s[3][0] != "none")]
        out.append(r + [seen])
    return out


# ---------------------------------------------------------------- generation
def field_values():
    out = []
    for init in (None, True, False):
        for kw in (None, True, False):
            for d, f in ((0, 0), (1, 0), (0, 1)):
                for o in (0, 1):
                    out.append(("field", init, kw, bool(d), bool(f), bool(o)))
    return out


FIELD_VALUES = field_values()
DECS = [None] + [(i, k) for i in (None, True, False) for k in (None, True, False)]


def rand_value(rng, want_default, gap_ok=True):
    r = rng.random()
    if r < 0.55:
        return ("plain",) if want_default else ("none",)
    init = rng.choice([None, None, None, True, False])
    kw = rng.choice([None, None, None, True, True, False])
    if want_default:
        d, f = rng.choice([(True, False), (True, False), (False, True)])
    else:
        d, f = False, False
    o = rng.random() < 0.4
    return ("field", init, kw, d, f, o)


def rand_body(rng, state, decorated, quiet, initvar=0.0):
    """state['dflt']: a default was already used in this hierarchy (keeps CPython's ordering rule satisfied most of the time)."""
    n = rng.choice([0, 1, 1, 2, 2, 3, 3, 4, 5])
    names = rng.sample(range(NAMES), min(n, NAMES))
    body = []
    sentinel = False
    for nm in names:
        r = rng.random()
        if initvar and rng.random() < initvar:
            r = 0.6            # the InitVar branch below
        want_default = (rng.random() < (0.9 if state["dflt"] else state["p_default"]))
        if r < 0.58:
            a = "plain"
        elif r < 0.66:
            a = "initvar"
        elif r < 0.74:
            a = "classvar"
        elif r < 0.80 and not sentinel:
            sentinel = True
            body.append(("attr", 90 + len(body), "kwonly", ("none",)))
            continue
        elif r < 0.85:
            body.append(("attr", nm, "none", ("plain",)))
            continue
        elif r < 0.91:
            body.append(("def", nm, rng.random() < 0.6))
            continue
        elif r < 0.93 and not quiet:
            body.append(("annprop", nm))
            continue
        else:
            a = "plain"
        if not decorated:
            v = ("plain",) if want_default else ("none",)
        else:
            v = rand_value(rng, want_default, gap_ok=not quiet)
            if a != "plain" and v[0] == "field":
                v = ("field", v[1], None if a == "classvar" else v[2], v[3] or v[4], False, v[5])   # keep CPython happy mostly
        if a == "plain" and (v[0] == "plain" or (v[0] == "field" and (v[3] or v[4]))) and not sentinel:
            state["dflt"] = True
        body.append(("attr", nm, a, v))
    return body


def rand_table(rng, maxn=4, quiet=False, initvar=0.0):
    """quiet=True avoids the forms behind known gaps so that more hierarchies exercise the gap-free theorem."""
    n = rng.choice([1, 2, 2, 3, 3, 3, 4, 4][: 2 * maxn]) if maxn <= 4 else rng.randint(1, maxn)
    state = {"dflt": False, "p_default": rng.choice([0.0, 0.3, 0.6, 1.0])}
    table = []
    for i in range(n):
        if i == 0:
            bases = []
        else:
            r = rng.random()
            if r < 0.08:
                bases = []
            elif r < 0.80 or i < 2 or quiet and r < 0.95:
                bases = [i - 1 if rng.random() < 0.7 else rng.randrange(i)]
            else:
                bases = rng.sample(range(i), 2)
        decorated = rng.random() < 0.82
        dec = None
        if decorated:
            init = rng.choice([None] * 6 + [True, True, False])
            kw = rng.choice([None] * 5 + [True, True, False])
            dec = (init, kw)
        hw = None
        if rng.random() < 0.12:
            hw = [] if (quiet or rng.random() < 0.6) else [80 + i]
        body = rand_body(rng, state, decorated, quiet, initvar)
        post = None
        if decorated and hw is None and rng.random() < 0.15:
            # __post_init__ assigning declared fields (whatever their form: init=False, kw_only, required, ClassVar, InitVar) and new attributes
            declared = [s[1] for s in body if s[0] == "attr" and s[2] != "kwonly"]
            post = [(nme, False) for nme in declared if rng.random() < 0.6] + [(70 + i, rng.random() < 0.5) for _ in range(rng.choice([0, 1, 1]))]
        xb = None
        if rng.random() < 0.12:
            # bases that Griffe cannot resolve (ABC, Generic[T]) in any position: before, between, after the classes of the table
            xb = [(rng.randint(0, len(bases)), kind) for kind in rng.sample(range(len(XBASES)), rng.choice([1, 1, 2]))]
        table.append({"dec": dec, "body": body, "hw": hw, "bases": bases, "style": rng.randrange(30030), "post": post, "xb": xb})
    return table


def rand_diamond(rng):
    """A; B(A); C(A); D(B, C) or D(C, B), optionally a fifth class below: bodies over three names so that branches override each other."""
    state = {"dflt": False, "p_default": rng.choice([0.0, 0.5, 1.0])}
    def body(decorated=True):
        out = []
        for nm in rng.sample(range(3), rng.choice([0, 1, 1, 2])):
            d = rng.random() < (0.9 if state["dflt"] else state["p_default"])
            state["dflt"] = state["dflt"] or d
            r = rng.random()
            v = ("plain",) if d else ("none",)
            if r < 0.15 and decorated:      # undecorated classes never call field() (stated assumption)
                v = ("field", None, rng.choice([None, True]), d, False, True)
            out.append(("attr", nm, "plain" if r < 0.9 else "initvar", v))
        return out
    dec = lambda: (None, rng.choice([None, None, True])) if rng.random() < 0.75 else None  # noqa: E731
    hw = lambda: [] if rng.random() < 0.12 else None  # noqa: E731
    # the join and the class below it: decorated, undecorated (inherits its constructor) or init=False (fields, no __init__)
    leaf = lambda: rng.choice([(None, None), (None, None), (None, None), None, None, (False, None)])  # noqa: E731
    d0, d1, d2, d3 = dec(), dec(), dec(), leaf()
    t = [{"dec": d0, "body": body(d0 is not None), "hw": None, "bases": [], "style": rng.randrange(30030)},
         {"dec": d1, "body": body(d1 is not None), "hw": hw(), "bases": [0], "style": rng.randrange(30030)},
         {"dec": d2, "body": body(d2 is not None), "hw": hw(), "bases": [0], "style": rng.randrange(30030)},
         {"dec": d3, "body": body(d3 is not None) if rng.random() < 0.5 else [], "hw": None, "bases": rng.choice([[1, 2], [2, 1]]), "style": rng.randrange(30030)}]
    if rng.random() < 0.3:
        d4 = leaf()
        t.append({"dec": d4, "body": body(d4 is not None), "hw": None, "bases": [3], "style": rng.randrange(30030)})
    return t


def rand_mi(rng):
    """richer multiple inheritance: 5-6 classes, 1-3 bases each in RANDOM order (so a base is sometimes listed again explicitly after an
    unrelated base although an earlier base already derives from it: `R(D, S, T)` with `D(T)`, `S(A)`), kept when CPython can linearise it"""
    for _ in range(30):
        n = rng.choice([5, 5, 6])
        state = {"dflt": False, "p_default": rng.choice([0.0, 0.5, 1.0])}
        t = []
        # half of the tables start from two unrelated chains T <- D, A <- S joined by a class that lists a base of the first chain,
        # the second chain, and then the first chain again (its root, or another subclass of its root)
        shape = None
        if rng.random() < 0.5:
            shape = rng.choice([[[], [], [0], [1], [2, 3, 0], None], [[], [], [0], [1], [0], [2, 3, 4]], [[], [], [0], [1], [3, 2, 1], None],
                                [[], [], [0], [1, 0], [2, 3, 0], None], [[], [], [0], [1], [0], [3, 2, 4]]])
            n = 6 if shape[5] is not None or rng.random() < 0.4 else 5
        for i in range(n):
            k = min(i, rng.choice([1, 1, 2, 2, 3, 3]))
            bases = rng.sample(range(i), k) if i else []
            if shape is not None and i < len(shape) and shape[i] is not None:
                bases = list(shape[i])
            dec = (None, rng.choice([None, None, True])) if rng.random() < 0.8 else None
            body = [s for s in rand_body(rng, state, dec is not None, True) if not (s[0] == "attr" and s[2] == "kwonly")][:2]
            t.append({"dec": dec, "body": body, "hw": None, "bases": bases, "style": rng.randrange(30030), "post": None})
        if all(len(set(c["bases"])) == len(c["bases"]) for c in t) and cpython_mros(t) is not None:
            return t
    return rand_diamond(rng)


def systematic_decorators():
    """every (parent decorator, child decorator) pair x fixed body pairs."""
    P = lambda n, d=False: ("attr", n, "plain", ("plain",) if d else ("none",))  # noqa: E731
    bodies = [
        ([P(0), P(1, True)], [P(2, True)]),
        ([P(0)], [P(1), ("attr", 90, "kwonly", ("none",)), P(2)]),
        ([P(0, True), ("attr", 1, "initvar", ("plain",))], [P(0, True), P(3, True)]),
        ([("attr", 90, "kwonly", ("none",)), P(0), P(1, True)], [P(2), P(1, True)]),
        ([P(0), ("attr", 1, "plain", ("field", None, True, False, False, False))], [("attr", 2, "plain", ("field", None, None, False, True, False))]),
    ]
    out = []
    k = 0
    for dp in DECS:
        for dc in DECS:
            for bp, bc in bodies:
                k += 1
                out.append([{"dec": dp, "body": bp, "hw": None, "bases": [], "style": k},
                            {"dec": dc, "body": bc, "hw": None, "bases": [0], "style": k * 3}])
    return out


def systematic_forms():
    """every single field form under each kw-only context; preceded by a required field, in a child of a small dataclass."""
    out = []
    k = 0
    values = [("none",), ("plain",)] + FIELD_VALUES
    for a in ("none", "plain", "classvar", "initvar", "kwonly"):
        for v in values:
            if a == "none" and v[0] == "none":
                continue
            for ctxk in range(3):
                k += 1
                body = [("attr", 0, "plain", ("none",))]
                if ctxk == 1:
                    body.append(("attr", 91, "kwonly", ("none",)))
                body.append(("attr", 1, a, v))
                out.append([{"dec": (None, None), "body": [("attr", 2, "plain", ("none",))], "hw": None, "bases": [], "style": k},
                            {"dec": (None, True if ctxk == 2 else None), "body": body, "hw": None, "bases": [0], "style": k * 7}])
    return out


# ---------------------------------------------------------------- checking
def table_depth(table):
    d = []
    for c in table:
        d.append(1 + max([d[b] for b in c["bases"]], default=0))
    return max(d, default=0)


def case_json(table, split):
    return {"table": [{"dec": c["dec"], "body": c["body"], "hw": c["hw"], "bases": c["bases"], "style": c["style"], "post": c.get("post"), "xb": c.get("xb")} for c in table],
            "split": split, "source": render(table)[0]}


def norm_member(mem):
    return mem[:2] if mem[0] == "synth" else mem[:1]


IMPORT_STYLES = ["from", "from", "wild", "wild", "wild_all", "wild_all", "reexport", "reexport_from", "wild_shadow"]


def rand_split(rng, table):
    """two-module package layout that real Python could import: classes below a cut live in the base module, the rest in the
    derived module, which imports from the base module only (no circular imports).  The cut is placed so that at least one base
    crosses the module boundary when the table has a base at all; which module is walked first (ma/mz) is random."""
    n = len(table)
    edges = [(i, b) for i, c in enumerate(table) for b in c["bases"]]
    if edges:
        i, b = rng.choice(edges)
        cut = rng.randint(b + 1, i)
    else:
        cut = rng.randint(1, max(1, n - 1))
    base_mod, derived_mod = rng.choice([("ma", "mz"), ("mz", "ma")])
    out = {"where": [base_mod if i < cut else derived_mod for i in range(n)], "imp": rng.choice(IMPORT_STYLES)}
    if out["imp"] != "wild_shadow":
        add_via(rng, out)
    return out


def add_via(rng, split):
    """25 % of the package layouts: some helper names reach the modules through the package's _compat module (explicit re-export
    import or star import) instead of a direct import; ClassVar most often (it stays recognised: last name), the others are
    finding C18-F10 through another route."""
    if rng.random() < 0.25:
        names = [nme for nme in HELPERS if rng.random() < (0.7 if nme == "ClassVar" else 0.25)]
        if names:
            split["via"] = {"names": names, "how": rng.choice(["from", "star"])}


def rand_xsplit(rng, table):
    """cross-package layout: 2-3 packages a <- b <- c, classes assigned by index so that bases live in the same or an earlier package;
    at least one base crosses a package boundary when the table has a base at all."""
    n = len(table)
    edges = [(i, b) for i, c in enumerate(table) for b in c["bases"]]
    if edges:
        i, b = rng.choice(edges)
        c1 = rng.randint(b + 1, i)
    else:
        c1 = rng.randint(1, max(1, n - 1))
    c2 = rng.randint(c1, n) if rng.random() < 0.5 else n
    out = {"where": ["a" if i < c1 else ("b" if i < c2 else "c") for i in range(n)], "imp": "xpkg"}
    letters = sorted(set(out["where"]))
    if len(letters) > 1 and rng.random() < 0.35:
        # WRONG-order loads: a package is loaded before the package its bases come from (on-demand loading); explicit imports only
        order = letters[:]
        while order == letters:
            rng.shuffle(order)
        out["order"] = order
    else:
        add_via(rng, out)
    return out


def load_order(split):
    where, _ = split_parts(split)
    return (split.get("order") if isinstance(split, dict) else None) or sorted(set(where))


def event_tables(table, split, mros):
    """Wrong-order loads.  For each load position k the MRO lists as they stand when the k-th package's on_package_loaded fires:
    CPython's linearisation of the hierarchy restricted to the classes of the packages loaded so far (for every visible class -
    _dataclass_fields asks the parents for their MRO at the time of the child's event; [] for the classes not loaded yet).
    Returns None for dependency-order loads or when a restricted hierarchy has no linearisation."""
    where, imp = split_parts(split)
    if imp != "xpkg" or not (isinstance(split, dict) and split.get("order")):
        return None
    order = load_order(split)
    pos = {letter: k for k, letter in enumerate(order)}
    tabs = []
    for k in range(len(order)):
        vis = {i for i in range(len(table)) if pos[where[i]] <= k}
        sub = [{**c, "bases": [b for b in c["bases"] if b in vis] if i in vis else []} for i, c in enumerate(table)]
        m = cpython_mros(sub)
        if m is None:
            return None
        tabs.append([m[i] if i in vis else [] for i in range(len(table))])
    return tabs


def event_mros(table, split, mros):
    """per class, the MRO computable when ITS package's event fires (`mros` itself for dependency-order loads)"""
    tabs = event_tables(table, split, mros)
    if tabs is None:
        return None if (isinstance(split, dict) and split.get("order")) else mros
    where, _ = split_parts(split)
    pos = {letter: k for k, letter in enumerate(load_order(split))}
    return [tabs[pos[where[i]]][i] for i in range(len(table))]


def walk_events(rng, table, split):
    """The on_package_loaded events of one load of this layout, as lists of class indices in a possible walk order: one event per
    package (dependency order for cross-package layouts); inside a package the modules come in an arbitrary order (Griffe sorts
    submodules by depth only, the rest is directory order), the classes of a module in definition order."""
    where, imp = split_parts(split)
    n = len(table)
    if where is None:
        return [list(range(n))]
    if imp == "xpkg":
        return [[i for i in range(n) if where[i] == letter] for letter in load_order(split)]
    mods = sorted(set(where))
    rng.shuffle(mods)
    return [[i for m in mods for i in range(n) if where[i] == m]]


def mask_table(table, flags):
    """the table as Griffe reads it when some helper names are not recognised in the module of a class (finding C18-F10):
    flags[i] = [dataclass at the event, dataclass for the visitor, field, KW_ONLY, InitVar, ClassVar]."""
    out = []
    for c, (dc, _dcv, fld, kwo, _iv, cv) in zip(table, flags):
        body = []
        for s in c["body"]:
            if s[0] == "attr":
                _, n, a, v = s
                if v[0] == "field" and not (dc and fld):
                    v = ("plain",)                      # an unrecognised call is a plain value
                if a == "kwonly" and not kwo:
                    a = "plain"                         # the sentinel is an annotated attribute like any other
                if a == "classvar" and not cv:
                    a = "plain"
                s = ("attr", n, a, v)
            body.append(s)
        out.append({**c, "dec": c["dec"] if dc else None, "body": body})
    return out


def masked_differs(c, m):
    return c["dec"] != m["dec"] or list(c["body"]) != list(m["body"])


def py_flags(table, split):
    """C18-F10 classifier at the layout level, per class [dataclass at the event, dataclass for the visitor, field, KW_ONLY, InitVar,
    ClassVar] = is the helper name still bound by a direct (one-hop) import where the class is defined.  Compared with the layout
    model (Model/C18_layout.v) on every case.  Two ways to lose a name: a star import of a sibling without __all__ placed after the
    stdlib imports re-binds every helper name when it is expanded (after the visit); a name that is re-exported by the package's
    _compat module (explicit or star import) never had a one-hop binding.  ClassVar is recognised by its last name."""
    where, imp = split_parts(split)
    via, _how = via_parts(split)
    n = len(table)
    shadow = set()
    if where is not None and imp == "wild_shadow":
        mods = {m for i, c in enumerate(table) for m in [where[i]] if any(where[b] != m for b in c["bases"])}
        shadow = {i for i in range(n) if where[i] in mods}
    out = []
    for i in range(n):
        ev = [nme not in via and i not in shadow for nme in HELPERS[:4]]
        out.append([ev[0], "dataclass" not in via, ev[1], ev[2], ev[3], True])
    return out


def shadowed(table, split):
    """classes that Griffe reads differently from what is written because of finding C18-F10"""
    m = mask_table(table, py_flags(table, split))
    return {i for i, c in enumerate(table) if masked_differs(c, m[i])}


def enc_session(classes, paths, events, drop_cache=False, keep_processed=False):
    return ["session", classes, list(paths), [list(e) for e in events], bool(drop_cache), bool(keep_processed)]


def dec_presented(x):
    """model's (opt provider, params) -> [provider or None, params]"""
    return [x[0][0] if x[0] else None, [list(p) for p in x[1]]]


def check_tables(ctx, tables, stream, use_model=True, mirror=False, loads=None, layout=None):
    """loads (optional, parallel to tables): {"name", "dir", "extensions", "split", "prev"} — the table is one version of a
    package loaded through a shared Extensions container after the versions listed in "prev" (history stream).
    layout: None = random (one module 53 %, two-module package 35 %, cross-package 12 %), or "xpkg" to force cross-package.
    Returns one record per input table (None when CPython rejects the bases)."""
    prepared = []
    records = [None] * len(tables)
    for ti, table in enumerate(tables):
        load = loads[ti] if loads else None
        mros = cpython_mros(table)
        if mros is None:
            ctx.observe("outcome", "mro-conflict (CPython rejects the bases)")
            ctx.case({"skeleton": skeleton(table)}, False)
            continue
        split = None
        if load is not None:
            split = load.get("split")
        elif len(table) >= 2:
            r = ctx.rng.random()
            if layout == "xpkg" or r >= 0.88:
                split = rand_xsplit(ctx.rng, table)
            elif r < 0.35:
                split = rand_split(ctx.rng, table)
        if isinstance(split, dict) and split.get("order") and event_mros(table, split, mros) is None:
            del split["order"]
        prepared.append((ti, table, mros, split, load, walk_events(ctx.rng, table, split)))
    evm = [event_mros(t, sp, m) for _, t, m, sp, _, _ in prepared]      # the MROs computable when each class is walked (wrong-order loads: shorter)
    evres, tvres = {}, {}
    masked = {}     # index in prepared -> model result for the table as Griffe reads it under finding F10 (decorators of shadowed modules unrecognised)
    if use_model:
        encs = [enc_table(t, m) for _, t, m, _, _, _ in prepared]
        shadow = [(k, shadowed(t, sp)) for k, (_, t, _, sp, _, _) in enumerate(prepared)]
        shadow = [(k, f) for k, f in shadow if f]
        wrongs = [k for k, (_, _, m, _, _, _) in enumerate(prepared) if evm[k] != m]
        allres = ctx.model(encs + [enc_session(enc_table(t, evm[k])[1], range(len(t)), ev) for k, (_, t, _, _, _, ev) in enumerate(prepared)]
                           + [["layout", *layout_of(t, sp)] for _, t, _, sp, _, _ in prepared]
                           + [enc_table(mask_table(prepared[k][1], py_flags(prepared[k][1], prepared[k][3])), prepared[k][2]) for k, f in shadow]
                           + [enc_table(prepared[k][1], evm[k]) for k in wrongs]
                           + [["session_tv", list(range(len(prepared[k][1]))),
                               [[enc_table(prepared[k][1], tab)[1], ev] for tab, ev in zip(event_tables(prepared[k][1], prepared[k][3], prepared[k][2]), prepared[k][5])],
                               encs[k][1]] for k in wrongs])
        np_ = len(prepared)
        mres, sres, lres = allres[:np_], allres[np_:2 * np_], allres[2 * np_:3 * np_]
        masked = {k: r for (k, _), r in zip(shadow, allres[3 * np_:])}
        evres = dict(zip(wrongs, allres[3 * np_ + len(shadow):]))
        tvres = dict(zip(wrongs, allres[3 * np_ + len(shadow) + len(wrongs):]))
    else:
        mres = sres = lres = [None] * len(prepared)
    for pk, ((ti, table, mros, split, load, events), mr, sr, lr) in enumerate(zip(prepared, mres, sres, lres)):
        src, hw_line = render(table)
        case = case_json(table, split)
        if load is not None:
            case["history"] = {"package": load["name"], "version": len(load["prev"]), "earlier_versions_loaded_through_the_same_extensions": list(load["prev"]),
                               "files_edited_in_place": bool(load.get("inplace"))}
            ctx.observe("history: files edited in place and loaded again", bool(load.get("inplace")))
            ctx.observe("history position", len(load["prev"]))
        nontrivial = any(c["dec"] is not None and any(s[0] == "annprop" or (s[0] == "attr" and s[2] != "none") for s in c["body"]) for c in table)
        ctx.case(case, nontrivial)
        ctx.observe("stream", stream)
        ctx.observe("classes", len(table))
        ctx.observe("depth", table_depth(table))
        if use_model:
            ctx.observe("single inheritance (model's linear)", bool(mr[1]))
        where, imp = split_parts(split)
        ctx.observe("layout", "one-module" if not split else ("cross-package, one loader, %d packages" % len(set(where)) if imp == "xpkg" else "two-modules, bases via " + imp))
        if imp == "xpkg":
            ctx.observe("cross-package: a base from an earlier package has InitVar fields",
                        any(where[b] != where[i] and any(s[0] == "attr" and s[2] == "initvar" for s in table[b]["body"])
                            for i, c in enumerate(table) for b in mros[i]))
        ctx.observe("annotations", "from __future__ import annotations" if table[0].get("style", 0) % 11 == 4 else "evaluated")
        for c in table:
            ctx.observe("decorator", "undecorated" if c["dec"] is None else f"init={c['dec'][0]},kw_only={c['dec'][1]}")
            ctx.observe("bases", len(c["bases"]))
            ctx.observe("hand-written __init__", "none" if c["hw"] is None else ("assigns" if c["hw"] else "plain"))
            for s in c["body"]:
                if s[0] == "attr":
                    v = s[3]
                    ctx.observe("form", f"{s[2]}/{v[0]}" + ("" if v[0] != "field" else
                                "(" + ",".join(x for x, on in (("init=" + str(v[1]), v[1] is not None), ("kw_only=" + str(v[2]), v[2] is not None),
                                                                ("default", v[3]), ("factory", v[4]), ("other", v[5])) if on) + ")"))
                else:
                    ctx.observe("form", s[0] + ("/property" if s[0] == "def" and s[2] else ""))
        try:
            gv = griffe_view(ctx, table, hw_line, split, load)
            if load is not None:
                load["prev"].append({"table": case["table"], "split": split})
        except Exception as e:  # noqa: BLE001
            ctx.tie_failure("harness", "griffe.load raised on a generated hierarchy", f"{type(e).__name__}: {e}", case)
            ctx.property_failure(case, {"griffe.load raised": f"{type(e).__name__}: {e}"})
            continue
        cv, why = cpython_view(src, len(table))
        if cv is None:
            ctx.observe("outcome", "CPython rejects the module")
            ctx.observe("cpython error", why.split(":")[0] + ":" + why.split(":")[1][:28])
        if use_model:
            accepted, linear, per, m_mode, m_wf = mr
            ctx.observe("shape of the merging code (translated)", m_mode)
            if not m_wf:
                ctx.tie_failure("oracle", "wf_mro(model) is false on MRO lists computed by CPython", {"mros": mros}, case)
            if bool(accepted) != (cv is not None):
                ctx.tie_failure("oracle", "py_eval_table(model) accepts vs CPython executes the module",
                                {"model_accepts": accepted, "cpython": why or "ok"}, case)
        f10 = shadowed(table, split)
        flags = py_flags(table, split)
        wrong = evm[pk] != mros
        # classes whose own synthesis (or that of a class they can inherit the constructor from) ran with an incomplete MRO:
        # what Griffe presents for them depends on the order of the loads and is compared with the model only
        stale = {i for i in range(len(table)) if evm[pk][i] != mros[i]}
        # an inherited constructor is looked up when asked for (final MRO): it is order-dependent only through a provider that was
        # synthesised with an incomplete MRO
        stale_p = {i for i in range(len(table)) if any(j in stale and table[j]["dec"] is not None and table[j]["hw"] is None for j in mros[i])}
        if wrong:
            ctx.observe("wrong-order loads: classes walked with an incomplete MRO", sum(1 for j in range(len(table)) if evm[pk][j] != mros[j]))
        if use_model and wrong:
            # Griffe's side of the model: members and labels as synthesised with the MRO of the event; the presented constructor is
            # looked up along the FINAL MRO (Class.parameters is computed when asked for)
            # (Model/C18_machine.v : session_tv - every event with the table of its moment; C18_session_any_order, C18_presented_after_loads)
            eper, tv = evres[pk][2], tvres[pk]
            final_members = [x[0] for x in mr[2]]
            per = [list(x) for x in mr[2]]
            for i in range(len(table)):
                if [tv[i][0], bool(tv[i][1])] != [eper[i][0], bool(eper[i][2])]:
                    ctx.tie_failure("harness", "session_tv(model) vs the stateless model on the table of the class' event (theorem C18_session_any_order)",
                                    {"class": i, "machine": tv[i][:2], "stateless": [eper[i][0], eper[i][2]]}, case)
                per[i][0], per[i][2], per[i][5] = tv[i][0], tv[i][1], tv[i][2]
            # the exact hypothesis of C18_presented_after_loads, evaluated with the model: the member each class of the lookup list got
            # at its event is the one it would get now
            stale_p = {i for i in range(len(table)) if any(eper[j][0] != final_members[j] for j in [i] + mros[i])}
            for i in range(len(table)):
                if i not in stale_p and dec_presented(per[i][5]) != dec_presented(mr[2][i][5]):
                    ctx.tie_failure("harness", "theorem C18_presented_after_loads contradicted by the extracted model", {"class": i}, case)
            ctx.observe("wrong-order loads: presented constructor provably the final one (hypothesis of C18_presented_after_loads)",
                        f"{len(table) - len(stale_p)} of {len(table)} classes")
            mr = [mr[0], mr[1], per, mr[3], mr[4]]
        if use_model and not wrong:
            # what the extension (and the visitor) can see: the layout model (Model/C18_layout.v) vs the recorder extension,
            # and the layout predicate of this module vs the model
            m_flags = [[bool(r[0]), bool(r[2]), bool(r[3]), bool(r[4]), bool(r[5]), bool(r[6])] for r in lr]
            if m_flags != flags:
                ctx.tie_failure("harness", "layout predicate py_flags vs recognised_h(model of the layout)", {"python": flags, "model": m_flags}, case)
            for i, c in enumerate(table):
                seen = gv[i][4]
                if seen is None:
                    continue
                ctx.count("event-time observations")
                # the recorder says None for a name the class does not use
                want = [bool(lr[i][0]), [bool(x) for x in lr[i][1]], bool(lr[i][3]), bool(lr[i][4]), bool(lr[i][5]), bool(lr[i][6])]
                want = [w if h is not None else None for w, h in zip(want, seen)]
                if want != seen:
                    ctx.tie_failure("correspondence", "layout model: helper names recognised / bases resolved when on_package_loaded fires (ClassVar: at the visit) vs recorder extension",
                                    {"class": i, "model [dataclass, bases, field, KW_ONLY, InitVar, ClassVar]": want, "impl": seen}, case)
                for nme, x in zip(["dataclass", None, "field", "KW_ONLY", "InitVar", "ClassVar"], seen):
                    if nme and x is not None:
                        ctx.observe(f"event time: {nme} recognised", bool(x))
                for x in seen[1]:
                    ctx.observe("event time: base resolved", bool(x))
        tainted = {i for i in range(len(table)) if any(j in f10 for j in [i] + mros[i])}
        f10_confirmed = set()
        if pk in masked:
            # finding F10 is a layout-level defect (name resolution of `dataclass` through a star import): the per-class model is
            # applied to the table Griffe effectively sees (those decorators dropped) and must reproduce what Griffe presents
            for i in range(len(table)):
                mm = masked[pk][2][i]
                # the label of the class itself comes from the visitor, which still sees `dataclass` bound to dataclasses.dataclass
                # (the star import is expanded after the visit); the extension's view of the parents is the masked one
                want = [mm[0], bool(mm[2]) or (table[i]["dec"] is not None and flags[i][1]), dec_presented(mm[5])]
                have = [norm_member(gv[i][0]), gv[i][1], gv[i][3]]
                if want != have:
                    ctx.tie_failure("correspondence", "model on the table with the shadowed decorators dropped (finding F10) vs Griffe",
                                    {"class": i, "model": want, "impl": have}, case)
                else:
                    f10_confirmed.add(i)
            ctx.observe("F10 layouts: classes reproduced by the model on the masked table", len(f10_confirmed))
            f10 &= f10_confirmed
            tainted &= f10_confirmed
        records[ti] = {"table": table, "mros": mros, "split": split, "gv": gv, "cv": cv, "f10": tainted, "events": events, "case": case}
        for i, c in enumerate(table):
            g_mem, g_label, g_mro, g_pres, _seen = gv[i]
            if g_mro != mros[i]:
                ctx.tie_failure("correspondence", "precondition: Class.mro() vs CPython __mro__ (C07)", {"griffe": g_mro, "cpython": mros[i], "class": i}, case)
                # the order in which fields, overrides and constructors are inherited is the MRO: a different one is a failing input of this property too
                ctx.property_failure(case, {"class": i, "Class.mro()": g_mro, "cls.__mro__ (classes of the module)": mros[i]})
            # hand-written __init__ is the user's, untouched
            if c["hw"] is not None:
                if g_mem[0] != "handwritten" or g_mem[1] != ["self", f"q{i}"] or not g_mem[2]:
                    ctx.property_failure(case, {"class": i, "hand-written __init__ not kept": g_mem})
                if cv is not None and cv[i][0][0] != "handwritten":
                    ctx.tie_failure("oracle", "CPython replaced a hand-written __init__?", {"class": i, "cpython": cv[i][0]}, case)
            elif c["dec"] is None and g_mem[0] != "absent":
                ctx.property_failure(case, {"class": i, "non-dataclass class got an __init__": g_mem})
            gaps = None
            m_gp = m_pyp = None
            if use_model:
                m_g, m_py, m_glabel, m_pylabel, m_gaps, m_gp, m_pyp, m_anygap = per[i]
                m_gp = dec_presented(m_gp)
                if m_g != norm_member(g_mem) and i not in tainted:
                    ctx.tie_failure("correspondence", "g_init_member(model) vs members['__init__'] after griffe.load", {"class": i, "model": m_g, "impl": g_mem}, case)
                if bool(m_glabel) != g_label and i not in tainted:
                    ctx.tie_failure("correspondence", "g_label(model) vs 'dataclass' in labels", {"class": i, "model": m_glabel, "impl": g_label}, case)
                if m_gp != g_pres and i not in tainted:
                    ctx.tie_failure("correspondence", "g_presented(model) vs Class.parameters / all_members['__init__'] owner", {"class": i, "model": m_gp, "impl": g_pres}, case)
                # the extension as a state machine (walk order, cache, InitVar pruning, one event per package)
                s_mem, s_lab = sr[i]
                if (s_mem != norm_member(g_mem) or bool(s_lab) != g_label) and i not in tainted:
                    ctx.tie_failure("correspondence", "session machine (model) vs members['__init__'] / label after the loads",
                                    {"class": i, "model": [s_mem, s_lab], "impl": [g_mem, g_label], "events": events}, case)
                if cv is not None:
                    m_pyp = dec_presented(m_pyp)
                    if m_py != norm_member(cv[i][0]):
                        ctx.tie_failure("oracle", "py_init_member(model) vs cls.__dict__['__init__'] / inspect.signature", {"class": i, "model": m_py, "cpython": cv[i][0]}, case)
                    if bool(m_pylabel) != cv[i][1]:
                        ctx.tie_failure("oracle", "py_is_dataclass(model) vs dataclasses.is_dataclass", {"class": i, "model": m_pylabel, "cpython": cv[i][1]}, case)
                    if m_pyp != cv[i][2]:
                        ctx.tie_failure("oracle", "py_presented(model) vs inspect.signature(cls) / first __init__ along __mro__", {"class": i, "model": m_pyp, "cpython": cv[i][2]}, case)
                gaps = [bool(x) for x in m_gaps]
            elif mirror:
                gaps = py_gaps(table, mros, i)
            if cv is None:
                continue
            c_mem, c_isdc, c_pres = cv[i]
            # direct evaluation of the property: Griffe vs CPython
            if i in stale:
                ctx.observe("outcome", "wrong-order load: walked with an incomplete MRO (compared with the model only)")
            if c["dec"] is not None and c["hw"] is None and i not in stale:
                ctx.count("direct_init_comparisons")
                if norm_member(g_mem) != norm_member(c_mem):
                    fid = None
                    if gaps is not None:
                        hit = [FINDINGS[k] for k, g in enumerate(gaps) if g]
                        fid = hit[0] if hit else ("C18-F10" if i in tainted else None)
                        for h in hit:
                            ctx.observe("gap of a differing class", h)
                    ctx.observe("outcome", "init differs: " + (fid or "UNEXPLAINED"))
                    ctx.property_failure(case, {"class": i, "griffe": g_mem, "cpython": c_mem}, finding=fid)
                else:
                    ctx.observe("outcome", "init equal" + (" (inside a gap predicate)" if gaps and any(gaps) else ""))
                    if gaps is not None and not any(gaps) and c_mem[0] == "synth":
                        ctx.observe("gap-free equal: params", len(c_mem[1]))
                        ctx.observe("gap-free equal: kw-only params", sum(1 for p in c_mem[1] if p[1] == "KO"))
            # the constructor presented for a class that inherits it (no __init__ of its own): Class.parameters vs inspect.signature(cls)
            if c_mem[0] == "absent" and i not in stale_p:
                ctx.count("direct_presented_comparisons")
                if i in stale:
                    ctx.observe("wrong-order load: inherited constructor read after the parent's package was loaded", "compared with inspect.signature")
                kind = ("no constructor anywhere" if c_pres[0] is None else
                        ("inherited from a hand-written __init__" if table[c_pres[0]]["hw"] is not None else "inherited from a synthesised __init__"))
                if len(mros[i]) > 1 and mros[i][0] != c_pres[0] and c_pres[0] is not None and len(c["bases"]) > 1:
                    kind += ", provider is not the first base (multiple inheritance)"
                if g_pres != c_pres:
                    fid = None
                    j = c_pres[0]
                    if i in tainted:
                        fid = "C18-F10"
                    elif use_model and m_gp == g_pres and m_pyp == c_pres and j is not None:
                        # the faithful model reproduces this very difference: it is the provider's own known gap
                        hit = [FINDINGS[k] for k, g in enumerate(per[j][4]) if g]
                        fid = hit[0] if hit else None
                    elif mirror and j is not None:
                        hit = [FINDINGS[k] for k, g in enumerate(py_gaps(table, mros, j)) if g]
                        fid = hit[0] if hit else None
                    ctx.observe("outcome", "presented constructor differs: " + (fid or "UNEXPLAINED"))
                    ctx.property_failure(case, {"class": i, "Class.parameters (after self)": g_pres, "inspect.signature(cls)": c_pres}, finding=fid)
                else:
                    ctx.observe("presented constructor equal", kind)
            if i in stale:
                pass
            elif g_label != c_isdc:
                ctx.observe("outcome", "label differs")
                ctx.property_failure(case, {"class": i, "griffe label": g_label, "is_dataclass": c_isdc}, finding="C18-F10" if (gaps is not None and i in tainted) else None)
            elif c_isdc and c["dec"] is None:
                ctx.observe("outcome", "inherited label present")
    return records


# ---------------------------------------------------------------- python mirror of the gap predicates (search mode only: no model)
def py_gaps(table, mros, i):
    c = table[i]
    chain = [table[j] for j in reversed(mros[i]) if table[j]["dec"] is not None] + ([c] if c["dec"] is not None else [])
    idx = {id(b): k for k, b in enumerate(table)}

    def binds(b, n):
        for s in b["body"]:
            if s[0] in ("def", "annprop") and s[1] == n:
                return True
            if s[0] == "attr" and s[1] == n:
                v = s[3]
                if v[0] == "plain" or (v[0] == "field" and (b["dec"] is None or v[3])):
                    return True
        return False

    g2 = g7 = False
    excl, incl = set(), set()
    for b in chain:
        kw = b["dec"][1] is True
        anc = [table[j] for j in mros[idx[id(b)]]]
        for s in b["body"]:
            if s[0] == "annprop":
                g7 = True
                incl.add(s[1])
            if s[0] != "attr":
                continue
            _, n, a, v = s
            if a == "kwonly":
                kw = True
            if a == "classvar":
                excl.add(n)
            if a in ("plain", "initvar"):
                if v[0] == "none" and any(binds(x, n) for x in anc):
                    g2 = True
                if v[0] == "field":
                    if v[1] is False:
                        excl.add(n)
                    else:
                        incl.add(n)
                else:
                    incl.add(n)
    g3 = bool(excl & incl)
    g4 = any(b["hw"] for b in chain)
    g6 = any(len(table[j]["bases"]) > 1 for j in mros[i] + [i])    # coarser than the model's G6
    fixed = REPAIRED_BY_MODE[current_mode()]
    return [g2, g3 and "C18-F3" not in fixed, g4, g6 and "C18-F6" not in fixed, g7]


# ---------------------------------------------------------------- witnesses of the findings (replayed on the implementation each run)
def A(n, ann="plain", v=("none",)):
    return ("attr", n, ann, v)


def K(dec, body, bases=(), hw=None):
    return {"dec": dec, "body": list(body), "hw": hw, "bases": list(bases), "style": 0}


D0 = (None, None)
WITNESSES = {
    "C18-F2": ([K(D0, [A(0, v=("plain",))]), K(D0, [A(0), A(1, v=("plain",))], [0])], 1),
    "C18-F3": ([K(D0, [A(0, v=("plain",))]), K(D0, [A(0, v=("field", False, None, True, False, False)), A(1, v=("plain",))], [0])], 1),
    "C18-F4": ([K(D0, [A(0)], hw=[80]), K(D0, [A(1, v=("plain",))], [0])], 1),
    "C18-F6": ([K(D0, [A(0)]), K(D0, [A(0, v=("plain",))], [0]), K(D0, [A(1, v=("plain",))], [0]), K(D0, [], [2, 1])], 3),
    "C18-F7": ([K(D0, [("annprop", 0)])], 0),
}
# witnesses of the repaired defects (former F1, F5, F8, F9): corpus cases that must PASS now; no classifier is left for them
REPAIRED = {
    # style 4: the un-annotated attribute at position 0 is rendered as `from os import path as f0` inside the class body
    "former C18-F11 (import inside the body of a dataclass)": [{"dec": (None, None), "body": [("attr", 0, "none", ("plain",)), ("attr", 1, "plain", ("plain",))],
                                                                "hw": None, "bases": [], "style": 4},
                                                               {"dec": (None, None), "body": [("attr", 2, "plain", ("plain",))], "hw": None, "bases": [0], "style": 0}],
    "former C18-F1 (init=False)": [K((False, None), [A(0, v=("plain",))]), K(D0, [A(1, v=("plain",))], [0])],
    "former C18-F5 (field(kw_only=False))": [K((None, True), [A(0, v=("field", None, False, True, False, False)), A(1, v=("plain",))]),
                                             K(D0, [A(2), A(91, "kwonly"), A(3, v=("field", None, False, False, False, True)), A(4)], [])],
    "former C18-F8 (bare field())": [K(D0, [A(0, v=("field", None, None, False, False, False))])],
    "former C18-F9 (label with own __init__)": [K(D0, [A(0, v=("plain",))]), K(None, [], [0], hw=[])],
}
F10_WITNESS = ([K(D0, [A(0, v=("plain",))]), K(D0, [A(1, v=("plain",))], [0])], {"where": ["ma", "mz"], "imp": "wild_shadow"}, 1)


def replay_witnesses(ctx):
    table, split, i = F10_WITNESS
    src, hw_line = render(table)
    gv = griffe_view(ctx, table, hw_line, split)
    cv, _ = cpython_view(src, len(table))
    ctx.witness("C18-F10", cv is not None and i in shadowed(table, split) and norm_member(gv[i][0]) != norm_member(cv[i][0]))
    # the same finding through the other route: `field` and `KW_ONLY` re-exported by a module of the package
    t2 = [K(D0, [A(0, v=("field", False, None, True, False, False)), A(90, "kwonly"), A(1, v=("plain",))]), K(D0, [A(2, v=("plain",))], [0])]
    sp2 = {"where": ["ma", "mz"], "imp": "from", "via": {"names": ["field", "KW_ONLY"], "how": "from"}}
    gv2 = griffe_view(ctx, t2, render(t2)[1], sp2)
    cv2, _ = cpython_view(render(t2)[0], 2)
    if not (cv2 is not None and shadowed(t2, sp2) == {0} and norm_member(gv2[0][0]) != norm_member(cv2[0][0])):
        ctx.tie_failure("harness", "the re-export witness of C18-F10 no longer reproduces", {"griffe": gv2[0][0], "cpython": cv2 and cv2[0][0]}, case_json(t2, sp2))
    fixed = REPAIRED_BY_MODE[current_mode()]
    for fid, (table, i) in WITNESSES.items():
        mros = cpython_mros(table)
        src, hw_line = render(table)
        gv = griffe_view(ctx, table, hw_line, None)
        cv, _ = cpython_view(src, len(table))
        if fid in fixed:
            continue        # the tree has the repaired shape: the witness is a corpus case that must pass (explore)
        ctx.witness(fid, cv is not None and norm_member(gv[i][0]) != norm_member(cv[i][0]))
        if ctx.driver is not None:
            r = ctx.model([enc_table(table, mros)])[0]
            per = r[2][i]
            flagged = bool(per[4][FINDINGS.index(fid)])
            if not flagged:
                ctx.tie_failure("harness", f"witness of {fid} is not inside its own gap predicate", {"model": per}, case_json(table, None))


MODIDX = {None: 0, "ma": 1, "mz": 2}


def check_rebinding(ctx, n, use_model=True):
    """Same-name re-binding: a @dataclass that extends an EARLIER binding of its own name - `class K0: ...; @dataclass class K0(K0)`, or
    `from pkg.base import K0; @dataclass class K0(K0)` - optionally followed by a subclass of the new binding.  Valid Python; Griffe
    resolves the base name in the final namespace of the module, i.e. to the class itself, Class.mro() raises ValueError (cycle) and
    the extension goes on with an empty MRO (its fault path).  Griffe's side of the model is therefore the table of the re-bound
    classes with empty MRO lists; CPython's the real hierarchy.  What is lost (fields and label of the earlier binding) is finding
    C18-F12, accepted only when the model reproduces both sides."""
    import griffe
    cases = []
    for _ in range(n):
        t = rand_table(ctx.rng, maxn=3, quiet=True)
        if len(t) < 2:
            continue
        # class 1 extends class 0 and takes its name; a third class (if any) extends the new binding under its own name
        if ctx.rng.random() < 0.5:          # the earlier binding a plain class: nothing to inherit, both systems must agree
            t[0] = {**t[0], "dec": None, "post": None,
                    "body": [("attr", s[1], s[2], ("plain",) if s[3][0] == "field" else s[3]) if s[0] == "attr" else s for s in t[0]["body"] if not (s[0] == "attr" and s[2] == "kwonly")]}
        t[1] = {**t[1], "bases": [0], "dec": t[1]["dec"] or (None, None), "hw": None, "post": None}
        t = t[:3]
        if len(t) == 3:
            t[2] = {**t[2], "bases": [1], "hw": None}
        mros = cpython_mros(t)
        if mros is None:
            continue
        cases.append((t, mros, ctx.rng.choice(["same module", "imported"])))
    if not cases:
        return
    def rebind_layout(t, shape):
        """the two files as statements of Model/C18_layout.v, and per re-bound class (module, class object, base NAME)"""
        std = std_stmts(t, (), 0, "from")
        rest = [["classas", 1, 0]] + ([["class", 2]] if len(t) == 3 else [])
        if shape == "same module":
            return [[[std + [["class", 0]] + rest, []]], [[0, i, 0] for i in range(1, len(t))]]
        return [[[[], []], [std + [["class", 0]], []], [std + [["from", 1, 0]] + rest, []]], [[2, i, 0] for i in range(1, len(t))]]
    res = ctx.model([enc_table(t, m) for t, m, _ in cases] + [enc_table(t[1:], [[] for _ in t[1:]]) for t, _, _ in cases]
                    + [["selfres", *rebind_layout(t, shape)] for t, _, shape in cases]) if use_model else None
    for k, (t, mros, shape) in enumerate(cases):
        names = ["K0", "K0", "K2"][:len(t)]
        src, _ = render(t)
        k_id = next(_counter)
        base = ctx.scratch / "rebind"
        hdr = header(t)
        body1 = [ln for i in range(1, len(t)) for ln in [""] + render_class(i, t[i], via=spell_via(t, ()), names=names)[0]]
        body0 = [""] + render_class(0, t[0], via=spell_via(t, ()), names=names)[0]
        case = {"table": case_json(t, None)["table"], "rebinding": shape, "source": None}
        try:
            if shape == "same module":
                name = f"c18r{k_id}"
                text = "\n".join(hdr + body0 + body1) + "\n"
                base.mkdir(parents=True, exist_ok=True)
                (base / f"{name}.py").write_text(text)
                case["source"] = text
                with Watchdog():
                    pkg = griffe.load(name, search_paths=[str(base)])
                get = lambda nme: pkg[nme]  # noqa: E731
            else:
                name = f"c18rp{k_id}"
                (base / name).mkdir(parents=True)
                (base / name / "__init__.py").write_text("")
                (base / name / "base.py").write_text("\n".join(hdr + body0) + "\n")
                imp = f"from {name}.base import K0" if k_id % 2 else "from .base import K0"
                text = "\n".join(hdr + [imp] + body1) + "\n"
                (base / name / "m.py").write_text(text)
                case["source"] = f"# {name}/base.py\n" + "\n".join(hdr + body0) + f"\n# {name}/m.py\n" + text
                with Watchdog():
                    pkg = griffe.load(name, search_paths=[str(base)])
                get = lambda nme: pkg["m"][nme]  # noqa: E731
            gv = [read_class(get(names[i]), i, {}) for i in range(1, len(t))]
            selfres = [[b.path for b in get(names[i]).resolved_bases] == [get(names[i]).path] for i in range(1, len(t))]
        except Exception as e:  # noqa: BLE001
            ctx.case(case, True)
            ctx.tie_failure("harness", "griffe.load raised on a same-name re-binding", f"{type(e).__name__}: {e}", case)
            ctx.property_failure(case, {"griffe.load raised": f"{type(e).__name__}: {e}"})
            continue
        cv, why = cpython_view(src, len(t))
        ctx.case(case, True)
        ctx.observe("stream", "same-name re-binding (the extension's fault path: Class.mro() raises)")
        ctx.observe("re-binding shape", shape + (", earlier binding is a dataclass" if t[0]["dec"] is not None else ", earlier binding is a plain class")
                    + (", subclass of the new binding" if len(t) == 3 else ""))
        for i in range(1, len(t)):
            g_mem, g_label, g_mro, g_pres, _ = gv[i - 1] + [None]
            ctx.observe("re-binding: Class.mro()", "raises ValueError" if g_mro == "ValueError" else "computed")
            # read_class takes the provider from the class NAME: K0 is class 1 here
            if g_pres and g_pres[0] == 0:
                g_pres = [1, g_pres[1]]
            reproduced = None
            if use_model:
                real, sub = res[k], res[len(cases) + k]
                # finding C18-F12 exactly (Model/C18_layout.v : self_resolved): the base name resolves to the class itself
                m_self = bool(res[2 * len(cases) + k][i - 1][0])
                ctx.observe("re-binding: base resolves to the class itself", m_self)
                if m_self != selfres[i - 1]:
                    ctx.tie_failure("correspondence", "self_resolved(layout model) vs Class.resolved_bases == [the class itself]",
                                    {"class": i, "model": m_self, "impl": selfres[i - 1]}, case)
                m_g, _, m_glabel, _, _, m_gp, _, _ = sub[2][i - 1]
                m_gp = dec_presented(m_gp)
                if m_gp[0] is not None:
                    m_gp[0] += 1                  # index in the sub-table -> class index
                want = [m_g, bool(m_glabel), m_gp]
                have = [norm_member(g_mem), g_label, g_pres]
                if want != have:
                    ctx.tie_failure("correspondence", "model with an empty MRO (the extension's fallback when Class.mro() raises) vs Griffe on a same-name re-binding",
                                    {"class": i, "model": want, "impl": have}, case)
                if cv is not None and (real[2][i][1] != norm_member(cv[i][0]) or bool(real[2][i][3]) != cv[i][1]):
                    ctx.tie_failure("oracle", "py_init_member / py_is_dataclass (model) vs CPython on the hierarchy of a re-binding", {"class": i}, case)
                reproduced = cv is not None and want == have
            if cv is None:
                ctx.observe("outcome", "CPython rejects the module")
                break
            c_mem, c_isdc, c_pres = cv[i]
            own_init = t[i]["dec"] is not None and t[i]["dec"][0] is not False
            differs = (own_init and norm_member(g_mem) != norm_member(c_mem)) or g_label != c_isdc or (c_mem[0] == "absent" and g_pres != c_pres)
            ctx.count("direct_rebinding_comparisons")
            if differs:
                fid = None
                if reproduced or not use_model:
                    gaps = [bool(x) for x in real[2][i][4]] if use_model else py_gaps(t, mros, i)
                    hit = [FINDINGS[j] for j, g in enumerate(gaps) if g and FINDINGS[j] not in REPAIRED_BY_MODE[current_mode()]]
                    if use_model:
                        # with the ancestors visible the model of Griffe agrees with CPython: the difference is what the lost bases carry
                        r = real[2][i]
                        lost = r[0] == r[1] and r[5] == r[6]
                    else:
                        lost = any(t[j]["dec"] is not None or t[j]["hw"] is not None for j in mros[i])
                    fid = "C18-F12" if lost else (hit[0] if hit else None)
                ctx.observe("outcome", "re-binding differs: " + (fid or "UNEXPLAINED"))
                ctx.property_failure(case, {"class": i, "griffe": [g_mem, g_label, g_pres], "cpython": [c_mem, c_isdc, c_pres]}, finding=fid)
            else:
                ctx.observe("outcome", "re-binding equal (nothing to inherit from the earlier binding)")


def check_histories(ctx, n, use_model=True, mirror=False):
    """Several versions of ONE package (same package and class names, different bodies) loaded one after the other through one
    shared griffe.load_extensions() result — what `griffe check` and any long-lived loader do.  Each version is compared with
    CPython's execution of its own source, and the whole history with the model's state machine (one event per version; the
    class objects of different versions are distinct, their canonical paths coincide)."""
    import griffe
    tables, loads, groups = [], [], []
    for _ in range(n):
        rec = make_recorder() if ctx.rng.random() < 0.5 else None
        ext = griffe.load_extensions(rec) if rec is not None else griffe.load_extensions()
        name = f"c18h{next(_counter)}"
        prev = []
        nver = ctx.rng.choice([2, 2, 3])
        inplace = ctx.rng.random() < 0.5
        first = rand_table(ctx.rng, maxn=3, quiet=True)
        groups.append(range(len(tables), len(tables) + nver))
        for v in range(nver):
            t = first if v == 0 else (evolve(ctx.rng, first) if ctx.rng.random() < 0.6 else rand_table(ctx.rng, maxn=3, quiet=True))
            split = rand_split(ctx.rng, t) if (len(t) >= 2 and ctx.rng.random() < 0.3) else None
            if inplace:
                split = None            # one module file, rewritten
            tables.append(t)
            # half of the histories EDIT THE FILES IN PLACE (same paths, the first class statement on the same line) and load again,
            # the others put each version in a directory of its own
            loads.append({"name": name, "dir": f"hist/{name}/same" if inplace else f"hist/{name}/v{v}", "extensions": ext, "recorder": rec, "split": split, "prev": prev,
                          "inplace": inplace})
    recs = check_tables(ctx, tables, "history: versions of one package through shared extensions", use_model=use_model, mirror=mirror, loads=loads)
    if not use_model:
        return
    sessions = []
    for g in groups:
        rs = [recs[k] for k in g]
        if any(r is None for r in rs):
            continue
        classes, paths, events, off, pathsets = [], [], [], 0, []
        for r in rs:
            where = split_parts(r["split"])[0]
            classes += enc_table(r["table"], [[off + j for j in m] for m in r["mros"]])[1]
            mine = [50 * MODIDX[where[i] if where else None] + i for i in range(len(r["table"]))]
            paths += mine
            pathsets.append(frozenset(mine))
            events.append([off + i for i in r["events"][0]])
            off += len(r["table"])
        ctx.observe("history session: a later version re-uses canonical paths of an earlier one", any(pathsets[k] & pathsets[j] for k in range(len(rs)) for j in range(k)))
        sessions.append((rs, enc_session(classes, paths, events)))
    for (rs, _), out in zip(sessions, ctx.model([e for _, e in sessions])):
        off = 0
        for v, r in enumerate(rs):
            for i in range(len(r["table"])):
                g_mem, g_label = r["gv"][i][0], r["gv"][i][1]
                s_mem, s_lab = out[off + i]
                if (s_mem != norm_member(g_mem) or bool(s_lab) != g_label) and i not in r["f10"]:
                    ctx.tie_failure("correspondence", "session machine (model) over the whole history vs members['__init__'] / label of this version",
                                    {"version": v, "class": i, "model": [s_mem, s_lab], "impl": [g_mem, g_label]}, r["case"])
            off += len(r["table"])


def evolve(rng, table):
    """next version of the same package: same classes and bases, fields added / removed / given defaults."""
    out = []
    for i, c in enumerate(table):
        body = [s for s in c["body"] if rng.random() < 0.8]
        used = {s[1] for s in body}
        free = [n for n in range(NAMES) if n not in used]
        if free and rng.random() < 0.7:
            body.append(("attr", rng.choice(free), "plain", ("plain",)))
        out.append({"dec": c["dec"], "body": body, "hw": c["hw"], "bases": list(c["bases"]), "style": c["style"] + 1, "post": c.get("post"), "xb": c.get("xb")})
    return out


def explore(ctx):
    import time
    t_explore = time.time()      # the budget below is exploration time: waiting for the build lock (other checks compiling) does not count
    replay_witnesses(ctx)
    fixed = REPAIRED_BY_MODE[current_mode()]
    check_tables(ctx, list(REPAIRED.values()) + [WITNESSES[f][0] for f in sorted(fixed)], "corpus: witnesses of repaired defects (must pass)")
    check_histories(ctx, ctx.budget(100, 500))
    sd = systematic_decorators()
    sf = systematic_forms()
    if ctx.quick:
        sd = ctx.rng.sample(sd, 220)
        sf = ctx.rng.sample(sf, 260)
    else:
        ctx.exhaustive = True
    check_tables(ctx, sd, "systematic decorator pairs")
    check_tables(ctx, sf, "systematic field forms")
    check_tables(ctx, [rand_diamond(ctx.rng) for _ in range(ctx.budget(250, 1500))], "random diamonds")
    check_tables(ctx, [rand_mi(ctx.rng) for _ in range(ctx.budget(120, 700))], "random multiple inheritance (5-6 classes, up to 3 bases in any order)")
    check_rebinding(ctx, ctx.budget(80, 400))
    check_tables(ctx, [rand_table(ctx.rng, maxn=4, quiet=True, initvar=0.3) for _ in range(ctx.budget(200, 1200))],
                 "cross-package: one loader, packages loaded in dependency order", layout="xpkg")
    n = ctx.budget(1500, 8000)
    maxn = 4 if ctx.quick else 5
    batch = []
    for k in range(n):
        batch.append(rand_table(ctx.rng, maxn=maxn, quiet=(k % 2 == 0)))
    for j in range(0, len(batch), 500):
        check_tables(ctx, batch[j:j + 500], "random hierarchies")
        if time.time() - t_explore > (85 if ctx.quick else 800):
            ctx.notes.append(f"random stream stopped early after {j + 500} hierarchies (time budget)")
            break
    if not ctx.quick:
        sample = []
        for t in batch[:200]:
            m = cpython_mros(t)
            if m is not None:
                sample.append(enc_table(t, m))
        ctx.cross_check_extraction(sample, 40)


def search(ctx):
    """Implementation vs CPython only, gap predicates from the python mirror (used when the model or a proof is unavailable)."""
    for k in range(20):
        check_histories(ctx, 20, use_model=False, mirror=True)
        if ctx.prop_failures:
            return
        check_tables(ctx, [rand_table(ctx.rng, maxn=4, quiet=(j % 2 == 0)) for j in range(200)], "search", use_model=False, mirror=True)
        if ctx.prop_failures or ctx.elapsed() > 500:
            return
        check_tables(ctx, [rand_diamond(ctx.rng) for _ in range(60)], "search: diamonds", use_model=False, mirror=True)
        check_tables(ctx, [rand_table(ctx.rng, maxn=4, quiet=True, initvar=0.3) for _ in range(60)], "search: cross-package", use_model=False, mirror=True, layout="xpkg")
        check_rebinding(ctx, 40, use_model=False)
        check_tables(ctx, [rand_mi(ctx.rng) for _ in range(60)], "search: multiple inheritance", use_model=False, mirror=True)
        if ctx.prop_failures or ctx.elapsed() > 500:
            return


def replay(ctx, data):
    case = data.get("failing_input") or {}
    if "table" not in case:
        print("replay names no input:", data.get("no_longer_checks"))
        return 0
    if case.get("rebinding"):
        # same-name re-binding: the stored source is what Griffe was given (one module, or `# pkg/file` sections of a package)
        import griffe, re, subprocess
        print(case["source"])
        base = ctx.scratch / "replay"
        parts = re.split(r"^# (\S+\.py)\n", case["source"], flags=re.M)
        if len(parts) == 1:
            base.mkdir(parents=True, exist_ok=True)
            (base / "c18replay.py").write_text(case["source"])
            obj = griffe.load("c18replay", search_paths=[str(base)])
        else:
            for path, text in zip(parts[1::2], parts[2::2]):
                (base / path).parent.mkdir(parents=True, exist_ok=True)
                (base / path).write_text(text)
                pkgname = path.split("/")[0]
            (base / pkgname / "__init__.py").write_text("")
            obj = griffe.load(pkgname, search_paths=[str(base)])["m"]
        for nme in ("K0", "K2"):
            if nme in obj.members:
                print(nme, "griffe:", read_class(obj[nme], 0, {})[:4])
        print("# CPython executes the same hierarchy under distinct names; see the `cpython` part of the stored detail:", data.get("detail"))
        subprocess.run(["rm", "-rf", str(ctx.scratch)])
        return 0
    def untable(tj):
        return [{"dec": None if c["dec"] is None else tuple(c["dec"]), "body": [detuple(s) for s in c["body"]], "hw": c["hw"], "bases": c["bases"],
                 "style": c.get("style", 0), "post": [tuple(x) for x in c["post"]] if c.get("post") else None, "xb": [tuple(x) for x in c["xb"]] if c.get("xb") else None} for c in tj]
    table = untable(case["table"])
    ctx.scratch.mkdir(parents=True, exist_ok=True)
    src, hw_line = render(table)
    print(src)
    load = None
    hist = case.get("history")
    if hist:
        import griffe
        ext = griffe.load_extensions()
        earlier = hist["earlier_versions_loaded_through_the_same_extensions"]
        print(f"# version {hist['version']} of package {hist['package']}; {len(earlier)} earlier version(s) loaded first through the same extensions object")
        for v, e in enumerate(earlier):
            t0 = untable(e["table"])
            griffe_view(ctx, t0, render(t0)[1], e.get("split"), {"name": hist["package"], "dir": "replay/same" if hist.get("files_edited_in_place") else f"replay/v{v}", "extensions": ext})
        load = {"name": hist["package"], "dir": "replay/same" if hist.get("files_edited_in_place") else "replay/current", "extensions": ext}
    if case.get("split"):
        print("# layout:", case["split"])
    gv = griffe_view(ctx, table, hw_line, case.get("split"), load)
    cv, why = cpython_view(src, len(table))
    for i in range(len(table)):
        print(f"K{i}: griffe member={gv[i][0]} label={gv[i][1]} Class.parameters(provider, after self)={gv[i][3]}\n     cpython {cv[i] if cv else why}")
    if ctx.driver is not None:
        print("model:", ctx.model([enc_table(table, cpython_mros(table))])[0])
    import subprocess
    subprocess.run(["rm", "-rf", str(ctx.scratch)])
    return 0


def detuple(s):
    s = list(s)
    if s[0] == "attr":
        return ("attr", s[1], s[2], tuple(s[3]))
    return tuple(s)
