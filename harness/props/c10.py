"""C10 — No call-breaking signature change goes unreported.

(T) Gen/C10_guards.v: the path condition of every parameter-breakage `yield` of _function_incompatibilities, translated; the
    extracted model runs the rules written over them (fdiff_code, proved = fdiff_m)
(T) Gen/C10_tables.v + Gen/C10_rules.v regenerated from diff.py / expressions.py (kind sets, `swallowed`,
    `incompatible_kind`, old-side members of it, skeleton shape, ExprFormatted fields)
(C) model fdiff_m (parameter rules + default equality by the implementation's key)
        vs  griffe.find_breaking_changes on one-function modules produced by griffe.visit
(O) model binds            vs  real CPython calls of the compiled definition (0..5 positionals, keyword subsets, repeated keywords),
                               at module level and through K().f / K.f for instance, class and static methods
(C) model h_run (list semantics of the Parameters container) vs the container after an edit history (iteration, raised errors,
    look-up by name), then fdiff_m on the resulting lists vs find_breaking_changes on the edited objects
    model ast-key diff     vs  ast.dump inequality of the defaults (abstraction python ast -> model tree is injective)
    model dval             vs  eval() of closed integer arithmetic
    model witness calls    vs  real calls (a reported, non-excused breakage comes with a call old binds and new rejects)
direct: some call binds old and not new (real calls)  =>  find_breaking_changes reports something, unless the pair
        satisfies a known-gap predicate (as evaluated by the extracted model of the unchanged code);
        a default whose compiled expression changed => a default breakage is reported for that parameter (unless F8);
        moved positional / optional made required => reported; identical => silent; reports name changed parameters.
"""
from __future__ import annotations

import ast
import io
import itertools
import json
import tokenize

from harness.common import framework
from harness.translate import c10_tables

ID = "C10"
LEVEL_TEXT = ("Theorems over all signatures and all calls (any number of positionals, any keyword list, repeated keywords rejected): identical "
              "signatures are silent; every reported parameter breakage names a parameter that really changed, and comes with an explicit witness "
              "call that old binds and new rejects unless a documented excuse holds (default/position/kind change, or the parameter only took over "
              "a slot every old call filled); moved positional / changed default / optional-made-required are always reported, the default rule "
              "for ANY equality on defaults that refines identity of the compiled expression (the code's Expr/str equality does, except for "
              "f-string conversion/format spec: finding F8; comparing rendered text does not: counter-example proved); completeness (a call bound "
              "by old and rejected by new => something is reported) for every failure class of CPython's binder, modulo decidable known-gap "
              "predicates (F2, F4-F7) whose witnesses are proved by computation; with the proposed collision rule (fix commit prepared) only F2 "
              "remains, and every report of that rule is call-breaking. Kind tables, swallowed/incompatible-kind rules, old-side rules and the "
              "skeleton of _function_incompatibilities are regenerated/checked from diff.py on every run; a parameter replaced or deleted through "
              "the Parameters container is gone for look-up by name, hence reported as removed unless swallowed; the model is tied to the code by an "
              "exhaustive <=2-parameter sweep, random <=5-parameter pairs and a default-expression grammar, the binder model to real CPython calls.")
LEVEL_NOTE = ("Trusted: Coq kernel, extraction, translator harness/translate/c10_tables.py, the harness abstraction source text -> model signature "
              "(python ast -> tree with interned tags; checked injective against ast.dump on every pair), CPython calls / ast / eval as authority. "
              "Return-annotation and non-parameter breakages are outside this property. The path conditions of all six parameter rules are "
              "translated from diff.py (Gen/C10_guards.v) and proved equal to the documented rules; loops, helper assignments and the exception "
              "handler of the default comparison are shape-checked only. Excuse exactness is proved for required/added reports only. Defaults of inspected (non-visited) "
              "objects are plain strings and are not generated. The correspondence uses calls with at most 5 positionals (theorems: unbounded).")
MODEL = ("Model.C10_code", "run_C10")
COQ_TARGETS = ["Proofs/C10_diff.vo", "Proofs/C10_complete.vo", "Proofs/C10_sound.vo", "Proofs/C10_rule.vo", "Proofs/C10_defaults.vo", "Proofs/C10_hist.vo", "Proofs/C10_code.vo", "Proofs/C10_exact.vo"]
RULE = ("exhaustive well-formed signatures over names {a,b,c}, 5 kinds, default in {none,1,2}, <=2 parameters (436 signatures; quick: all identical "
        "pairs + all pairs of a seeded 150-subset; thorough: all ordered pairs) x call shapes (0..5 positionals x keyword subsets of {a,b,c,y,z} "
        "up to size 3, plus repeated keywords); seeded random/mutated pairs of <=5-parameter signatures; pairs whose defaults come from an "
        "expression grammar (operators with/without grouping, calls, attributes, tuples, strings vs names, f-strings) mutated by leaf/operator/"
        "regrouping(parenthesis insertion or removal in the source)/swap/wrap/retype edits; all ordered pairs of a catalogue of ~115 default forms; "
        "the same signatures as instance / class / static methods of a class (calls through K().f / K.f); functions whose Parameters container "
        "was edited before the comparison (histories of setitem by index/name, delitem, add, incl. failing operations, that keep a legal signature); "
        "methods a public class only inherits (private base, two levels, swapped base) and constructors synthesised for dataclasses whose fields "
        "change, loaded from files with griffe.load -- the dataclass pairs independently and with one load_extensions() object for both loads; "
        "facade packages (pkg + private sibling _pkg / private module; re-exports in __init__ or only in a submodule, targets not public where "
        "defined, methods inherited from a base in the sibling) loaded as `griffe check` loads (resolve_aliases=True, resolve_external=None). "
        "A pair is non-trivial when some call binds old and not new, or something is reported, or a default changed; distinct by (old,new) source text")
TRUSTED = ["translator harness/translate/c10_tables.py (whitelisted AST shapes of diff.py / expressions.py; fails closed)",
           "abstraction python ast -> model default tree (harness/props/c10.py:abstract), checked injective w.r.t. ast.dump on every explored pair"]
ASSUMPTIONS = ["functions are loaded by static analysis (griffe.visit): defaults are str (constants, by repr) or Expr trees",
               "keyword names outside the parameter names are represented by one fresh name (the binder cannot tell them apart)"]
TRANSLATOR_NAME = "harness/translate/c10_tables.py"

NAMES = ["a", "b", "c", "z", "y"]
ALL = NAMES + ["self"]      # name table of the model (`self` only occurs in synthesised dataclass constructors)
KN = ["PO", "PK", "VP", "KO", "VK"]


def translate(ctx):
    c10_tables.translate(ctx)


# ------------------------------------------------------------------------------------------------ signatures
# a signature is a tuple of (name, kind, default) with default = 0 (none) or the default's source text
def sigs(maxn, names=("a", "b", "c")):
    out = []
    for n in range(maxn + 1):
        for nm in itertools.permutations(names, n):
            for ks in itertools.product(range(5), repeat=n):
                if list(ks) != sorted(ks) or ks.count(2) > 1 or ks.count(4) > 1:
                    continue
                for ds in itertools.product([0, "1", "2"], repeat=n):
                    ok = True
                    seen_def = False
                    for k, d in zip(ks, ds):
                        if k in (2, 4) and d:
                            ok = False
                        if k in (0, 1):
                            if d:
                                seen_def = True
                            elif seen_def:
                                ok = False
                    if ok:
                        out.append(tuple((x, KN[k], d) for x, k, d in zip(nm, ks, ds)))
    return out


def normalise(s, dflt="1"):
    """Sort by kind, drop surplus variadics, give positional parameters after a default a default."""
    order = {k: i for i, k in enumerate(KN)}
    s = sorted(s, key=lambda p: order[p[1]])
    out, seen_def, vp, vk, seen = [], False, False, False, set()
    for nm, k, d in s:
        if nm in seen:
            continue
        if k == "VP":
            if vp:
                continue
            vp, d = True, 0
        if k == "VK":
            if vk:
                continue
            vk, d = True, 0
        if k in ("PO", "PK"):
            if seen_def and not d:
                d = dflt
            seen_def = seen_def or bool(d)
        seen.add(nm)
        out.append((nm, k, d))
    return tuple(out)


def random_sig(rng, maxn=5, dgen=None):
    n = rng.randint(0, maxn)
    nm = rng.sample(NAMES, n)
    s = []
    for x in nm:
        k = rng.choice(KN)
        d = 0
        if k in ("PO", "PK", "KO") and rng.random() < 0.5:
            d = dgen(rng) if dgen else rng.choice(["1", "2"])
        s.append((x, k, d))
    return normalise(s, dgen(rng) if dgen else "1")


def src(sig, plain=False):
    parts = []
    for i, (nm, k, d) in enumerate(sig):
        s = nm
        if k == "VP":
            s = "*" + nm
        if k == "VK":
            s = "**" + nm
        if d:
            s += "=0" if plain else f"={d}"
        if k == "KO" and not any(q[1] == "VP" for q in sig) and not any(q[1] == "KO" for q in sig[:i]):
            parts.append("*")
        parts.append(s)
        if k == "PO" and (i + 1 == len(sig) or sig[i + 1][1] != "PO"):
            parts.append("/")
    return "def f(" + ", ".join(parts) + "): pass"


PLACES = ["module", "instance", "class", "static"]


def src_in(sig, where="module", plain=False):
    """The definition at module level, or as a method of class K (instance / class / static method).  Python binds the
    instance (the class) to the first positional slot of instance (class) methods: a call through K().f / K.f with n
    positionals is the call of the plain function with n + 1."""
    d = src(sig, plain)
    if where == "module":
        return d
    deco = {"instance": "", "class": "    @classmethod\n", "static": "    @staticmethod\n"}[where]
    return "class K:\n" + deco + "    " + d


HIER = ["inherited", "inherited-2", "swapped-base"]


def dataclass_src(fields):
    """A dataclass without hand-written __init__ whose fields are the given (name, PK|KO, default) entries."""
    lines = ["from dataclasses import KW_ONLY, dataclass", "", "", "@dataclass", "class K:"]
    kw = False
    for nm, k, d in fields:
        if k == "KO" and not kw:
            lines.append("    _: KW_ONLY")
            kw = True
        lines.append(f"    {nm}: int" + (f" = {d}" if d else ""))
    if not fields:
        lines.append("    pass")
    return "\n".join(lines)


def _files_text(files):
    return "\n".join(f"# {k}\n{v}" for k, v in files.items())


def pair_sources(o, n, where):
    """Old and new source text of a package in which the compared function is reached through inheritance or is the
    constructor synthesised for a dataclass (then o and n are `self` + the fields)."""
    if where == "inherited":
        t = "class _B:\n    {}\n\n\nclass K(_B):\n    pass"
        return t.format(src(o)), t.format(src(n))
    if where == "inherited-2":
        t = "class _A:\n    {}\n\n\nclass _B(_A):\n    pass\n\n\nclass K(_B):\n    pass"
        return t.format(src(o)), t.format(src(n))
    if where == "swapped-base":
        t = "class _B1:\n    {}\n\n\nclass _B2:\n    {}\n\n\nclass K({}):\n    pass"
        return t.format(src(o), src(n), "_B1"), t.format(src(o), src(n), "_B2")
    if where.startswith("dataclass"):
        return dataclass_src(o[1:]), dataclass_src(n[1:])
    if where in PKG:
        return _files_text(package_files(o, where)), _files_text(package_files(n, where))
    return src_in(o, where), src_in(n, where)


PKG = ["reexport-init", "reexport-submodule", "target-private-name", "target-unlisted", "inherited-from-sibling", "inherited-from-sibling-module"]


def package_files(sig, where):
    """A facade package `pkg` (+ its private sibling `_pkg` or private module) exposing the function with this signature."""
    d = src(sig)
    if where == "reexport-init":
        return {"_pkg/__init__.py": d, "pkg/__init__.py": "from _pkg import f\n\n__all__ = ['f']"}
    if where == "reexport-submodule":
        return {"_pkg/__init__.py": d, "pkg/__init__.py": '"""Facade."""', "pkg/api.py": "from _pkg import f\n\n__all__ = ['f']"}
    if where == "target-private-name":
        return {"pkg/_core.py": d.replace("def f(", "def _f(", 1), "pkg/__init__.py": "from pkg._core import _f as f\n\n__all__ = ['f']"}
    if where == "target-unlisted":
        return {"pkg/_core.py": "__all__ = ['g']\n\n\ndef g(): pass\n\n\n" + d, "pkg/__init__.py": "from pkg._core import f\n\n__all__ = ['f']"}
    if where == "inherited-from-sibling":
        # (an exported name from the sibling makes `griffe check` load it; without one the base stays unresolvable: see asbuilt)
        return {"_pkg/__init__.py": "def helper(): pass\n\n\nclass Base:\n    " + d,
                "pkg/__init__.py": "from _pkg import Base, helper\n\n__all__ = ['K', 'helper']\n\n\nclass K(Base):\n    pass"}
    if where == "inherited-from-sibling-module":
        return {"_pkg/__init__.py": "", "_pkg/base.py": "class Base:\n    " + d, "_pkg/util.py": "def helper(): pass",
                "pkg/__init__.py": "from _pkg.base import Base\nfrom _pkg.util import helper\n\n__all__ = ['K', 'helper']\n\n\nclass K(Base):\n    pass"}
    raise ValueError(where)


class Loader:
    """Packages written under the run's scratch directory and loaded with griffe.load (inheritance and the dataclasses
    extension need a loader; griffe.visit alone resolves neither)."""

    def __init__(self, root):
        self.root = root
        self.n = 0
        self.cache = {}

    def load(self, text, extensions=None):
        import griffe
        if extensions is None and text in self.cache:
            return self.cache[text]
        d = self.root / f"load{self.n}"
        self.n += 1
        d.mkdir(parents=True)
        (d / "pkg.py").write_text(text + "\n")
        if extensions is None:
            m = self.cache[text] = griffe.load("pkg", search_paths=[d])
        else:
            m = griffe.load("pkg", search_paths=[d], extensions=extensions)
        return m

    def load_check(self, files, extensions):
        """The way `griffe check` loads a version: resolve_aliases=True, resolve_external=None, the shared extensions."""
        import griffe
        d = self.root / f"load{self.n}"
        self.n += 1
        for rel, text in files.items():
            (d / rel).parent.mkdir(parents=True, exist_ok=True)
            (d / rel).write_text(text + "\n")
        return griffe.load("pkg", search_paths=[d], extensions=extensions, resolve_aliases=True, resolve_external=None)

    def pair(self, o, n, where):
        if where in PKG:
            import griffe
            exts = griffe.load_extensions()
            return self.load_check(package_files(o, where), exts), self.load_check(package_files(n, where), exts)
        so, sn = pair_sources(o, n, where)
        if where == "dataclass-one-extensions-object":
            # what `griffe check` / griffe.check() do: ONE load_extensions() result for the old and the new load, old first
            import griffe
            exts = griffe.load_extensions()
            return self.load(so, exts), self.load(sn, exts)
        return self.load(so), self.load(sn)


def parse_sig(text):
    """`def f(...)` source -> signature tuple (defaults as the source segment of the default)."""
    fn = ast.parse(text).body[0]
    if isinstance(fn, ast.ClassDef):
        fn = fn.body[0]
    a = fn.args
    out = []
    pos = [(x, "PO") for x in a.posonlyargs] + [(x, "PK") for x in a.args]
    nd = len(pos) - len(a.defaults)
    for i, (x, k) in enumerate(pos):
        out.append((x.arg, k, ast.unparse(a.defaults[i - nd]) if i >= nd else 0))
    if a.vararg:
        out.append((a.vararg.arg, "VP", 0))
    for x, d in zip(a.kwonlyargs, a.kw_defaults):
        out.append((x.arg, "KO", ast.unparse(d) if d is not None else 0))
    if a.kwarg:
        out.append((a.kwarg.arg, "VK", 0))
    return tuple(out)


# ------------------------------------------------------------------------------------------------ defaults: python ast -> model tree
ARITH = {"Add": 1, "Sub": 2, "Mult": 3, "FloorDiv": 4, "Mod": 5, "Pow": 6}
UNARY = {"USub": 7, "UAdd": 8}
NIL = ["a", 0]
_intern: dict = {}


def intern(key) -> int:
    if key not in _intern:
        _intern[key] = 100 + len(_intern)
    return _intern[key]


def _lst(items):
    out = NIL
    for it in reversed(items):
        out = ["d", 9, it, out]
    return out


def abstract(node):
    """The tree CPython compiles, as a model term (Model/C10_defaults.v:dexp). Everything ast.dump shows is kept."""
    if node is None:
        return NIL
    if isinstance(node, ast.Constant):
        v = node.value
        if type(v) is int and abs(v) < 10 ** 12:
            return ["n", v]
        return ["a", intern(("Constant", type(v).__name__, repr(v), node.kind))]
    if isinstance(node, ast.Name):
        return ["a", intern(("Name", node.id))]
    if isinstance(node, ast.BinOp) and type(node.op).__name__ in ARITH:
        return ["d", ARITH[type(node.op).__name__], abstract(node.left), abstract(node.right)]
    if isinstance(node, ast.UnaryOp) and type(node.op).__name__ in UNARY:
        return ["d", UNARY[type(node.op).__name__], abstract(node.operand), NIL]
    if isinstance(node, ast.FormattedValue):
        return ["f", abstract(node.value), node.conversion + 1, abstract(node.format_spec)]
    scal, kids = [type(node).__name__], []
    for name, val in ast.iter_fields(node):
        if isinstance(val, ast.expr_context):
            continue
        if isinstance(val, (ast.operator, ast.unaryop, ast.cmpop, ast.boolop)):
            scal.append((name, type(val).__name__))
        elif isinstance(val, ast.AST):
            kids.append(abstract(val))
        elif isinstance(val, list):
            if val and all(isinstance(x, (ast.operator, ast.unaryop, ast.cmpop, ast.boolop)) for x in val):
                scal.append((name, tuple(type(x).__name__ for x in val)))
            else:
                kids.append(_lst([abstract(x) if isinstance(x, ast.AST) or x is None else ["a", intern(("scalar", repr(x)))] for x in val]))
        elif val is None:
            kids.append(NIL)
        else:
            scal.append((name, repr(val)))
    return ["d", intern(tuple(scal)), NIL, _lst(kids)]


ARITH_NODES = (ast.Constant, ast.BinOp, ast.UnaryOp, ast.Add, ast.Sub, ast.Mult, ast.FloorDiv, ast.Mod, ast.Pow, ast.USub, ast.UAdd, ast.Load, ast.Expression)


class DInfo:
    """Everything the check needs to know about one default's source text."""
    cache: dict = {}

    def __init__(self, text):
        self.text = text
        self.tree = ast.parse(text, mode="eval").body
        self.dump = ast.dump(self.tree)
        self.sexp = abstract(self.tree)
        self.key = json.dumps(self.sexp)
        self.classes = sorted({type(n).__name__ for n in ast.walk(self.tree) if isinstance(n, ast.expr)})
        self.arith = all(isinstance(n, ARITH_NODES) and (not isinstance(n, ast.Constant) or type(n.value) is int) for n in ast.walk(self.tree))
        self.value = None          # ("int", z) | ("exc", name) | ("other", repr) for closed integer arithmetic of moderate size
        if self.arith:
            try:
                v = _bounded_eval(self.tree)
                self.value = ("int", v) if type(v) is int else ("other", repr(v))
            except _TooBig:
                self.value = None
            except Exception as e:  # noqa: BLE001
                self.value = ("exc", type(e).__name__)

    @classmethod
    def of(cls, text):
        if text not in cls.cache:
            cls.cache[text] = DInfo(text)
        return cls.cache[text]


class _TooBig(Exception):
    pass


def _bounded_eval(node):
    """CPython's own arithmetic, one operator at a time, refusing operands beyond 2**60 (the model's integers cross the
    OCaml boundary as native ints) and exponents beyond 20."""
    if isinstance(node, ast.Constant):
        v = node.value
    elif isinstance(node, ast.UnaryOp):
        x = _bounded_eval(node.operand)
        v = eval(compile(ast.Expression(ast.fix_missing_locations(ast.UnaryOp(node.op, ast.Constant(x)))), "<default>", "eval", dont_inherit=True))  # noqa: S307
    else:
        x, y = _bounded_eval(node.left), _bounded_eval(node.right)
        if type(x) is not int or type(y) is not int:
            raise _TooBig
        if isinstance(node.op, ast.Pow) and (y > 20 or abs(x) > 2 ** 16):
            raise _TooBig
        v = eval(compile(ast.Expression(ast.fix_missing_locations(ast.BinOp(ast.Constant(x), node.op, ast.Constant(y)))), "<default>", "eval", dont_inherit=True))  # noqa: S307
    if type(v) is int and abs(v) >= 2 ** 60:
        raise _TooBig
    return v


def enc(sig):
    out = []
    for nm, k, d in sig:
        if k in ("VP", "VK"):
            out.append([ALL.index(nm), k, [NIL]])
        else:
            out.append([ALL.index(nm), k, [DInfo.of(d).sexp] if d else []])
    return out


def enc_plain(sig):
    return [[ALL.index(nm), k, [0] if k in ("VP", "VK") else ([1] if d else [])] for nm, k, d in sig]


# ------------------------------------------------------------------------------------------------ default-expression grammar
LEAVES = ["0", "1", "2", "3", "10", "60", "x", "y", "'x'", "'y'", "'1'", "None", "True", "1.5", "x.y", "b'x'", "...", "()"]
INTS = ["0", "1", "2", "3", "5", "10", "60"]
BINOPS = ["+", "-", "*", "//", "%", "**", "/", "@", "<<", ">>", "&", "|", "^"]
ARITHOPS = ["+", "-", "*", "*", "-", "+", "//", "%", "**"]
CMPOPS = ["<", "==", "in", "is not", "not in", ">="]


def gen_expr(rng, depth=3, arith=False):
    """Fully parenthesised source of a random expression."""
    if depth == 0 or rng.random() < 0.25:
        return rng.choice(INTS if arith else LEAVES)
    g = lambda d=depth - 1: gen_expr(rng, d, arith)  # noqa: E731
    if arith:
        r = rng.random()
        if r < 0.8:
            op = rng.choice(ARITHOPS)
            rhs = rng.choice(["0", "1", "2", "3"]) if op == "**" else g()
            return f"({g()} {op} {rhs})"
        return f"({rng.choice(['-', '-', '+'])}{g()})"
    r = rng.random()
    if r < 0.28:
        return f"({g()} {rng.choice(BINOPS)} {g()})"
    if r < 0.38:
        return f"({rng.choice(['-', '+', '~', 'not '])}{g()})"
    if r < 0.46:
        op = rng.choice([" and ", " or "])
        return "(" + op.join(g() for _ in range(rng.choice([2, 2, 3]))) + ")"
    if r < 0.53:
        if rng.random() < 0.3:
            return f"({g()} < {g()} <= {g()})"
        return f"({g()} {rng.choice(CMPOPS)} {g()})"
    if r < 0.65:
        args = [g() for _ in range(rng.randint(0, 2))]
        if rng.random() < 0.3:
            args.append(f"k={g()}")
        if rng.random() < 0.15:
            args.insert(0, f"*{g()}")
        if rng.random() < 0.15:
            args.append(f"**{g()}")
        return f"{rng.choice(['g', 'x.m', 'int', '(' + g() + ')'])}({', '.join(args)})"
    if r < 0.71:
        return f"({g()}).{rng.choice(['y', 'z', 'real'])}"
    if r < 0.77:
        return f"({g()})[{rng.choice([g(), g() + ':' + g(), '::2', g() + ', ' + g()])}]"
    if r < 0.85:
        items = [g() for _ in range(rng.randint(0, 3))]
        return "(" + ", ".join(items) + ("," if len(items) == 1 else "") + ")"
    if r < 0.90:
        k = rng.random()
        if k < 0.4:
            return "[" + ", ".join(g() for _ in range(rng.randint(0, 2))) + "]"
        if k < 0.7:
            return "{" + ", ".join(f"{g()}: {g()}" for _ in range(rng.randint(0, 2))) + "}"
        return "{" + ", ".join(g() for _ in range(rng.randint(1, 2))) + "}"
    if r < 0.94:
        return f"({g()} if {g()} else {g()})"
    if r < 0.97:
        return f"(lambda{rng.choice(['', ' p', ' p, q=1', ' *p'])}: {g()})"
    inner = rng.choice(["x", "y", "x.y", "1", "x + 1"])
    return rng.choice(['f"{%s}"', 'f"{%s!r}"', 'f"{%s:>3}"', 'f"{%s:>4}"', 'f"a{%s}b"', 'f"{%s!s:>3}"']) % inner


def canon(text):
    """Minimal-parenthesis source of the same tree (CPython's own unparser), or None when it does not parse."""
    try:
        return ast.unparse(ast.parse(text, mode="eval").body)
    except (SyntaxError, ValueError, RecursionError, MemoryError):
        return None


def gen_default(rng):
    for _ in range(20):
        t = canon(gen_expr(rng, rng.choice([1, 2, 2, 3]), arith=rng.random() < 0.4))
        if t and len(t) < 120:
            return t
    return "1"


def _tokens(text):
    return [t for t in tokenize.generate_tokens(io.StringIO(text).readline) if t.type not in (tokenize.NEWLINE, tokenize.ENDMARKER, tokenize.NL)]


def regroup(rng, text):
    """Insert or remove one pair of parentheses in the source; keeps the token order, may change the tree."""
    try:
        toks = _tokens(text)
    except (tokenize.TokenError, IndentationError, SyntaxError):
        return None
    strs = [t.string for t in toks]
    for _ in range(12):
        s = list(strs)
        opens = [i for i, x in enumerate(s) if x == "("]
        if opens and rng.random() < 0.5:
            i = rng.choice(opens)
            depth, j = 0, i
            while j < len(s):
                depth += s[j] == "("
                depth -= s[j] == ")"
                if depth == 0:
                    break
                j += 1
            if j >= len(s):
                continue
            del s[j], s[i]
        else:
            i = rng.randrange(len(s))
            j = rng.randrange(i, len(s))
            s.insert(j + 1, ")")
            s.insert(i, "(")
        cand = " ".join(s)
        if valid_default(cand):
            return cand
    return None


def valid_default(text):
    """The text can stand after `=` in a parameter list and is read there as the same expression."""
    try:
        e = ast.parse(text, mode="eval").body
        a = ast.parse(f"def f(a={text}): pass").body[0].args
    except (SyntaxError, ValueError, RecursionError, MemoryError):
        return False
    return len(a.args) == 1 and not a.kwonlyargs and not a.vararg and not a.kwarg and len(a.defaults) == 1 and ast.dump(a.defaults[0]) == ast.dump(e)


def mutate_default(rng, text):
    """-> (kind of edit, new source)."""
    try:
        return _mutate_default(rng, text)
    except Exception:  # noqa: BLE001  (an edit that yields a tree the unparser rejects, e.g. inside an f-string)
        return "same", text


def _mutate_default(rng, text):
    r = rng.random()
    if r < 0.40:
        for _ in range(6):
            c = regroup(rng, text)
            if c is not None:
                cc = canon(c)
                if cc is None:
                    continue
                same = ast.dump(ast.parse(c, mode="eval")) == ast.dump(ast.parse(text, mode="eval"))
                # a redundant pair is kept in the source (layout-only change); a regrouping is re-rendered minimally
                return ("parens-redundant", c) if same else ("regroup", cc)
        return "same", text
    tree = ast.parse(text, mode="eval")
    nodes = [n for n in ast.walk(tree.body)]
    if r < 0.55:
        leaves = [n for n in nodes if isinstance(n, (ast.Constant, ast.Name))]
        if leaves:
            n = rng.choice(leaves)
            new = ast.parse(rng.choice(INTS + ["x", "y", "'x'", "'1'", "1.0", "True"]), mode="eval").body
            _replace(tree, n, new)
            return "leaf", ast.unparse(tree.body)
    if r < 0.68:
        ops = [n for n in nodes if isinstance(n, (ast.BinOp, ast.UnaryOp, ast.BoolOp))]
        if ops:
            n = rng.choice(ops)
            if isinstance(n, ast.BinOp):
                n.op = rng.choice([ast.Add(), ast.Sub(), ast.Mult(), ast.FloorDiv(), ast.Pow(), ast.BitOr()])
            elif isinstance(n, ast.UnaryOp):
                n.op = rng.choice([ast.USub(), ast.UAdd(), ast.Invert(), ast.Not()])
            else:
                n.op = ast.Or() if isinstance(n.op, ast.And) else ast.And()
            return "operator", ast.unparse(tree.body)
    if r < 0.76:
        bins = [n for n in nodes if isinstance(n, ast.BinOp)]
        if bins:
            n = rng.choice(bins)
            n.left, n.right = n.right, n.left
            return "swap", ast.unparse(tree.body)
    if r < 0.86:
        w = rng.choice(["g(%s)", "(%s).y", "(%s,)", "-(%s)", "(%s) + 1", "[%s]", "not (%s)", "(%s)()"])
        return "wrap", canon(w % text) or text
    if r < 0.93:
        names = [n for n in nodes if isinstance(n, ast.Name)]
        strs = [n for n in nodes if isinstance(n, ast.Constant) and isinstance(n.value, str)]
        if names or strs:
            n = rng.choice(names + strs)
            try:
                new = ast.Constant(n.id) if isinstance(n, ast.Name) else ast.Name(n.value if n.value.isidentifier() else "x", ast.Load())
                _replace(tree, n, new)
                return "retype", ast.unparse(ast.fix_missing_locations(tree).body)
            except Exception:  # noqa: BLE001
                pass
    fmts = [n for n in nodes if isinstance(n, ast.FormattedValue)]
    if fmts:
        n = rng.choice(fmts)
        if rng.random() < 0.5:
            n.conversion = rng.choice([c for c in (-1, 114, 115, 97) if c != n.conversion])
        else:
            n.format_spec = None if n.format_spec is not None else ast.JoinedStr([ast.Constant(">3")])
        return "fmt", ast.unparse(ast.fix_missing_locations(tree).body)
    return "fresh", gen_default(rng)


def _replace(tree, old, new):
    for parent in ast.walk(tree):
        for name, val in ast.iter_fields(parent):
            if val is old:
                setattr(parent, name, new)
                return
            if isinstance(val, list):
                for i, x in enumerate(val):
                    if x is old:
                        val[i] = new
                        return


FORMS = """1|2|-1|+1|~1|not x|1 + 2|1 + 2 * 3|(1 + 2) * 3|60 * (2 + 3)|60 * 2 + 3|10 - (2 - 1)|10 - 2 - 1|(-2) ** 2|-2 ** 2|2 ** 3 ** 2|(2 ** 3) ** 2
not (x and y)|not x and y|(x or y) and z|x or y and z|x|y|'x'|b'x'|x.y|x.z|x.y.z|x()|x(1)|x(1, 2)|x(a=1)|x(b=1)|x(*y)|x(**y)|x.y()|x().y|(1, 2)|(1, (2,))|((1, 2),)|(1,)|()
[1, 2]|[]|{}|{1: 2}|{1, 2}|{**x}|{None: x}|x[1]|x[1:2]|x[1, 2]|x[1:2, 3]|x[1:2:3]|x[::2]|x[:]|x if y else z|(x if y else z) if a else b|x if y else (z if a else b)|x if (y if z else a) else b
lambda: 1|lambda a: a|lambda *a: a|lambda a=1: a|lambda a=(1, 2): a|lambda a, /: a|lambda *, a: a|f"{x}"|f"{x!r}"|f"{x:>3}"|f"{x:>4}"|f"a{x}b"|f"a{x}c"|"ab"|"a b"|1 < 2|1 < 2 < 3|(1 < 2) < 3|1 < (2 < 3)|1 is 2|1 is not 2
x in y|x not in y|not x in y|(yield)|[a for a in x]|[a for a in x if a]|[a for a in y]|(a for a in x)|{a for a in x}|{a: a for a in x}|(a := 1)|x @ y|x // y|x / y|x % y|x << y|x >> y|x & y|x | y|x ^ y
1.0|1e400|1j|None|True|False|...|16|10|'1'|'True'|'None'|b'1'|-x|--x|not not x|x, *y|(x if y else z,)|x + -y|x - -y|-(x + y)|-x + y|(x, y)[0]|x[y][z]|x[y[z]]|g(x)(y)|g(x(y))|x and y or z|x and (y or z)|1 - 2 + 3|1 - (2 + 3)|2 * 3 // 4|2 * (3 // 4)""".replace("\n", "|").split("|")


# ------------------------------------------------------------------------------------------------ calls
def call_shapes():
    base = [(n, kw) for n in range(6) for r in range(4) for kw in itertools.combinations(NAMES, r)]
    dups = [(n, (k, k)) for n in range(3) for k in NAMES[:3]] + [(1, ("a", "b", "a")), (0, ("z", "z"))]
    return base + dups


CALLS = call_shapes()


def do_call(f, n, kw):
    first, rest = {}, []
    for k in kw:
        if k in first:
            rest.append(k)
        else:
            first[k] = 0
    if not rest:
        return f(*range(n), **first)
    return f(*range(n), **first, **{k: 0 for k in rest})


def binds_real(f, n, kw):
    try:
        do_call(f, n, kw)
        return True
    except TypeError:
        return False


class Cache:
    def __init__(self):
        self.mod = {}
        self.fn = {}
        self.bind = {}

    def module(self, sig, where="module"):
        import griffe
        if (sig, where) not in self.mod:
            self.mod[sig, where] = griffe.visit("m", filepath=None, code=src_in(sig, where) + "\n")
        return self.mod[sig, where]

    def fresh_module(self, sig, where="module"):
        """A private copy (edit histories change the parameters in place)."""
        import griffe
        return griffe.visit("m", filepath=None, code=src_in(sig, where) + "\n")

    @staticmethod
    def _binder_place(where):
        if where in PKG:
            return "instance" if where.startswith("inherited") else "module"
        return where

    def pyf(self, sig, where="module"):
        """The compiled definition as callers reach it (f, K().f or K.f); default values play no part in binding, so
        they are replaced by 0."""
        where = self._binder_place(where)
        key = (tuple((nm, k, bool(d)) for nm, k, d in sig), where)
        if key not in self.fn:
            ns = {}
            if where.startswith("dataclass"):
                # the authority is the dataclasses module itself: the real class, called as K(...)
                exec(compile(dataclass_src(tuple((nm, k, "0" if d else 0) for nm, k, d in sig[1:])), "<c10>", "exec", dont_inherit=True), ns)  # noqa: S102
                self.fn[key] = ns["K"]
            elif where in HIER:
                ps = tuple((nm, k, "0" if d else 0) for nm, k, d in sig)
                exec(compile(pair_sources(ps, ps, where)[0], "<c10>", "exec", dont_inherit=True), ns)  # noqa: S102
                self.fn[key] = ns["K"]().f
            else:
                exec(compile(src_in(sig, where, plain=True), "<c10>", "exec", dont_inherit=True), ns)  # noqa: S102
                self.fn[key] = ns["f"] if where == "module" else (ns["K"]().f if where == "instance" else ns["K"].f)
        return self.fn[key]

    def bindset(self, sig, where="module"):
        where = self._binder_place(where)
        key = (tuple((nm, k, bool(d)) for nm, k, d in sig), where)
        if key not in self.bind:
            f = self.pyf(sig, where)
            self.bind[key] = frozenset(c for c in CALLS if binds_real(f, *c))
        return self.bind[key]


KINDMAP = {"PARAMETER_REMOVED": "removed", "PARAMETER_CHANGED_REQUIRED": "required", "PARAMETER_MOVED": "moved",
           "PARAMETER_CHANGED_KIND": "kind", "PARAMETER_CHANGED_DEFAULT": "default", "PARAMETER_ADDED_REQUIRED": "added"}


def impl_diff(cache, old, new, where="module", mods=None, only=None):
    import griffe
    out = []
    mo, mn = mods or (cache.module(old, where), cache.module(new, where))
    for b in griffe.find_breaking_changes(mo, mn):
        if only is not None and not (b.obj.is_function and b.obj.name in (only, "_" + only)):
            continue        # e.g. the attribute of a removed dataclass field: not a report on the function under test
        k = KINDMAP.get(b.kind.name)
        if k is None:
            out.append(["other:" + b.kind.value, -1])
            continue
        p = b.new_value if k == "added" else b.old_value
        out.append([k, ALL.index(p.name)])
    return out


def fmt_call(call):
    return f"f({', '.join([str(i) for i in range(call[0])] + [k + '=0' for k in call[1]])})"


GAP_IDS = ["C10-F2", "C10-F4", "C10-F5", "C10-F6", "C10-F7"]


def check_pairs(ctx, cache, pairs, stream, notes=None, where="module", env=None):
    res = ctx.model([["xdiff", enc(o), enc(n)] for o, n in pairs])
    for idx, ((o, n), r) in enumerate(zip(pairs, res)):
        if env is not None:
            so_, sn_ = pair_sources(o, n, where)
            case = {"old": so_, "new": sn_, "where": where + (": K(...) calls the synthesised __init__" if where.startswith("dataclass") else
                                              ": loaded like `griffe check` (resolve_aliases=True, resolve_external=None, one extensions object)" if where in PKG
                                              else ": K().f is only inherited"),
                    "old_signature": src(o), "new_signature": src(n)}
        else:
            case = {"old": src_in(o, where), "new": src_in(n, where)}
            if where != "module":
                case["where"] = where + " method, called through " + ("K().f" if where == "instance" else "K.f")
        if r == ["bad-input"]:
            ctx.tie_failure("harness", "model rejected the encoded pair", case, case)
            continue
        mdiff, adiff, gaps, f8names, wf, just, gap, tdiff = r
        raised = None
        try:
            if env is not None:
                idiff = impl_diff(cache, o, n, where, mods=env.pair(o, n, where), only="__init__" if where.startswith("dataclass") else "f")
            else:
                idiff = impl_diff(cache, o, n, where)
        except Exception as e:  # noqa: BLE001
            idiff, raised = [], type(e).__name__ + ": " + str(e)[:120]
        broken = cache.bindset(o, where) - cache.bindset(n, where)
        if raised:
            ctx.property_failure(case, {"find_breaking_changes raised instead of reporting": raised, "broken_calls": len(broken)})
        od = {p[0]: (i, p) for i, p in enumerate(o)}
        nd = {p[0]: (i, p) for i, p in enumerate(n)}
        # defaults: what CPython compiles for both sides
        dchanged, dsame = [], []
        for nm in od.keys() & nd.keys():
            (_, (_, okd, odf)), (_, (_, nkd, ndf)) = od[nm], nd[nm]
            if okd in ("VP", "VK") or nkd in ("VP", "VK") or not odf or not ndf:
                continue
            a, b = DInfo.of(odf), DInfo.of(ndf)
            if (a.dump == b.dump) != (a.key == b.key):
                ctx.tie_failure("harness", "abstraction python ast -> model tree is not injective w.r.t. ast.dump", {"old": odf, "new": ndf}, case)
            (dsame if a.dump == b.dump else dchanged).append(nm)
            if a.value and b.value and a.value != b.value:
                ctx.observe("default_value", "computed value changed")
                if a.dump == b.dump:
                    ctx.tie_failure("harness", "same compiled default, different value", {"old": odf, "new": ndf}, case)
            elif a.value and b.value and a.dump != b.dump:
                ctx.observe("default_value", "other expression, same computed value")
        ctx.case(case, bool(broken) or bool(idiff) or bool(dchanged))
        ctx.observe("stream", stream)
        ctx.observe("place", where)
        if notes:
            ctx.observe("default_edit", notes[idx])
        ctx.observe("outcome", ("breaking" if broken else "compatible") + ("/reported" if idiff else "/silent"))
        ctx.observe("params", f"{len(o)}->{len(n)}")
        if wf != 1:
            ctx.tie_failure("harness", "generator produced a signature the model calls ill-formed", case)
        # (C) the model of the code vs the code
        if sorted(mdiff) != sorted(idiff):
            ctx.tie_failure("correspondence", "fdiff_m(model) vs find_breaking_changes", {"model": sorted(mdiff), "impl": sorted(idiff)}, case)
        # (O) the model's authority key vs ast.dump
        if sorted(ALL[i] for k, i in adiff if k == "default") != sorted(dchanged):
            ctx.tie_failure("oracle", "default changes by the model's ast key vs ast.dump", {"model": adiff, "ast.dump": sorted(dchanged)}, case)
        if sorted(ALL[i] for k, i in adiff if k == "default") != sorted(ALL[i] for k, i in tdiff if k == "default"):
            ctx.observe("keys", "text key coarser than compiled expression")
        for b in idiff:
            ctx.observe("breakage", b[0])
        rep = {(k, ALL[pi]) for k, pi in idiff if pi >= 0}
        mrep = {(k, ALL[pi]) for k, pi in mdiff}
        # ---- the property, evaluated on the implementation ----
        if o == n and idiff:
            ctx.property_failure(case, {"identical signatures reported": idiff})
        if broken and not idiff:
            # a known finding only when the faithful model of the code is silent too AND one of its gap predicates holds
            fid = None if mdiff else next((g for g, f in zip(GAP_IDS, gaps) if f), None)
            call = sorted(broken)[0]
            ctx.property_failure({**case, "call": fmt_call(call)}, {"reported": idiff, "broken_calls": len(broken)}, finding=fid)
            ctx.observe("unreported", fid or "UNEXPLAINED")
        for nm in dchanged:
            ctx.observe("default_change", "reported" if ("default", nm) in rep else "unreported")
            if ("default", nm) not in rep:
                fid = "C10-F8" if (ALL.index(nm) in f8names and ("default", nm) not in mrep) else None
                a, b = DInfo.of(od[nm][1][2]), DInfo.of(nd[nm][1][2])
                if a.value and b.value and a.value == b.value:
                    # closed arithmetic that CPython evaluates to the same value: the default VALUE did not change
                    # (the correspondence above still compares the implementation with its model on this pair)
                    ctx.observe("default_change", "unreported, same computed value")
                    continue
                ctx.property_failure({**case, "parameter": nm},
                                     {"changed default not reported": nm, "old_default": a.text, "new_default": b.text,
                                      "values": [a.value, b.value], "reported": idiff}, finding=fid)
        for nm in dsame:
            if ("default", nm) in rep:
                ctx.property_failure({**case, "parameter": nm}, {"default breakage although CPython compiles the same default": nm})
        for nm in od.keys() & nd.keys():
            (oi, (_, okd, od_)), (ni, (_, nkd, nd_)) = od[nm], nd[nm]
            if okd in ("PO", "PK") and nkd in ("PO", "PK") and oi != ni and ("moved", nm) not in rep:
                ctx.property_failure(case, {"moved positional parameter not reported": nm, "reported": idiff})
            if (od_ or okd in ("VP", "VK")) and not nd_ and nkd not in ("VP", "VK") and ("required", nm) not in rep:
                ctx.property_failure(case, {"optional parameter made required not reported": nm, "reported": idiff})
        # soundness of reports: each names a parameter that differs (presence, kind, position, default text, required-ness)
        for k, pi in idiff:
            if pi < 0:
                continue
            nm = ALL[pi]
            if od.get(nm) == nd.get(nm):
                ctx.property_failure(case, {"breakage names unchanged parameter": [k, nm]})
        # ---- justification of the model's reports: witness calls against the real binder ----
        fo, fn = cache.pyf(o), cache.pyf(n)
        for b, exc, wit in just:
            ctx.observe("justification", b[0] + ("/excused" if exc else "/witness"))
            if exc and b[0] in ("required", "added") and b[1] < len(ALL):
                # exactness (C10_required_excuse_exact): no call that old binds leaves the excused parameter unfilled in new
                for cn, ckw in cache.bindset(o):
                    try:
                        do_call(fn, cn, ckw)
                    except TypeError as e:
                        if "missing" in str(e) and f"'{ALL[b[1]]}'" in str(e):
                            ctx.tie_failure("oracle", "an excused required/added parameter is left unfilled by a call old binds",
                                            {"breakage": b, "call": fmt_call((cn, ckw)), "error": str(e)}, case)
                ctx.count("excuse_exactness_cases")
            if exc:
                continue
            if not wit:
                ctx.tie_failure("oracle", "no witness call for a non-excused report", {"breakage": b}, case)
                continue
            wn, wk = wit[0]
            fresh = max([ALL.index(p[0]) for p in o + n] + [-1]) + 1
            kw = tuple(ALL[k] if k < len(ALL) else f"fresh{k}" for k in wk)
            if not (binds_real(fo, wn, kw) and not binds_real(fn, wn, kw)):
                ctx.tie_failure("oracle", "witness call of a non-excused report does not separate old from new",
                                {"breakage": b, "call": fmt_call((wn, kw)), "fresh": fresh}, case)


def check_binder(ctx, cache, sgs, where="module"):
    """binds(model) vs real calls; through K().f / K.f of an instance / class method the interpreter adds one positional."""
    shift = 1 if where in ("instance", "class") or where in HIER or where.startswith("dataclass") else 0
    calls = [[n + shift, [ALL.index(k) for k in kw]] for n, kw in CALLS]
    res = ctx.model([["binds", enc_plain(s), calls] for s in sgs])
    for s, r in zip(sgs, res):
        real = [1 if c in cache.bindset(s, where) else 0 for c in CALLS]
        ctx.count("binder_cases", len(CALLS))
        ctx.observe("binder_place", where)
        if r != real:
            bad = [CALLS[i] for i in range(len(CALLS)) if r[i] != real[i]][:3]
            ctx.tie_failure("oracle", "binds(model) vs real CPython calls", {"signature": src_in(s, where), "calls": bad}, {"signature": src_in(s, where)})


# ------------------------------------------------------------------------------------------------ container edit histories
def gen_param(rng, kind, avoid, dgen=None):
    free = [x for x in NAMES if x not in avoid]
    if not free:
        return None
    d = 0
    if kind in ("PO", "PK", "KO") and rng.random() < 0.6:
        d = dgen(rng) if dgen else rng.choice(["1", "2"])
    return (rng.choice(free), kind, d)


def apply_ops(sig, ops):
    """The documented behaviour of the container on a plain list (mirror of Model/C10_hist.v:h_apply)."""
    s, errs = list(sig), []
    for op in ops:
        kind = op[0]
        names = [p[0] for p in s]
        if kind == "seti":
            if op[1] < len(s):
                s[op[1]] = op[2]
                errs.append(0)
            else:
                errs.append(1)
        elif kind == "setn":
            if op[1] in names:
                s[names.index(op[1])] = op[2]
            else:
                s.append(op[2])
            errs.append(0)
        elif kind == "deli":
            if op[1] < len(s):
                del s[op[1]]
                errs.append(0)
            else:
                errs.append(1)
        elif kind == "deln":
            if op[1] in names:
                del s[names.index(op[1])]
                errs.append(0)
            else:
                errs.append(1)
        else:
            if op[1][0] in names:
                errs.append(1)
            else:
                s.append(op[1])
                errs.append(0)
    return tuple(s), errs


def well_formed(sig):
    return normalise(sig) == tuple(sig) and len({p[0] for p in sig}) == len(sig)


def gen_history(rng, sig, nops):
    """Edits that keep the list a signature `def` accepts (so that CPython can be asked about the result)."""
    ops, cur = [], tuple(sig)
    for _ in range(nops):
        for _attempt in range(8):
            r = rng.random()
            names = [p[0] for p in cur]
            if cur and r < 0.5:      # replace (usually by another name, same kind)
                i = rng.randrange(len(cur))
                kind = cur[i][1] if rng.random() < 0.8 else rng.choice(KN)
                keep = rng.random() < 0.25
                p = (cur[i][0], kind, rng.choice([0, "1", "2"]) if kind in ("PO", "PK", "KO") else 0) if keep else gen_param(rng, kind, names)
                if p is None:
                    continue
                op = ("seti", i, p) if rng.random() < 0.5 else ("setn", cur[i][0], p)
            elif cur and r < 0.65:
                i = rng.randrange(len(cur))
                op = ("deli", i) if rng.random() < 0.5 else ("deln", cur[i][0])
            elif r < 0.75:
                op = rng.choice([("deli", len(cur) + rng.randint(0, 1)), ("deln", rng.choice(NAMES)), ("seti", len(cur), ("a", "PK", 0))])
            else:
                p = gen_param(rng, rng.choice(KN), names if rng.random() < 0.85 else [])
                if p is None:
                    continue
                op = ("add", p) if rng.random() < 0.6 else ("setn", p[0], p)
            nxt, _ = apply_ops(cur, [op])
            if well_formed(nxt):
                ops.append(op)
                cur = nxt
                break
    return ops


def enc_param(p):
    return enc((p,))[0]


def enc_op(op):
    if op[0] == "seti":
        return ["seti", op[1], enc_param(op[2])]
    if op[0] == "setn":
        return ["setn", ALL.index(op[1]), enc_param(op[2])]
    if op[0] == "deli":
        return ["deli", op[1]]
    if op[0] == "deln":
        return ["deln", ALL.index(op[1])]
    return ["add", enc_param(op[1])]


def real_param(cache, p):
    """A Parameter object as the visitor builds it (taken from a visited one-parameter function)."""
    import copy
    return copy.copy(cache.module((p,)).members["f"].parameters[0])


def run_real_history(cache, sig, ops):
    mod = cache.fresh_module(sig)
    params = mod.members["f"].parameters
    errs = []
    for op in ops:
        try:
            if op[0] == "seti":
                params[op[1]] = real_param(cache, op[2])
            elif op[0] == "setn":
                params[op[1]] = real_param(cache, op[2])
            elif op[0] == "deli":
                del params[op[1]]
            elif op[0] == "deln":
                del params[op[1]]
            else:
                params.add(real_param(cache, op[1]))
            errs.append(0)
        except (IndexError, KeyError, ValueError):
            errs.append(1)
    return mod, errs


def fmt_op(op):
    def ps(p):
        return src((p,))[len("def f("):-len("): pass")]
    if op[0] in ("seti", "setn"):
        return f"parameters[{op[1]!r}] = Parameter({ps(op[2])})"
    if op[0] in ("deli", "deln"):
        return f"del parameters[{op[1]!r}]"
    return f"parameters.add(Parameter({ps(op[1])}))"


KIND_OF = {"positional_only": "PO", "positional_or_keyword": "PK", "var_positional": "VP", "keyword_only": "KO", "var_keyword": "VK"}


def check_histories(ctx, cache, items):
    """items: (old signature, old edits, new signature, new edits).  The functions compared are the visited ones after
    the edits were applied through the container API; CPython is asked about the parameter lists that iteration shows."""
    res = ctx.model([["hdiff", enc(o), [enc_op(x) for x in ho], enc(n), [enc_op(x) for x in hn]] for o, ho, n, hn in items])
    for (o, ho, n, hn), r in zip(items, res):
        fo, eo = apply_ops(o, ho)
        fn, en = apply_ops(n, hn)
        case = {"old": src(o), "old_edits": [fmt_op(x) for x in ho], "new": src(n), "new_edits": [fmt_op(x) for x in hn],
                "old_after_edits": src(fo), "new_after_edits": src(fn)}
        if r == ["bad-input"]:
            ctx.tie_failure("harness", "model rejected the encoded history", case, case)
            continue
        mfo, meo, mfn, men, mdiff, gap, wf = r
        mo, reo = run_real_history(cache, o, ho)
        mn, ren = run_real_history(cache, n, hn)
        shape = lambda ps: [[ALL.index(p.name), KIND_OF[p.kind.name], 1 if p.default is not None else 0] for p in ps]  # noqa: E731
        pyshape = lambda sg: [[ALL.index(nm), k, 1 if (d or k in ("VP", "VK")) else 0] for nm, k, d in sg]  # noqa: E731
        ro, rn = shape(mo.members["f"].parameters), shape(mn.members["f"].parameters)
        ctx.case(case, True)
        ctx.observe("stream", "edit-histories")
        for x in ho + hn:
            ctx.observe("edit", x[0])
        ctx.observe("edit_errors", sum(eo) + sum(en))
        # (C) the container: iteration and raised errors vs the list model (Coq) vs its python mirror
        if [ro, reo, rn, ren] != [mfo, meo, mfn, men] or [mfo, meo, mfn, men] != [pyshape(fo), eo, pyshape(fn), en]:
            ctx.tie_failure("correspondence", "Parameters after the edit history: iteration/errors (impl) vs h_run (model)",
                            {"impl": [ro, reo, rn, ren], "model": [mfo, meo, mfn, men]}, case)
            continue
        if wf != 1:
            ctx.tie_failure("harness", "history generator left an ill-formed signature", case, case)
            continue
        # look-up by name must see the same list (this is what the diff relies on)
        for mod, final in ((mo, fo), (mn, fn)):
            params = mod.members["f"].parameters
            for nm in NAMES:
                present = nm in [p[0] for p in final]
                twin = None
                try:
                    twin = params[nm]
                except KeyError:
                    pass
                if (nm in params) != present or (twin is not None) != present or (present and not any(twin is q for q in params)):
                    ctx.tie_failure("oracle", "Parameters look-up by name disagrees with its own iteration after the edit history", {"name": nm, "listed": present, "in": nm in params}, case)
        raised = None
        try:
            idiff = impl_diff(cache, fo, fn, mods=(mo, mn))
        except Exception as e:  # noqa: BLE001
            idiff, raised = [], type(e).__name__ + ": " + str(e)[:120]
        broken = cache.bindset(fo) - cache.bindset(fn)
        ctx.observe("history_outcome", ("breaking" if broken else "compatible") + ("/raised" if raised else "/reported" if idiff else "/silent"))
        if raised:
            ctx.property_failure(case, {"find_breaking_changes raised instead of reporting": raised, "broken_calls": len(broken)})
            continue
        if sorted(mdiff) != sorted(idiff):
            ctx.tie_failure("correspondence", "fdiff_m(model) on the edited signatures vs find_breaking_changes on the edited objects",
                            {"model": sorted(mdiff), "impl": sorted(idiff)}, case)
        if broken and not idiff:
            fid = "C10-F2" if (not mdiff and gap) else None
            ctx.property_failure({**case, "call": fmt_call(sorted(broken)[0])}, {"reported": idiff, "broken_calls": len(broken)}, finding=fid)
        if fo == fn and idiff:
            ctx.property_failure(case, {"identical signatures reported": idiff})
        rep = {(k, ALL[pi]) for k, pi in idiff if pi >= 0}
        od = {p[0]: (i, p) for i, p in enumerate(fo)}
        nd = {p[0]: (i, p) for i, p in enumerate(fn)}
        for nm in od.keys() & nd.keys():
            (oi, (_, okd, od_)), (ni, (_, nkd, nd_)) = od[nm], nd[nm]
            if okd in ("PO", "PK") and nkd in ("PO", "PK") and oi != ni and ("moved", nm) not in rep:
                ctx.property_failure(case, {"moved positional parameter not reported": nm, "reported": idiff})
            if (od_ or okd in ("VP", "VK")) and not nd_ and nkd not in ("VP", "VK") and ("required", nm) not in rep:
                ctx.property_failure(case, {"optional parameter made required not reported": nm, "reported": idiff})
        for k, pi in idiff:
            if pi >= 0 and od.get(ALL[pi]) == nd.get(ALL[pi]):
                ctx.property_failure(case, {"breakage names unchanged parameter": [k, ALL[pi]]})


def check_dval(ctx, texts):
    infos = [DInfo.of(t) for t in texts]
    infos = [i for i in infos if i.value is not None]
    res = ctx.model([["dval", i.sexp] for i in infos])
    for i, r in zip(infos, res):
        ctx.count("dval_cases")
        want = [i.value[1]] if i.value[0] == "int" else []
        ctx.observe("dval", i.value[0])
        if r != want:
            ctx.tie_failure("oracle", "dval(model) vs eval()", {"default": i.text, "model": r, "python": list(i.value)}, {"default": i.text})


WITNESSES = {
    "C10-F2": ("def f(*a, **b): pass", "def f(c=1, *a, **b): pass"),
    "C10-F4": ("def f(a, /, **b): pass", "def f(a, **b): pass"),
    "C10-F5": ("def f(a, /, *, b): pass", "def f(b, *a): pass"),
    "C10-F6": ("def f(*c, **z): pass", "def f(z=2, *c, **a): pass"),
    "C10-F7": ("def f(*c, **b): pass", "def f(c=1, *a, **b): pass"),
}
F8_WITNESS = ('def f(a=f"{x:>3}"): pass', 'def f(a=f"{x:>4}"): pass')


def corpus_pairs():
    p = framework.VERIF / "corpus" / "C10" / "cases.json"
    if not p.exists():
        return []
    return [(parse_sig(c["old"]), parse_sig(c["new"])) for c in json.loads(p.read_text())["cases"]]


def explore(ctx):
    cache = Cache()
    for fid, (o, n) in WITNESSES.items():
        o, n = parse_sig(o), parse_sig(n)
        broken = cache.bindset(o) - cache.bindset(n)
        ctx.witness(fid, bool(broken) and not impl_diff(cache, o, n))
    o8, n8 = parse_sig(F8_WITNESS[0]), parse_sig(F8_WITNESS[1])
    ctx.witness("C10-F8", not impl_diff(cache, o8, n8))
    cp = corpus_pairs()
    if cp:
        check_pairs(ctx, cache, cp, "corpus")
    S2 = sigs(2)
    check_binder(ctx, cache, S2)
    if ctx.quick:
        # all identical pairs, all pairs from a seeded third of the space, the model-side sweep covers everything
        pairs = [(s, s) for s in S2]
        sub = ctx.rng.sample(S2, 150)
        pairs += [(o, n) for o in sub for n in sub if o != n]
    else:
        pairs = [(o, n) for o in S2 for n in S2]
        ctx.exhaustive = True
    for i in range(0, len(pairs), 20000):
        check_pairs(ctx, cache, pairs[i:i + 20000], "exhaustive<=2")
    # random larger signatures (pairs biased to be related: mutate one into the other)
    rp = []
    for _ in range(ctx.budget(6000, 60000)):
        o = random_sig(ctx.rng)
        n = random_sig(ctx.rng) if ctx.rng.random() < 0.4 else mutate(ctx.rng, o)
        rp.append((o, n))
    check_binder(ctx, cache, list({s for p in rp[:400] for s in p}))
    check_pairs(ctx, cache, rp, "random<=5")
    # methods: the same rules must hold for functions defined in a class body (instance, class and static methods),
    # with calls going through K().f / K.f
    S1 = [x for x in S2 if len(x) <= 1]
    for where in PLACES[1:]:
        sub = ctx.rng.sample(S2, ctx.budget(28, 120)) + S1
        check_binder(ctx, cache, sub, where)
        mp = [(o, n) for o in sub for n in sub]
        for _ in range(ctx.budget(500, 6000)):
            o = random_sig(ctx.rng)
            mp.append((o, random_sig(ctx.rng) if ctx.rng.random() < 0.3 else mutate(ctx.rng, o)))
        check_pairs(ctx, cache, mp, "methods", where=where)
    # functions a public class only inherits (private base, two levels, base swapped) and constructors synthesised for
    # dataclasses; loaded with griffe.load from files -- the dataclass pairs once independently and once the way
    # `griffe check` does it (one load_extensions() object for both loads)
    env = Loader(ctx.scratch)
    for where in HIER:
        sub = ctx.rng.sample(S2, ctx.budget(10, 40)) + S1
        check_binder(ctx, cache, sub, where)
        hp = [(o, n) for o in sub for n in sub]
        for _ in range(ctx.budget(150, 3000)):
            o = random_sig(ctx.rng)
            hp.append((o, random_sig(ctx.rng) if ctx.rng.random() < 0.3 else mutate(ctx.rng, o)))
        check_pairs(ctx, cache, hp, "inherited-methods", where=where, env=env)
    # facade package + private sibling / private module, re-exports in __init__ and in submodules, targets that are not
    # public where they are defined, methods inherited from a base living in the sibling; loaded the way `griffe check` loads
    for where in PKG:
        pp = [(o, n) for o in S1 for n in S1[:8]]
        for _ in range(ctx.budget(90, 1500)):
            o = random_sig(ctx.rng, maxn=4)
            pp.append((o, o if ctx.rng.random() < 0.05 else (random_sig(ctx.rng, maxn=4) if ctx.rng.random() < 0.3 else mutate(ctx.rng, o))))
        check_pairs(ctx, cache, pp, "facade-packages", where=where, env=env)
    dp = []
    for _ in range(ctx.budget(300, 4000)):
        o = random_fields(ctx.rng)
        n = o if ctx.rng.random() < 0.1 else (random_fields(ctx.rng) if ctx.rng.random() < 0.3 else as_fields(mutate(ctx.rng, o[1:])))
        dp.append((o, n))
    check_binder(ctx, cache, list({s for p in dp[:60] for s in p}), "dataclass")
    check_pairs(ctx, cache, dp, "dataclass-constructors", where="dataclass", env=env)
    check_pairs(ctx, cache, dp, "dataclass-constructors", where="dataclass-one-extensions-object", env=env)
    # functions whose parameters were edited through the container API before being compared
    hist = []
    for _ in range(ctx.budget(2500, 25000)):
        o = random_sig(ctx.rng, maxn=4)
        n = o if ctx.rng.random() < 0.6 else mutate(ctx.rng, o)
        ho = gen_history(ctx.rng, o, ctx.rng.choice([0, 0, 0, 1, 2]))
        hn = gen_history(ctx.rng, n, ctx.rng.choice([1, 1, 2, 3]))
        hist.append((o, ho, n, hn))
    check_histories(ctx, cache, hist)
    # expression defaults
    xp, notes = [], []
    for _ in range(ctx.budget(4000, 40000)):
        o = random_sig(ctx.rng, maxn=4, dgen=gen_default)
        n, note = mutate_x(ctx.rng, o)
        xp.append((o, n))
        notes.append(note)
    for i in range(0, len(xp), 10000):
        check_pairs(ctx, cache, xp[i:i + 10000], "expression-defaults", notes[i:i + 10000])
    texts = sorted({p[2] for s in itertools.chain.from_iterable(xp) for p in s if p[2]})
    for t in texts:
        for c in DInfo.of(t).classes:
            ctx.observe("default_node", c)
    check_dval(ctx, texts)
    # catalogue of default forms: every ordered pair (quick: a seeded sample plus all identical pairs)
    forms = [canon(f) for f in FORMS if canon(f) is not None and valid_default(canon(f))]
    fp = [(f, g) for f in forms for g in forms]
    if ctx.quick:
        fp = [(f, f) for f in forms] + ctx.rng.sample(fp, 2500)
    kind = ctx.rng.choice(["PO", "PK", "KO"])
    check_pairs(ctx, cache, [((("a", kind, f),), (("a", kind, g),)) for f, g in fp], "default-forms")
    check_dval(ctx, forms)
    if not ctx.quick:
        S3 = sigs(3)
        sub = ctx.rng.sample(S3, 400)
        check_pairs(ctx, cache, [(o, n) for o in sub for n in ctx.rng.sample(S3, 60)], "sampled<=3")
        ctx.cross_check_extraction([["xdiff", enc(o), enc(n)] for o, n in rp[:25] + xp[:25]])
    # model-side statement sweep over the whole <=2 space: pairs on which `statement_m` is false must be none
    Ks = [[ALL.index(k) for k in kw] for r in range(4) for kw in itertools.combinations(NAMES[:4], r)] + [[0, 0], [1, 3, 1]]
    bad = ctx.model([["sweep", [enc_plain(s) for s in S2], 3, Ks]])[0]
    ctx.count("statement_sweep_pairs", len(S2) ** 2)
    for i, j in bad[:5]:
        ctx.tie_failure("oracle", "statement_m(model) false on a pair: C10_complete_modulo_known would be refuted", {"old": src(S2[i]), "new": src(S2[j])})


def as_fields(sig):
    """`self` + dataclass fields: positional-or-keyword or keyword-only, integer defaults."""
    f = [(nm, "KO" if k in ("KO", "VK") else "PK", ("1" if d not in ("1", "2") else d) if (d or k in ("VP", "VK")) and k not in ("VP", "VK") else 0) for nm, k, d in sig if nm != "self"]
    return (("self", "PK", 0),) + normalise(f)


def random_fields(rng):
    n = rng.randint(0, 4)
    return as_fields([(x, rng.choice(["PK", "PK", "KO"]), rng.choice([0, "1", "2"])) for x in rng.sample(NAMES, n)])


def mutate(rng, sig, dgen=None):
    s = list(sig)
    pick = (lambda: dgen(rng)) if dgen else (lambda: rng.choice(["1", "2"]))
    for _ in range(rng.randint(1, 2)):
        r = rng.random()
        if s and r < 0.3:
            i = rng.randrange(len(s))
            nm, k, d = s[i]
            s[i] = (nm, rng.choice(KN), d)
        elif s and r < 0.45:
            s.pop(rng.randrange(len(s)))
        elif r < 0.65 and len(s) < 5:
            free = [x for x in NAMES if x not in [p[0] for p in s]]
            if free:
                s.insert(rng.randint(0, len(s)), (rng.choice(free), rng.choice(KN), rng.choice([0, pick()])))
        elif s and r < 0.8:
            i = rng.randrange(len(s))
            nm, k, d = s[i]
            s[i] = (nm, k, rng.choice([0, pick(), pick()]))
        elif len(s) > 1:
            i, j = rng.sample(range(len(s)), 2)
            s[i], s[j] = (s[j][0], s[i][1], s[i][2]), (s[i][0], s[j][1], s[j][2])
    return normalise(s, pick())


def mutate_x(rng, sig):
    """Expression-default stream: usually keep the shape and edit one default's expression."""
    s = sig
    note = []
    if rng.random() < 0.3:
        s = mutate(rng, s, gen_default)
        note.append("shape")
    with_d = [i for i, p in enumerate(s) if p[2]]
    if with_d and rng.random() < 0.85:
        s = list(s)
        for i in rng.sample(with_d, min(len(with_d), rng.choice([1, 1, 2]))):
            kind, new = mutate_default(rng, s[i][2])
            if new is None or not valid_default(new) or len(new) > 160:
                kind, new = "same", s[i][2]
            s[i] = (s[i][0], s[i][1], new)
            note.append(kind)
        s = tuple(s)
    return s, "+".join(note) or "none"


def search(ctx):
    """Implementation vs CPython only (no model): an unreported breaking pair outside the *python mirror* of the gap predicates,
    or a changed default that is not reported."""
    cache = Cache()
    try:
        collision, lossy = c10_tables.rules_info()
    except Exception:  # noqa: BLE001
        collision, lossy = False, True
    forms = [canon(f) for f in FORMS if canon(f) is not None and valid_default(canon(f))]
    rng = ctx.rng
    cands = [(f, g) for f in forms for g in forms if f != g]
    for _ in range(3000):
        t = gen_default(rng)
        k, u = mutate_default(rng, t)
        if u and valid_default(u):
            cands.append((t, u))
    for f, g in cands:
        a, b = DInfo.of(f), DInfo.of(g)
        if a.dump == b.dump:
            continue
        o, n = (("a", "PK", f),), (("a", "PK", g),)
        ctx.evaluations += 1
        try:
            d = impl_diff(cache, o, n)
        except Exception:  # noqa: BLE001
            continue
        if ["default", 0] not in d and not (lossy and py_f8(a.tree, b.tree)):
            ctx.property_failure({"old": src(o), "new": src(n), "parameter": "a"}, {"changed default not reported": "a", "values": [a.value, b.value], "reported": d})
            return
    S2 = sigs(2)
    pool = [(o, n) for o in S2 for n in S2]
    extra = []
    for _ in range(20000):
        o = random_sig(rng)
        extra.append((o, mutate(rng, o)))
    for o, n in itertools.chain(extra, pool):
        broken = cache.bindset(o) - cache.bindset(n)
        ctx.evaluations += 1
        d = impl_diff(cache, o, n)
        od = {p[0]: (i, p) for i, p in enumerate(o)}
        nd = {p[0]: (i, p) for i, p in enumerate(n)}
        rep = {(k, ALL[pi]) for k, pi in d if pi >= 0}
        for nm in od.keys() & nd.keys():
            (oi, (_, okd, od_)), (ni, (_, nkd, nd_)) = od[nm], nd[nm]
            if okd in ("PO", "PK") and nkd in ("PO", "PK") and oi != ni and ("moved", nm) not in rep:
                ctx.property_failure({"old": src(o), "new": src(n)}, {"moved positional parameter not reported": nm, "reported": d})
                return
            if (od_ or okd in ("VP", "VK")) and not nd_ and nkd not in ("VP", "VK") and ("required", nm) not in rep:
                ctx.property_failure({"old": src(o), "new": src(n)}, {"optional parameter made required not reported": nm, "reported": d})
                return
        if broken and not d and not py_known_gap(o, n, collision):
            call = sorted(broken)[0]
            ctx.property_failure({"old": src(o), "new": src(n), "call": fmt_call(call)}, {"reported": []})
            return
        if ctx.elapsed() > 900:
            return


def py_f8(a, b):
    """Python mirror of F8: the two default trees differ only in conversion / format spec of f-string replacement fields."""
    def strip(t):
        t = ast.parse(ast.unparse(t), mode="eval").body
        for n in ast.walk(t):
            if isinstance(n, ast.FormattedValue):
                n.conversion, n.format_spec = -1, None
        return ast.dump(t)
    return strip(a) == strip(b)


def py_known_gap(o, n, collision=False):
    """Python mirror of the gap predicates (Model/C10_diff.v), used only when the model cannot be run."""
    on = {p[0]: (i, p) for i, p in enumerate(o)}
    nn = {p[0]: (i, p) for i, p in enumerate(n)}
    ovk = any(p[1] == "VK" for p in o)
    ovp = any(p[1] == "VP" for p in o)
    npos = sum(1 for p in o if p[1] in ("PO", "PK"))
    more = lambda i: i < npos or ovp  # noqa: E731
    f2 = ovk and any(p[1] == "PK" and p[2] and nm not in on and more(i) for nm, (i, p) in nn.items())
    if collision:
        return f2
    f4 = ovk and any(p[1] == "PO" and nm in nn and nn[nm][1][1] == "PK" for nm, (i, p) in on.items())
    f5 = any(p[1] == "KO" and nm in nn and nn[nm][1][1] == "PK" and more(nn[nm][0]) for nm, (i, p) in on.items())
    f6 = any(p[1] == "VK" for p in n) and any(p[1] == "VK" and nm in nn and nn[nm][1][1] == "PK" and more(nn[nm][0]) for nm, (i, p) in on.items())
    f7 = any(p[1] == "VP" for p in n) and ovk and any(p[1] == "VP" and nm in nn and nn[nm][1][1] == "PK" and more(nn[nm][0]) for nm, (i, p) in on.items())
    return f2 or f4 or f5 or f6 or f7


def replay(ctx, data):
    case = data.get("failing_input") or {}
    if "old" not in case:
        print("replay names no input:", data.get("no_longer_checks"))
        return 0
    import griffe
    print(json.dumps(case, indent=1))
    cache = Cache()
    where = next((w for w in ["dataclass-one-extensions-object", "dataclass", "inherited-2", "inherited", "swapped-base"] + PLACES
                  if case.get("where", "module").startswith(w)), "module")
    so, sn = parse_sig(case.get("old_signature", case["old"])), parse_sig(case.get("new_signature", case["new"]))
    if "old_edits" in case:
        # re-apply the recorded container edits (they are printed as python statements over `parameters`)
        def edited(text, edits):
            mod = griffe.visit("m", filepath=None, code=text + "\n")
            parameters = mod.members["f"].parameters
            for e in edits:
                try:
                    if e.startswith("del "):
                        exec(e, {"parameters": parameters})  # noqa: S102
                    else:
                        inner = e[e.index("Parameter(") + len("Parameter("):-1]
                        if e.startswith("parameters.add"):
                            inner = inner[:-1]
                        p = real_param(cache, parse_sig(f"def f({inner}): pass")[0])
                        if e.startswith("parameters.add"):
                            parameters.add(p)
                        else:
                            key = eval(e[len("parameters["):e.index("] = ")])  # noqa: S307
                            parameters[key] = p
                except (IndexError, KeyError, ValueError) as err:
                    print("  edit raised:", e, "->", type(err).__name__)
            return mod
        o, n = edited(case["old"], case["old_edits"]), edited(case["new"], case["new_edits"])
        so, sn = parse_sig(case["old_after_edits"]), parse_sig(case["new_after_edits"])
        print("parameters after edits:", [p.name for p in o.members["f"].parameters], "->", [p.name for p in n.members["f"].parameters])
    elif "old_signature" in case:
        # inherited methods / dataclass constructors: loaded from files like in the check
        where = case["where"].split(":")[0]
        so, sn = parse_sig(case["old_signature"]), parse_sig(case["new_signature"])
        env = Loader(ctx.scratch / "replay")
        o, n = env.pair(so, sn, where)
    else:
        o = griffe.visit("m", filepath=None, code=case["old"] + "\n")
        n = griffe.visit("m", filepath=None, code=case["new"] + "\n")
    try:
        print("find_breaking_changes:", [(b.kind.value, getattr(b.old_value, "name", None) or getattr(b.new_value, "name", None)) for b in griffe.find_breaking_changes(o, n)])
    except Exception as e:  # noqa: BLE001
        print("find_breaking_changes raised", type(e).__name__, e)
    broken = sorted(cache.bindset(so, where) - cache.bindset(sn, where))
    print("calls bound by old and rejected by new:", [fmt_call(c) for c in broken[:5]])
    for (nm, k, d), (nm2, k2, d2) in itertools.product(so, sn):
        if nm == nm2 and d and d2 and DInfo.of(d).dump != DInfo.of(d2).dump:
            print(f"default of {nm}: {d!r} -> {d2!r}; computed: {DInfo.of(d).value} -> {DInfo.of(d2).value}")
    return 0
