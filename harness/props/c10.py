"""C10 — No call-breaking signature change goes unreported.

(T) Gen/C10_tables.v regenerated from diff.py (kind sets, `swallowed`, `incompatible_kind`)
(C) model fdiff            vs  griffe.find_breaking_changes on one-function modules produced by griffe.visit
(O) model binds            vs  real CPython calls of the compiled definition
direct: some call binds old and not new (real calls)  =>  find_breaking_changes reports something, unless the pair
        satisfies a known-gap predicate (F2/F4/F5/F6/F7 as evaluated by the extracted model).
"""
from __future__ import annotations

import itertools

from harness.translate import c10_tables

ID = "C10"
LEVEL_TEXT = ("Theorems over all signatures and all call shapes: identical signatures are silent; every reported parameter breakage names a "
              "parameter that really changed; moved positional / changed default / optional-made-required are always reported; completeness "
              "(a call bound by old and rejected by new => something is reported) for every failure class of CPython's binder, modulo five "
              "decidable known-gap predicates (findings F2, F4, F5, F6, F7) whose witnesses are proved by computation. The kind tables and the "
              "swallowed/incompatible-kind rules are regenerated from diff.py on every run; the model is tied to the code by an exhaustive "
              "<=2-parameter sweep (190k pairs) plus random pairs, and the binder model to real CPython calls.")
LEVEL_NOTE = ("Trusted: Coq kernel, extraction, translator harness/translate/c10_tables.py, the harness mapping source text -> model signature, CPython "
              "calls as binder authority. Return-annotation breakages and non-parameter breakages are outside this property. Keyword names in "
              "calls are distinct; calls use at most 3 positionals in the correspondence (the theorems have no such bound).")
MODEL = ("Model.C10_diff", "run_C10")
COQ_TARGETS = ["Proofs/C10_diff.vo", "Proofs/C10_complete.vo"]
RULE = ("exhaustive well-formed signatures over names {a,b,c}, 5 kinds, default in {none,1,2}, <=2 parameters (436 signatures, all ordered pairs) "
        "x 64 call shapes (0..3 positionals x subsets of {a,b,c,z} up to size 3); seeded random pairs of <=4-parameter signatures (thorough: also the "
        "<=3-parameter space sampled). A pair is non-trivial when some call binds old and not new, or fdiff is non-empty; distinct by (old,new) source text")
TRUSTED = ["translator harness/translate/c10_tables.py (whitelisted AST shapes of diff.py; fails closed)"]
ASSUMPTIONS = ["keyword names in a call are distinct (Python syntax guarantees it for explicit keywords)",
               "parameter defaults are compared as source text atoms, as find_breaking_changes does for statically loaded code"]
TRANSLATOR_NAME = "harness/translate/c10_tables.py"

NAMES = ["a", "b", "c", "z"]
KN = ["PO", "PK", "VP", "KO", "VK"]


def translate(ctx):
    c10_tables.translate(ctx)


def sigs(maxn, names=("a", "b", "c")):
    out = []
    for n in range(maxn + 1):
        for nm in itertools.permutations(names, n):
            for ks in itertools.product(range(5), repeat=n):
                if list(ks) != sorted(ks) or ks.count(2) > 1 or ks.count(4) > 1:
                    continue
                for ds in itertools.product([0, 1, 2], repeat=n):
                    ok = True
                    seen_def = False
                    for k, d in zip(ks, ds):
                        if k in (2, 4) and d:
                            ok = False
                        if k in (0, 1):
                            if d:
                                seen_def = True
                            elif seen_def:
                                ok = False
                    if ok:
                        out.append(tuple((x, KN[k], d) for x, k, d in zip(nm, ks, ds)))
    return out


def random_sig(rng, maxn=4):
    n = rng.randint(0, maxn)
    nm = rng.sample(NAMES, n)
    ks = sorted(rng.choice(range(5)) for _ in range(n))
    while ks.count(2) > 1:
        ks.remove(2)
    while ks.count(4) > 1:
        ks.remove(4)
    nm = nm[:len(ks)]
    out = []
    seen_def = False
    for x, k in zip(nm, ks):
        d = 0
        if k in (0, 1):
            d = rng.choice([0, 1, 2]) if not seen_def else rng.choice([1, 2])
            seen_def = seen_def or d > 0
        elif k == 3:
            d = rng.choice([0, 0, 1, 2])
        out.append((x, KN[k], d))
    return tuple(out)


def src(sig):
    parts = []
    for i, (nm, k, d) in enumerate(sig):
        s = nm
        if k == "VP":
            s = "*" + nm
        if k == "VK":
            s = "**" + nm
        if d:
            s += f"={d}"
        if k == "KO" and not any(q[1] == "VP" for q in sig) and not any(q[1] == "KO" for q in sig[:i]):
            parts.append("*")
        parts.append(s)
        if k == "PO" and (i + 1 == len(sig) or sig[i + 1][1] != "PO"):
            parts.append("/")
    return "def f(" + ", ".join(parts) + "): pass"


def enc(sig):
    return [[NAMES.index(nm), k, [0] if k in ("VP", "VK") else ([d] if d else [])] for nm, k, d in sig]


CALLS = [(n, kw) for n in range(4) for r in range(4) for kw in itertools.combinations(NAMES, r)]


class Cache:
    def __init__(self):
        self.mod = {}
        self.fn = {}
        self.bind = {}

    def module(self, sig):
        import griffe
        if sig not in self.mod:
            self.mod[sig] = griffe.visit("m", filepath=None, code=src(sig) + "\n")
        return self.mod[sig]

    def pyf(self, sig):
        if sig not in self.fn:
            ns = {}
            exec(compile(src(sig), "<c10>", "exec", dont_inherit=True), ns)
            self.fn[sig] = ns["f"]
        return self.fn[sig]

    def bindset(self, sig):
        if sig not in self.bind:
            f = self.pyf(sig)
            ok = set()
            for n, kw in CALLS:
                try:
                    f(*range(n), **{k: 0 for k in kw})
                    ok.add((n, kw))
                except TypeError:
                    pass
            self.bind[sig] = frozenset(ok)
        return self.bind[sig]


KINDMAP = {"PARAMETER_REMOVED": "removed", "PARAMETER_CHANGED_REQUIRED": "required", "PARAMETER_MOVED": "moved",
           "PARAMETER_CHANGED_KIND": "kind", "PARAMETER_CHANGED_DEFAULT": "default", "PARAMETER_ADDED_REQUIRED": "added"}


def impl_diff(cache, old, new):
    import griffe
    out = []
    for b in griffe.find_breaking_changes(cache.module(old), cache.module(new)):
        k = KINDMAP.get(b.kind.name)
        if k is None:
            out.append(["other:" + b.kind.value, -1])
            continue
        p = b.new_value if k == "added" else b.old_value
        out.append([k, NAMES.index(p.name)])
    return out


def check_pairs(ctx, cache, pairs, stream):
    res = ctx.model([["fdiff", enc(o), enc(n)] for o, n in pairs])
    for (o, n), r in zip(pairs, res):
        mdiff, gap, (f2, f4, f5, f6, f7), wf = r
        try:
            idiff = impl_diff(cache, o, n)
        except Exception as e:  # noqa: BLE001
            idiff = [["exception:" + type(e).__name__, -1]]
        broken = cache.bindset(o) - cache.bindset(n)
        ctx.case({"old": src(o), "new": src(n)}, bool(broken) or bool(idiff))
        ctx.observe("stream", stream)
        ctx.observe("outcome", ("breaking" if broken else "compatible") + ("/reported" if idiff else "/silent"))
        if wf != 1:
            ctx.tie_failure("harness", "generator produced a signature the model calls ill-formed", {"old": src(o), "new": src(n)})
        if sorted(mdiff) != sorted(idiff):
            ctx.tie_failure("correspondence", "fdiff(model) vs find_breaking_changes", {"model": mdiff, "impl": idiff}, {"old": src(o), "new": src(n)})
        for b in idiff:
            ctx.observe("breakage", b[0])
        if o == n and idiff:
            ctx.property_failure({"old": src(o), "new": src(n)}, {"identical signatures reported": idiff})
        if broken and not idiff:
            # a known finding only when the faithful model of the unchanged code is silent too AND a gap predicate holds
            fid = None if mdiff else ("C10-F2" if f2 else "C10-F4" if f4 else "C10-F5" if f5 else "C10-F6" if f6 else "C10-F7" if f7 else None)
            call = sorted(broken)[0]
            ctx.property_failure({"old": src(o), "new": src(n), "call": f"f({', '.join([str(i) for i in range(call[0])] + [k + '=0' for k in call[1]])})"},
                                 {"reported": idiff, "broken_calls": len(broken)}, finding=fid)
            ctx.observe("unreported", fid or "UNEXPLAINED")
        # the three always-reported changes, evaluated on the implementation
        rep = {(k, NAMES[pi]) for k, pi in idiff if pi >= 0}
        for nm in set(p[0] for p in o) & set(p[0] for p in n):
            (oi, (_, okd, od_)), (ni, (_, nkd, nd_)) = [(i, p) for i, p in enumerate(o) if p[0] == nm][0], [(i, p) for i, p in enumerate(n) if p[0] == nm][0]
            if okd in ("PO", "PK") and nkd in ("PO", "PK") and oi != ni and ("moved", nm) not in rep:
                ctx.property_failure({"old": src(o), "new": src(n)}, {"moved positional parameter not reported": nm, "reported": idiff})
            if okd not in ("VP", "VK") and nkd not in ("VP", "VK") and od_ and nd_ and od_ != nd_ and ("default", nm) not in rep:
                ctx.property_failure({"old": src(o), "new": src(n)}, {"changed default not reported": nm, "reported": idiff})
            if (od_ or okd in ("VP", "VK")) and not nd_ and nkd not in ("VP", "VK") and ("required", nm) not in rep:
                ctx.property_failure({"old": src(o), "new": src(n)}, {"optional parameter made required not reported": nm, "reported": idiff})
        # soundness of reports: each names a parameter that differs
        od = {p[0]: (i, p) for i, p in enumerate(o)}
        nd = {p[0]: (i, p) for i, p in enumerate(n)}
        for k, pi in idiff:
            if pi < 0:
                continue
            nm = NAMES[pi]
            if od.get(nm) == nd.get(nm):
                ctx.property_failure({"old": src(o), "new": src(n)}, {"breakage names unchanged parameter": [k, nm]})


def check_binder(ctx, cache, sgs):
    calls = [[n, [NAMES.index(k) for k in kw]] for n, kw in CALLS]
    res = ctx.model([["binds", enc(s), calls] for s in sgs])
    for s, r in zip(sgs, res):
        real = [1 if c in cache.bindset(s) else 0 for c in CALLS]
        ctx.count("binder_cases", len(CALLS))
        if r != real:
            bad = [CALLS[i] for i in range(len(CALLS)) if r[i] != real[i]][:3]
            ctx.tie_failure("oracle", "binds(model) vs real CPython calls", {"signature": src(s), "calls": bad}, {"signature": src(s)})


WITNESSES = {
    "C10-F2": ((("a", "VP", 0), ("b", "VK", 0)), (("c", "PK", 1), ("a", "VP", 0), ("b", "VK", 0))),
    "C10-F4": ((("a", "PO", 0), ("b", "VK", 0)), (("a", "PK", 0), ("b", "VK", 0))),
    "C10-F5": ((("a", "PO", 0), ("b", "KO", 0)), (("b", "PK", 0), ("a", "VP", 0))),
    "C10-F6": ((("c", "VP", 0), ("z", "VK", 0)), (("z", "PK", 2), ("c", "VP", 0), ("a", "VK", 0))),
    "C10-F7": ((("c", "VP", 0), ("b", "VK", 0)), (("c", "PK", 1), ("a", "VP", 0), ("b", "VK", 0))),
}


def explore(ctx):
    cache = Cache()
    for fid, (o, n) in WITNESSES.items():
        broken = cache.bindset(o) - cache.bindset(n)
        ctx.witness(fid, bool(broken) and not impl_diff(cache, o, n))
    S2 = sigs(2)
    check_binder(ctx, cache, S2)
    if ctx.quick:
        # all identical pairs, all pairs from a seeded third of the space, the model-side sweep covers everything
        pairs = [(s, s) for s in S2]
        sub = ctx.rng.sample(S2, 150)
        pairs += [(o, n) for o in sub for n in sub if o != n]
    else:
        pairs = [(o, n) for o in S2 for n in S2]
        ctx.exhaustive = True
    for i in range(0, len(pairs), 20000):
        check_pairs(ctx, cache, pairs[i:i + 20000], "exhaustive<=2")
    # random larger signatures (pairs biased to be related: mutate one into the other)
    rp = []
    for _ in range(ctx.budget(6000, 60000)):
        o = random_sig(ctx.rng)
        n = random_sig(ctx.rng) if ctx.rng.random() < 0.4 else mutate(ctx.rng, o)
        rp.append((o, n))
    check_binder(ctx, cache, list({s for p in rp[:400] for s in p}))
    check_pairs(ctx, cache, rp, "random<=4")
    if not ctx.quick:
        S3 = sigs(3)
        sub = ctx.rng.sample(S3, 400)
        check_pairs(ctx, cache, [(o, n) for o in sub for n in ctx.rng.sample(S3, 60)], "sampled<=3")
        ctx.cross_check_extraction([["fdiff", enc(o), enc(n)] for o, n in rp[:40]])
    # model-side statement sweep over the whole <=2 space: pairs on which `statement` is false must be none
    Ks = [[NAMES.index(k) for k in kw] for r in range(4) for kw in itertools.combinations(NAMES, r)]
    bad = ctx.model([["sweep", [enc(s) for s in S2], 3, Ks]])[0]
    ctx.count("statement_sweep_pairs", len(S2) ** 2)
    for i, j in bad[:5]:
        ctx.tie_failure("oracle", "statement(model) false on a pair: C10_complete_modulo_known would be refuted", {"old": src(S2[i]), "new": src(S2[j])})


def mutate(rng, sig):
    s = list(sig)
    for _ in range(rng.randint(1, 2)):
        r = rng.random()
        if s and r < 0.3:
            i = rng.randrange(len(s))
            nm, k, d = s[i]
            s[i] = (nm, rng.choice(KN), d)
        elif s and r < 0.45:
            s.pop(rng.randrange(len(s)))
        elif r < 0.65 and len(s) < 4:
            free = [x for x in NAMES if x not in [p[0] for p in s]]
            if free:
                s.insert(rng.randint(0, len(s)), (rng.choice(free), rng.choice(KN), rng.choice([0, 1])))
        elif s and r < 0.8:
            i = rng.randrange(len(s))
            nm, k, d = s[i]
            s[i] = (nm, k, rng.choice([0, 1, 2]))
        elif len(s) > 1:
            i, j = rng.sample(range(len(s)), 2)
            s[i], s[j] = (s[j][0], s[i][1], s[i][2]), (s[i][0], s[j][1], s[j][2])
    # normalise to a well-formed signature
    order = {k: i for i, k in enumerate(KN)}
    s.sort(key=lambda p: order[p[1]])
    out, seen_def, vp, vk = [], False, False, False
    for nm, k, d in s:
        if k == "VP":
            if vp:
                continue
            vp, d = True, 0
        if k == "VK":
            if vk:
                continue
            vk, d = True, 0
        if k in ("PO", "PK"):
            if seen_def and not d:
                d = 1
            seen_def = seen_def or bool(d)
        out.append((nm, k, d))
    return tuple(out)


def search(ctx):
    """Implementation vs CPython only (no model): any unreported breaking pair outside the *python mirror* of the gap predicates."""
    cache = Cache()
    S2 = sigs(2)
    for o in S2:
        for n in S2:
            broken = cache.bindset(o) - cache.bindset(n)
            if not broken:
                continue
            ctx.evaluations += 1
            if not impl_diff(cache, o, n) and not py_known_gap(o, n):
                call = sorted(broken)[0]
                ctx.property_failure({"old": src(o), "new": src(n), "call": repr(call)}, {"reported": []})
                return
        if ctx.elapsed() > 900:
            return


def py_known_gap(o, n):
    """Python mirror of F2/F4/F5 (Model/C10_diff.v), used only when the model cannot be run."""
    on = {p[0]: (i, p) for i, p in enumerate(o)}
    nn = {p[0]: (i, p) for i, p in enumerate(n)}
    ovk = any(p[1] == "VK" for p in o)
    ovp = any(p[1] == "VP" for p in o)
    npos = sum(1 for p in o if p[1] in ("PO", "PK"))
    more = lambda i: i < npos or ovp
    f2 = ovk and any(p[1] == "PK" and p[2] and nm not in on and more(i) for nm, (i, p) in nn.items())
    f4 = ovk and any(p[1] == "PO" and nm in nn and nn[nm][1][1] == "PK" for nm, (i, p) in on.items())
    f5 = any(p[1] == "KO" and nm in nn and nn[nm][1][1] == "PK" and more(nn[nm][0]) for nm, (i, p) in on.items())
    f6 = any(p[1] == "VK" for p in n) and any(p[1] == "VK" and nm in nn and nn[nm][1][1] == "PK" and more(nn[nm][0]) for nm, (i, p) in on.items())
    f7 = any(p[1] == "VP" for p in n) and ovk and any(p[1] == "VP" and nm in nn and nn[nm][1][1] == "PK" and more(nn[nm][0]) for nm, (i, p) in on.items())
    return f2 or f4 or f5 or f6 or f7


def replay(ctx, data):
    case = data.get("failing_input") or {}
    if "old" not in case:
        print("replay names no input:", data.get("no_longer_checks"))
        return 0
    import griffe
    o = griffe.visit("m", filepath=None, code=case["old"] + "\n")
    n = griffe.visit("m", filepath=None, code=case["new"] + "\n")
    print(case)
    print("find_breaking_changes:", [b.kind.value for b in griffe.find_breaking_changes(o, n)])
    return 0
