"""C15 — Static loading never executes analysed code; interpreter state is restored.

(T) Gen/C15_ladder.v regenerated from loader.py / importer.py / finder.py / cli.py: agent ladder, not-found guard, handler
    tables, re-entry gates, sys_path protocol, dynamic_import handlers; the statement order of _inspect_module and which
    files the loader reads itself; the `if submodules` recursion test; the skeletons of _load_submodules / _load_submodule
    / _load_package (shape checks); the finder's `search_paths or sys.path`; how allow_inspection / force_inspection /
    store_source / submodules travel from load, load_git, `griffe dump`, `griffe check` down to GriffeLoader; + a census of
    every execution-capable call site in src/_griffe.
(C) run_phases (Coq, extracted)  vs  the entry point (griffe.load, griffe.load_git on generated git repositories, griffe.main
    ["dump" | "check", ...]) run in a forked child of a clean subprocess on generated package trees whose every module logs
    its execution (and the sys.path it sees) to a sentinel file: result type, outcome of every load call with its nesting
    (request trees), agent per module and the order of agents, files read by the loader, loaded modules, execution
    multiset with seen sys.path, new sys.modules entries, sys.path identity / contents; finder search paths after
    __init__ and the options that reach GriffeLoader vs the generated tables.
    Also: the ladder exhaustively against GriffeLoader._load_module_path, the not-found guard against GriffeLoader.load,
    dynamic_import / inspect called directly (including the no-paths no-op branch of sys_path).
(O) model of CPython's import of a dotted name vs CPython (the execution log), exception ancestry vs real MROs.
direct: static loads (through every entry point) run nothing / import nothing / skip compiled modules / leave sys.path alone;
    inspected loads never die of SystemExit, surface ImportError / LoadingError, and restore sys.path (same object, same
    contents) -- also with search_paths=None in an interpreter with a normalised sys.path, and with stale search paths.
"""
from __future__ import annotations

import json
import os
import py_compile
import subprocess
import sys
import zipfile
from collections import Counter
from pathlib import Path

from harness.common.framework import REPO
from harness.translate import c15_ladder

ID = "C15"
LEVEL_TEXT = ("Theorems over every world (any package layout, any import-time behaviour of any module: raising, SystemExit, KeyboardInterrupt, a "
              "BaseException subclass, missing dependency, in-place mutation or rebinding of sys.path, code that calls back into Griffe at import time -- nested `with sys_path`, "
              "dynamic_import, inspect, load(force_inspection=True) -- as nested scopes; any exception while walking an imported module) "
              "and every tree of re-entrant loads (alias resolution / wildcard expansion re-entering load, re-entered packages with stubs re-entering again, "
              "to any depth), for a loader, for any history of calls on one loader (load, resolve_aliases, load again ...) and for every public entry point (load, load_git, `griffe dump` over several packages, the loads of `griffe check`): "
              "with inspection neither allowed nor forced no module body runs, the inspector is never reached, sys.modules and sys.path are untouched, "
              "compiled modules are skipped (submodule) or refused (top level); every entry point forwards allow/force unchanged; with inspection, sys.path "
              "is bound to the same list object with the same contents afterwards (the finder falls back on sys.path, so the only hypothesis is that "
              "search paths and sys.path are not both empty), SystemExit never escapes, and what can leave a load is classified exactly: ImportError / "
              "ModuleNotFoundError / LoadingError, the finder's own error, or a walk fault the handlers do not convert; the loader itself only reads "
              "source files. The decision tables the theorems are stated over (agent ladder, ModuleNotFoundError guard, handler lists, re-entry gates, "
              "try/finally of sys_path, BaseException handlers of dynamic_import, statement order and read test of _inspect_module, finder fallback, "
              "option forwarding of the entry points) are regenerated from loader.py / importer.py / finder.py / cli.py on every run, together with a "
              "census of all execution-capable call sites of src/_griffe; the state-transformer model is tied to the code by running the entry points in "
              "clean forked interpreters on generated sentinel packages and git repositories.")
LEVEL_NOTE = ("Partial by nature: that compile(..., PyCF_ONLY_AST) / ast.parse execute nothing is CPython's contract, covered only by the runtime "
              "observation (sentinel files, sys.modules) — the theorems cover Griffe's decision logic and the restore protocol. The finder (which files "
              "belong to a package, what find_spec inserts ahead of the search paths for a file path) is input to the model (C14's subject); the harness "
              "derives it from the generated layout. Which packages alias resolution asks for, and how the requests nest, is left arbitrary in the theorems "
              "(any request trees); the gates are tied separately. Faults while walking an imported module that the handlers do not convert (RuntimeError, "
              "KeyboardInterrupt, a BaseException subclass; OSError for a module without file) leave load unconverted: modelled as the code is, classified "
              "by C15_failures_classified; the property statement only asks for the restoration of sys.path, which holds for them. `griffe check` with "
              "inspection allowed is compared with the model too: the second load sees what the first one imported from its removed worktree (a cached regular "
              "package keeps a stale __path__, its uncached submodules cannot be imported; the harness renders this into the second phase's world from the "
              "observed sys.modules). A history on one loader is proved to be the same calls on fresh loaders (C15_history_refines_to_fresh_loaders). "
              "The options of a loader are parameters of the model: that no method assigns to them is checked by the translator and observed after every call "
              "of a history. Nested Griffe calls made by analysed code are modelled as nested sys_path scopes with effects on sys.path inside (what the nested "
              "import itself executes is not). os._exit, threads and code that keeps a reference to the original sys.path list object are outside the model. The restore theorems need "
              "search paths or sys.path to be non-empty (sys_path() without paths is a no-op; sharpness shown by an Example).")
MODEL = ("Model.C15_loader", "run_C15")
COQ_TARGETS = ["Proofs/C15_loader.vo", "Proofs/C15_restore.vo", "Proofs/C15_failures.vo", "Proofs/C15_reads.vo", "Proofs/C15_history.vo"]
RULE = ("systematic: a fixed package (top, a, sub/__init__, sub/k, compiled .so and .pyc submodules, stub) with one fault kind (8 import-time faults, "
        "syntax / encoding errors, 4 walk faults) x one placement x with/without sys.path effects, loaded under allow / force / both / neither, by name, "
        "by path, with search_paths=None in a normalised interpreter, with stale search paths, and (every fourth) through load_git / dump / check; random: "
        "package trees (regular / namespace / single module / stub-only / zipped / top-level .pyc / garbage .so / absent; .py .pyi .pyc .so submodules, "
        "sub-packages, in-package and separate stubs, syntax and encoding errors, getattr and walk hooks) with external packages (private sibling, alias "
        "target, wildcard target, chained, missing; re-entered packages with stubs and private siblings of their own, two levels deep), crossed with "
        "sampled loader options (allow x force x submodules x by name / relative path / Path / missing Path / hidden / stale search paths / default "
        "search paths x try_relative_path x find_stubs_package x resolve_aliases x resolve_external in {None,True,False} x resolve_implicit x packages "
        "importable from the running interpreter's own sys.path or not) and with the entry points load_git (name / path), dump (one or two packages, "
        "with -s or the default search paths), check (new tree / new reference) on a git repository made of the layout; process histories (the root package imported before the load: top level only / some modules / all; sentinels reset afterwards), "
        "packages with a lazy module-level __getattr__ importing their submodules (a submodule that fails after touching sys.path is imported a "
        "second time by the fallback attribute walk); histories on one loader (load root, resolve_aliases loading external packages, load two more packages "
        "of the layout preferring those with compiled submodules, resolve again; options looked at after every call); plus griffe.dynamic_import (with / "
        "without import paths) and griffe.inspect called directly. A case is non-trivial when some agent is chosen or an import is attempted; distinct "
        "by (tree, entry, options). Exhaustive: ladder over 2x2x2x9 suffixes, not-found guard over 2x2, gates over 3x2^4.")
TRUSTED = ["translator harness/translate/c15_ladder.py (whitelisted AST shapes of loader.py / importer.py / finder.py / cli.py and a call-site census; fails closed)",
           "the harness's rendering of a generated layout as finder output (module files of a package, stubs pairing, what find_spec inserts) and as import behaviours",
           "CPython: compile(..., PyCF_ONLY_AST) and ast.parse execute nothing (observed through sentinels, not proved)"]
ASSUMPTIONS = ["imported code reaches sys.path only through the name sys.path (mutating the current list or rebinding it), not through a saved reference "
               "to the list object that was bound before the load",
               "faults occur at import attempts, at attribute access in dynamic_import, or while walking an imported module",
               "search paths and sys.path are not both empty when a loader is built"]
TRANSLATOR_NAME = "harness/translate/c15_ladder.py"

FAULTS = ["RuntimeError", "SystemExit", "sysexit_call", "KeyboardInterrupt", "ModuleNotFoundError", "ImportError", "PanicException", "OSError"]
FAULT_EXN = {"RuntimeError": "RuntimeError", "SystemExit": "SystemExit", "sysexit_call": "SystemExit", "KeyboardInterrupt": "KeyboardInterrupt",
             "ModuleNotFoundError": "ModuleNotFoundError", "ImportError": "ImportError", "PanicException": "PanicException", "OSError": "OSError"}
PANIC = 'type("PanicException", (BaseException,), {})("c15 panic")'     # a BaseException subclass of the analysed code (pyo3)
RAISE = {"SystemExit": "SystemExit(7)", "RuntimeError": 'RuntimeError("c15 walk")', "KeyboardInterrupt": "KeyboardInterrupt()", "OSError": 'OSError("c15 os")',
         "ImportError": 'ImportError("c15 late import")', "PanicException": PANIC}
FAULT_CODE = {"RuntimeError": 'raise RuntimeError("c15 boom")', "SystemExit": "raise SystemExit(3)", "sysexit_call": "_s.exit(4)",
              "KeyboardInterrupt": "raise KeyboardInterrupt", "ModuleNotFoundError": '__import__("c15_missing_dependency_xyz")',
              "ImportError": 'raise ImportError("c15 import error")', "PanicException": "raise " + PANIC, "OSError": 'raise OSError("c15 os error")'}
WALK_FAULTS = ["SystemExit", "RuntimeError", "KeyboardInterrupt", "OSError", "ImportError", "PanicException"]
CONVERTED_WALK = ("SystemExit", "ImportError")    # walk faults the handlers of _inspect_module turn into ImportError (walk_convertible in Coq)
STDLIB = os.path.dirname(os.__file__)       # where the nested (successful) imports of the generated code come from
# ["scope", paths, inner effects, how]: the body calls back into Griffe at import time -- a nested `with sys_path(...)`
EFFECTS = [["ins0", "/c15x/e0"], ["app", "/c15x/e1"], ["clear"], ["rebind", ["/c15x/r0", "/c15x/r1"]], ["rebind", []], ["ins0", "/c15x/e2"],
           ["scope", ["/c15x/n0"], [["ins0", "/c15x/e3"], ["scope", ["/c15x/n1"], [["clear"]], "sys_path"], ["app", "/c15x/e4"]], "sys_path"],
           ["scope", ["/c15x/n2", "/c15x/n3"], [], "dynamic_import_fail"], ["scope", [STDLIB], [], "dynamic_import_ok"],
           ["scope", [STDLIB], [], "inspect_ok"], ["scope", [STDLIB], [], "load_ok"], ["scope", ["/c15x/n4"], [], "load_fail"],
           ["scope", [], [["ins0", "/c15x/e5"]], "sys_path"], ["scope", ["/c15x/n5"], [["rebind", ["/c15x/r2"]], ["ins0", "/c15x/e6"]], "sys_path"]]
SO_NAME = "{}.cpython-312-x86_64-linux-gnu.so"
SUFFIX = {"init": ".py", "py": ".py", "pyi": ".pyi", "initpyi": ".pyi", "pyc": ".pyc", "so": ".so"}
ALL_EXN = ["SystemExit", "KeyboardInterrupt", "RuntimeError", "AttributeError", "ImportError", "ModuleNotFoundError", "SyntaxError",
           "UnicodeDecodeError", "OSError", "FileNotFoundError", "LoadingError", "PanicException"]


def translate(ctx):
    c15_ladder.translate(ctx)


# ------------------------------------------------------------------------------------------------ generated layouts
def mk_mod(parts, kind, **kw):
    m = {"parts": list(parts), "kind": kind, "effects": [], "fault": None, "vfault": None, "walk": None, "hooks": {}, "lazy": False}
    m.update(kw)
    return m


def mk_pkg(name, sp, kind, mods, deps=(), guard=False):
    return {"name": name, "sp": sp, "kind": kind, "mods": mods, "deps": list(deps), "guard": guard}


def rand_body(rng, m, p_fault):
    if rng.random() < 0.3:
        m["effects"] = [rng.choice(EFFECTS) for _ in range(rng.randint(1, 3))]
    r = rng.random()
    if r < p_fault:
        m["fault"] = rng.choice(FAULTS)
    elif r < p_fault + 0.07:
        m["walk"] = "SystemExit" if rng.random() < 0.55 else rng.choice(WALK_FAULTS)
    if m["kind"] in ("init", "py", "pyi", "initpyi") and rng.random() < 0.07:
        m["vfault"] = "syntax" if rng.random() < 0.65 else "unicode"
        m["effects"], m["fault"], m["walk"] = [], None, None
    return m


def rand_children(rng, prefix, names, p_fault, kinds=("py", "py", "py", "py", "pyc", "so", "pyi", "py+pyi")):
    out = []
    for nm in names:
        k = rng.choice(kinds)
        if k == "py+pyi":
            out.append(rand_body(rng, mk_mod(prefix + [nm], "py"), p_fault))
            out.append(rand_body(rng, mk_mod(prefix + [nm], "pyi"), 0))
        elif k == "so":
            out.append(mk_mod(prefix + [nm], "so"))
        else:
            out.append(rand_body(rng, mk_mod(prefix + [nm], k), p_fault if k != "pyi" else 0))
    return out


def add_hooks(rng, mods):
    """a package module may answer getattr for the name of a failing child with an exception of its own,
    or import its submodules lazily through a module-level __getattr__ (PEP 562)"""
    by = {tuple(m["parts"]): m for m in mods if m["kind"] == "init"}
    for m in by.values():
        if rng.random() < 0.35:
            m["lazy"] = True
    for m in mods:
        par = by.get(tuple(m["parts"][:-1]))
        if par is not None and m is not par and (m["fault"] or m["kind"] == "so" or m["vfault"]) and rng.random() < 0.35:
            par["hooks"][m["parts"][-1]] = rng.choice(["SystemExit", "RuntimeError", "KeyboardInterrupt", "PanicException"])


def small_ext(rng, name, sp, deps=(), p_fault=0.2):
    mods = [rand_body(rng, mk_mod([name], "init"), p_fault)]
    mods += rand_children(rng, [name], rng.sample(["x", "y"], rng.randint(0, 2)), p_fault, kinds=("py", "py", "so", "pyc"))
    return mk_pkg(name, sp, "regular", mods, deps)


def gen_tree(rng, tid, p_fault=0.3):
    root = "p" + str(rng.randint(0, 9))
    r = rng.random()
    kind = ("regular" if r < 0.62 else "namespace" if r < 0.72 else "module" if r < 0.80 else "stubpkg" if r < 0.85 else
            "zip" if r < 0.89 else "pyc_top" if r < 0.93 else "so_top" if r < 0.96 else "absent")
    pkgs = []
    sps = ["sp0", "sp1", "sp2"]
    if kind == "regular":
        mods = [rand_body(rng, mk_mod([root], "init"), p_fault * 0.5)]
        mods += rand_children(rng, [root], rng.sample(["a", "b", "c", "d"], rng.randint(1, 3)), p_fault)
        if rng.random() < 0.65:
            mods.append(rand_body(rng, mk_mod([root, "sub"], "init"), p_fault * 0.6))
            mods += rand_children(rng, [root, "sub"], rng.sample(["k", "l", "m"], rng.randint(1, 2)), p_fault)
            if rng.random() < 0.25:
                mods.append(rand_body(rng, mk_mod([root, "sub", "deep"], "init"), p_fault * 0.5))
                mods += rand_children(rng, [root, "sub", "deep"], ["z"], p_fault)
        if rng.random() < 0.2:
            mods.append(rand_body(rng, mk_mod([root, "debugpy_like"], "py"), 0))
            mods[-1]["parts"][-1] = rng.choice(["debugpy_x", "_pydev_y"])
        if rng.random() < 0.2:
            mods.append(rand_body(rng, mk_mod([root], "initpyi"), 0))
        add_hooks(rng, mods)
    elif kind == "namespace":
        mods = rand_children(rng, [root], rng.sample(["a", "b", "c"], rng.randint(1, 3)), p_fault, kinds=("py", "py", "so", "pyc", "pyi"))
        if rng.random() < 0.6:
            mods.append(mk_mod([root, "sub"], "init"))
            mods += rand_children(rng, [root, "sub"], ["k"], p_fault)
    elif kind == "module":
        mods = [rand_body(rng, mk_mod([root], "py"), p_fault)]
        if rng.random() < 0.4:
            mods.append(rand_body(rng, mk_mod([root], "pyi"), 0))
    elif kind == "stubpkg":
        mods = [rand_body(rng, mk_mod([root], "initpyi"), 0)] + [rand_body(rng, mk_mod([root, n], "pyi"), 0) for n in rng.sample(["a", "b"], rng.randint(0, 2))]
    elif kind == "zip":
        mods = [rand_body(rng, mk_mod([root], "init"), p_fault * 0.6), rand_body(rng, mk_mod([root, "a"], "py"), p_fault)]
        for m in mods:
            m["vfault"] = None      # zipped sources are written as plain text
    elif kind == "pyc_top":
        mods = [rand_body(rng, mk_mod([root], "pyc"), p_fault)]
    elif kind == "so_top":
        mods = [mk_mod([root], "so")]
    else:
        mods = []
    has_stub_top = any(m["kind"] == "initpyi" and len(m["parts"]) == 1 for m in mods) and kind == "regular"
    stubs_only = kind in ("regular", "module") and rng.random() < 0.2
    deps = []
    if kind in ("regular", "module", "namespace") and kind != "namespace":
        names = []
        if rng.random() < 0.5:
            names.append("_" + root)
        if rng.random() < 0.6:
            names.append("ext1")
        if rng.random() < 0.4:
            names.append("ext2")
        if rng.random() < 0.25:
            names.append("ghost")
        for n in names:
            wild = n != "ghost" and rng.random() < (0.7 if n == "ext2" else 0.3)
            deps.append({"target": n, "wild": wild, "exported": rng.random() < 0.6})
            if n != "ghost":
                sub = []
                if n == "ext1" and not wild and rng.random() < 0.5:
                    sub = [{"target": "ext3", "wild": False, "exported": rng.random() < 0.7}]
                    pkgs.append(small_ext(rng, "ext3", "sp1"))
                e = small_ext(rng, n, "sp1", sub)
                if wild:   # wildcard sources expose plain values only and must load
                    e["deps"] = []
                if not wild and rng.random() < 0.4 and not any(m["fault"] or m["vfault"] for m in e["mods"] if len(m["parts"]) == 1):
                    # a re-entered package with stubs and a private sibling of its own: loads nested one level deeper
                    e["mods"].append(mk_mod([n], "initpyi"))
                    e["deps"] = e["deps"] + [{"target": "_" + n, "wild": True, "exported": True}]
                    inner = small_ext(rng, "_" + n, "sp1", p_fault=0.1)
                    for m in inner["mods"]:
                        if len(m["parts"]) == 1:      # the sibling's top module loads (a failed nested load is simply asked for again later)
                            m["vfault"], m["fault"], m["walk"] = None, None, None
                    if rng.random() < 0.5:       # ... and one level deeper still
                        inner["mods"].append(mk_mod(["_" + n], "initpyi"))
                        inner["deps"] = [{"target": "__" + n, "wild": True, "exported": True}]
                        pkgs.append(mk_pkg("__" + n, "sp1", "regular", [mk_mod(["__" + n], "init")] + rand_children(rng, ["__" + n], ["x"], 0.3, kinds=("py", "so", "pyc"))))
                    pkgs.append(inner)
                pkgs.append(e)
    guard = rng.random() < 0.5
    for e in pkgs:
        e["guard"] = guard
    pkgs.insert(0, mk_pkg(root, "sp0", kind, mods, deps, guard))
    if stubs_only:
        smods = [rand_body(rng, mk_mod([root], "initpyi"), 0)]
        if kind == "regular":
            smods += [rand_body(rng, mk_mod([root, n], "pyi"), 0) for n in rng.sample(["a", "b", "q"], rng.randint(0, 2))]
        pkgs.append(mk_pkg(root, "sp2", "stubsonly", smods))
    return {"tid": tid, "root": root, "sps": sps, "pkgs": pkgs}


def systematic_trees():
    """one fault kind x one placement (x sys.path effects) in a fixed package"""
    out = []
    k = 0
    for place in (["p"], ["p", "a"], ["p", "sub"], ["p", "sub", "k"]):
        for fault in FAULTS + ["syntax", "unicode", "walk:SystemExit", "walk:OSError", "walk:PanicException", "walk:ImportError"]:
            for eff in (False, True):
                if eff and fault in ("syntax", "unicode"):
                    continue
                mods = [mk_mod(["p"], "init"), mk_mod(["p", "a"], "py"), mk_mod(["p", "b"], "py"), mk_mod(["p", "c"], "so"), mk_mod(["p", "d"], "pyc"),
                        mk_mod(["p", "a"], "pyi"), mk_mod(["p", "sub"], "init"), mk_mod(["p", "sub", "k"], "py"), mk_mod(["p", "sub", "j"], "pyc")]
                for m in mods:
                    if m["parts"] == place and m["kind"] in ("init", "py"):
                        if fault in ("syntax", "unicode"):
                            m["vfault"] = fault
                        elif fault.startswith("walk:"):
                            m["walk"] = fault[5:]
                        else:
                            m["fault"] = fault
                        if eff:
                            m["effects"] = [EFFECTS[(k + i) % len(EFFECTS)] for i in range(2)]
                if k % 3 == 0:
                    for m in mods:
                        if m["kind"] == "init":
                            m["lazy"] = True
                ext = mk_pkg("ext1", "sp1", "regular", [mk_mod(["ext1"], "init"), mk_mod(["ext1", "x"], "pyc")])
                sib = mk_pkg("_p", "sp1", "regular", [mk_mod(["_p"], "init"), mk_mod(["_p", "y"], "so")])
                deps = [{"target": "ext1", "wild": False, "exported": True}, {"target": "_p", "wild": k % 2 == 0, "exported": True},
                        {"target": "ghost", "wild": False, "exported": k % 3 == 0}]
                out.append({"tid": f"s{k}", "root": "p", "sps": ["sp0", "sp1", "sp2"], "pkgs": [mk_pkg("p", "sp0", "regular", mods, deps, True), ext, sib]})
                k += 1
    return out


# ------------------------------------------------------------------------------------------------ writing a layout to disk
HEADER = ('_o = __import__("os"); _s = __import__("sys"); _j = __import__("json"); _b = __import__("builtins")\n'
          'with open(_o.environ["C15_LOG"], "a") as _f:\n'
          '    _f.write(_j.dumps({"exec": __name__, "path": list(_s.path)}) + "\\n")\n'
          '_b.__dict__.setdefault("_c15_hits", []).append(__name__)\n')


def effect_code(e, ind=""):
    if e[0] == "scope":
        paths, inner, how = list(e[1]), e[2], e[3]
        g = '__import__("griffe")'
        nested = lambda call: (f"{ind}_b._c15_nested = True\n{ind}try:\n{ind}    {call}\n{ind}except ImportError:\n{ind}    pass\n"       # noqa: E731
                               f"{ind}finally:\n{ind}    _b._c15_nested = False")
        if how == "sys_path":
            body = "\n".join(effect_code(x, ind + "    ") for x in inner) or f"{ind}    pass"
            return f"{ind}with {g}.sys_path(*{paths!r}):\n{body}"
        if how == "dynamic_import_fail":
            return nested(f'{g}.dynamic_import("c15_nested_missing_zz.attr", {paths!r})')
        if how == "dynamic_import_ok":
            return nested(f'{g}.dynamic_import("colorsys.rgb_to_hls", {paths!r})')
        if how == "inspect_ok":
            return nested(f'{g}.inspect("colorsys", import_paths={paths!r})')
        if how == "load_ok":
            return nested(f'{g}.load("colorsys", search_paths={paths!r}, force_inspection=True, try_relative_path=False)')
        return nested(f'{g}.load("c15_nested_missing_zz", search_paths={paths!r}, force_inspection=True, try_relative_path=False)')
    return ind + _effect_code(e)


def enc_effect(e):
    """effect -> the model's s-expression"""
    if e[0] in ("ins0", "app"):
        return [e[0], parts_of(e[1])]
    if e[0] == "rebind":
        return ["rebind", [parts_of(x) for x in e[1]]]
    if e[0] == "scope":
        return ["scope", [parts_of(x) for x in e[1]], [enc_effect(x) for x in e[2]]]
    return [e[0]]


def _effect_code(e):
    if e[0] == "ins0":
        return f"_s.path.insert(0, {e[1]!r})"
    if e[0] == "app":
        return f"_s.path.append({e[1]!r})"
    if e[0] == "clear":
        return "_s.path.clear()"
    return f"_s.path = {list(e[1])!r}"


def source_of(pkg, m):
    last = m["parts"][-1]
    is_top = len(m["parts"]) == 1
    lines = [HEADER, f"VALUE_{last} = 1", f"thing_{pkg['name']} = 2" if is_top else "", "def func(a, b=1):\n    return a", "class K:\n    attr = 1"]
    lines += [effect_code(e) for e in m["effects"]]
    if m["fault"]:
        lines.append(FAULT_CODE[m["fault"]])
    if m["walk"] or m["hooks"] or m.get("lazy"):
        g = ["def __getattr__(name):"]
        if m["walk"]:
            lines.append(f'def __dir__():\n    return ["VALUE_{last}", "c15boom"]')
            g.append('    if name == "c15boom":\n        raise ' + RAISE[m["walk"]])
        for part, x in sorted(m["hooks"].items()):
            g.append(f'    if name == {part!r}:\n        raise ' + RAISE[x])
        if m.get("lazy"):       # the package imports its submodules on first attribute access
            kids = sorted({x["parts"][-1] for x in pkg["mods"] if x["parts"][:-1] == m["parts"]})
            g.append(f'    if name in {tuple(kids)!r}:\n        return __import__("importlib").import_module(__name__ + "." + name)')
        g.append("    raise AttributeError(name)")
        lines.append("\n".join(g))
    exported = [f"VALUE_{last}"] + ([f"thing_{pkg['name']}"] if is_top else [])
    if is_top and m["kind"] in ("init", "py", "initpyi", "pyi") and pkg["deps"]:
        ind = ""
        if pkg["guard"]:
            lines.append("_c15_static = False\nif _c15_static:")
            ind = "    "
        for d in pkg["deps"]:
            if d["wild"]:
                lines.append(f"{ind}from {d['target']} import *")
            else:
                lines.append(f"{ind}from {d['target']} import thing_{d['target']}")
                if d["exported"]:
                    exported.append(f"thing_{d['target']}")
    lines.append(f"__all__ = {exported!r}")
    lines.append("del _o, _s, _j, _b, _f")
    text = "\n".join(x for x in lines if x) + "\n"
    if m["vfault"] == "syntax":
        text += "def (:\n"
    return text


def file_of(base: Path, pkg, m) -> Path:
    parts = list(m["parts"])
    d = base / pkg["sp"]
    if pkg["kind"] == "stubsonly":
        parts[0] = parts[0] + "-stubs"
    k = m["kind"]
    if k in ("init", "initpyi"):
        return d.joinpath(*parts) / ("__init__" + SUFFIX[k])
    name = SO_NAME.format(parts[-1]) if k == "so" else parts[-1] + SUFFIX[k]
    return d.joinpath(*parts[:-1]) / name


def write_tree(base: Path, tree):
    for sp in tree["sps"]:
        (base / sp).mkdir(parents=True, exist_ok=True)
    (base / "cwd").mkdir(exist_ok=True)
    for pkg in tree["pkgs"]:
        if pkg["kind"] == "zip":
            (base / pkg["sp"]).rmdir()
            with zipfile.ZipFile(base / pkg["sp"], "w") as z:
                for m in pkg["mods"]:
                    rel = "/".join(m["parts"]) + ("/__init__.py" if m["kind"] == "init" else ".py")
                    if m["kind"] != "init":
                        rel = "/".join(m["parts"][:-1] + [m["parts"][-1] + ".py"])
                    z.writestr(rel, source_of(pkg, m))
            continue
        if pkg["kind"] == "namespace":
            (base / pkg["sp"] / pkg["name"]).mkdir(parents=True, exist_ok=True)
        for m in pkg["mods"]:
            f = file_of(base, pkg, m)
            f.parent.mkdir(parents=True, exist_ok=True)
            if m["kind"] == "so":
                f.write_bytes(b"\x7fELFgarbage-not-a-shared-object")
            elif m["kind"] == "pyc":
                src = base / "pycsrc" / ("_".join(m["parts"]) + ".py")
                src.parent.mkdir(exist_ok=True)
                src.write_text(source_of(pkg, m))
                py_compile.compile(str(src), cfile=str(f), doraise=True)
            else:
                data = source_of(pkg, m).encode()
                if m["vfault"] == "unicode":
                    data += b'_c15_bad = "\xff\xfe\xfa"\n'     # (CPython tolerates undecodable bytes in a comment, not in a literal)
                f.write_bytes(data)


# ------------------------------------------------------------------------------------------------ layout -> model world
def parts_of(p) -> list:
    return list(Path(str(p)).parts)


def modfile(base, pkg, m):
    f = file_of(base, pkg, m)
    vf = [m["vfault"]] if m["vfault"] and m["kind"] in ("init", "py", "pyi", "initpyi") else []
    return [list(m["parts"]), parts_of(f.parent), f.stem, f.suffix, vf]


def sub_order(mods):
    return sorted(mods, key=lambda m: (len(m["parts"]), m["parts"], SUFFIX[m["kind"]]))


def found_of(base, tree, name, find_stubs, hidden=False):
    """what ModuleFinder.find_spec hands to the loader for top-level `name` (the harness's reading of finder.py)"""
    pk = [p for p in tree["pkgs"] if p["name"] == name and p["kind"] != "stubsonly"]
    st = [p for p in tree["pkgs"] if p["name"] == name and p["kind"] == "stubsonly"] if find_stubs else []
    pkg = pk[0] if pk else None
    if hidden:
        pkg = None

    def as_pkg(p, top_kinds):
        tops = [m for m in p["mods"] if len(m["parts"]) == 1 and m["kind"] in top_kinds]
        top = tops[0]
        rest = [m for m in p["mods"] if len(m["parts"]) > 1]
        return top, sub_order(rest)

    stubs = None
    if st:
        t, rest = as_pkg(st[0], ("initpyi",))
        stubs = [modfile(base, st[0], t), [modfile(base, st[0], m) for m in rest]]
    if pkg is None or pkg["kind"] in ("zip", "pyc_top", "so_top", "absent"):
        if stubs is not None:
            return ["pkg", stubs[0], stubs[1], []]
        if pkg is not None and pkg["kind"] == "zip" and not hidden:
            zp = base / pkg["sp"]
            top = [list(pkg["mods"][0]["parts"]), parts_of(zp), name, "", []]
            return ["missing", [[top, []]]]
        return ["missing", []]
    if pkg["kind"] == "namespace":
        return ["ns", [name], [modfile(base, pkg, m) for m in sub_order(pkg["mods"])]]
    if pkg["kind"] == "stubpkg":
        t, rest = as_pkg(pkg, ("initpyi",))
        return ["pkg", modfile(base, pkg, t), [modfile(base, pkg, m) for m in rest], []]
    if pkg["kind"] == "module":
        t = [m for m in pkg["mods"] if m["kind"] == "py"][0]
        inst = [m for m in pkg["mods"] if m["kind"] == "pyi"]
        if stubs is None and inst:
            stubs = [modfile(base, pkg, inst[0]), []]
        return ["pkg", modfile(base, pkg, t), [], [stubs] if stubs else []]
    t, rest = as_pkg(pkg, ("init",))
    if t["vfault"] == "unicode":
        return ["undecodable"]     # find_package reads __init__.py to tell a pkg_resources-style namespace package
    inst = [m for m in pkg["mods"] if len(m["parts"]) == 1 and m["kind"] == "initpyi"]
    if stubs is None and inst:
        stubs = [modfile(base, pkg, inst[0]), []]
    return ["pkg", modfile(base, pkg, t), [modfile(base, pkg, m) for m in rest], [stubs] if stubs else []]


def reorder(found, order):
    """siblings of equal depth are loaded in directory-listing order: take it from the observed agent sequence"""
    def pos(mf, after=-1):
        return next((i for i in order.get((".".join(mf[0]), mf[3]), []) if i > after), 10 ** 6)

    def key(mf):      # os.walk order as observed (a package's own files come before its sub-directories); never-handled files last
        return (pos(mf), len(mf[0]), mf[0], mf[3])
    if found[0] == "pkg":
        found[2] = sorted(found[2], key=key)
        if found[3]:        # the stubs package is loaded after the package itself: its files are the later occurrences
            top_at = max(order.get((".".join(found[3][0][0][0]), found[3][0][0][3]), [-1]))
            found[3][0][1] = sorted(found[3][0][1], key=lambda mf: (pos(mf, top_at), len(mf[0]), mf[0], mf[3]))
    elif found[0] == "ns":
        found[2] = sorted(found[2], key=key)
    return found


def world_of(base, tree, case, order=None):
    finds, behs, attrs, walks = [], [], [], []
    names = sorted({p["name"] for p in tree["pkgs"]})
    for n in names:
        is_root = n == tree["root"]
        if case["by"] == "stale_search":       # nothing can be found in search paths that do not exist
            finds.append([n, ["missing", []]])
            continue
        finds.append([n, reorder(found_of(base, tree, n, case["opts"]["find_stubs_package"] and is_root, hidden=is_root and case["by"] == "hidden"), order or {})])
    if case["by"] == "missing_path":
        finds.append(["<missing-path>", ["pathmissing"]])
    for pkg in tree["pkgs"]:
        if pkg["kind"] == "stubsonly":
            continue
        home = parts_of(base / pkg["sp"])
        if pkg["kind"] in ("namespace", "stubpkg"):
            behs.append([[pkg["name"]], [home], False, [], []])
        for m in pkg["mods"]:
            if m["kind"] in ("pyi", "initpyi"):
                continue
            h = [home] if len(m["parts"]) == 1 else []
            if m["kind"] == "so":
                behs.append([list(m["parts"]), h, False, [], ["ImportError"]])
            elif m["vfault"]:
                behs.append([list(m["parts"]), h, False, [], ["SyntaxError"]])
            else:
                effs = [enc_effect(e) for e in m["effects"]]
                behs.append([list(m["parts"]), h, True, effs, [FAULT_EXN[m["fault"]]] if m["fault"] else []])
            if m["walk"]:
                walks.append([list(m["parts"]), m["walk"]])
            for part, x in sorted(m["hooks"].items()):
                attrs.append([list(m["parts"]), part, [x]])
    if case.get("builtin"):
        behs.append([[case["builtin"]], [], False, [], []])
    lazy = [list(m["parts"]) for p in tree["pkgs"] if p["kind"] != "stubsonly" for m in p["mods"] if m["kind"] == "init" and m.get("lazy")]
    return [finds, behs, attrs, walks, lazy]


# ------------------------------------------------------------------------------------------------ cases
def static_opts(rng):
    ra = rng.random() < 0.7
    return {"allow_inspection": False, "force_inspection": False, "submodules": rng.random() < 0.85, "try_relative_path": rng.random() < 0.5,
            "find_stubs_package": rng.random() < 0.4, "resolve_aliases": ra, "resolve_external": rng.choice([None, True, False, True]),
            "resolve_implicit": rng.random() < 0.5}


def make_case(base, tree, cid, opts, by):
    root = tree["root"]
    rootpkg = tree["pkgs"][0]
    sproot = str(base / rootpkg["sp"])
    search = [str(base / sp) for sp in tree["sps"]]
    cwd = str(base / "cwd")
    objspec, as_path = root, False
    if rootpkg["kind"] not in ("regular", "namespace", "stubpkg") and by in ("relpath", "path"):
        by = "name"
    if by == "relpath":
        cwd = sproot
        opts = dict(opts, try_relative_path=True)
        if cid % 2:
            search = [s for s in search if s != sproot]
    elif by == "path":
        objspec, as_path = str(Path(sproot) / root), True
        if cid % 2:
            search = [s for s in search if s != sproot]
    elif by == "missing_path":
        objspec, as_path = str(Path(sproot) / "c15_nope_xyz"), True
    elif by == "hidden":
        search = [s for s in search if s != sproot]
        opts = dict(opts, try_relative_path=False)
    elif by == "stale_search":      # every configured search path is missing (stale configuration, relative `src` from the wrong directory)
        search = [str(base / "stale0"), str(base / "stale1" / "src")]
        opts = dict(opts, try_relative_path=False)
    elif by == "default_search":    # search_paths=None: the finder takes sys.path itself
        search = None
    eff_search = list(search) if search is not None else None
    if by in ("relpath", "path") and sproot not in search:
        eff_search = [sproot] + search
    return {"id": cid, "tid": tree["tid"], "kind": "load", "by": by, "search": search, "eff_search": eff_search, "cwd": cwd, "objspec": objspec,
            "syspath_add": [str(base / sp) for sp in tree["sps"]] if cid % 3 != 0 or by in ("stale_search", "default_search") else [],
            "syspath_mode": "normalised" if by == "default_search" else "",
            "as_path": as_path, "opts": opts, "log": str(base / f"log-{cid}.txt"), "names": sorted({p["name"] for p in tree["pkgs"]} | {"ghost"})}


def key_of(case):
    return {"tid": case["tid"], "by": case["by"], "opts": case["opts"], "kind": case["kind"], "extra": case.get("extra")}


def fail_key(tree, case):
    """everything replay() needs to rebuild the layout and rerun the case"""
    return dict(key_of(case), replay={"tree": tree, "case": case})


# ------------------------------------------------------------------------------------------------ the runner (clean subprocess, one fork per case)
RUNNER = r'''
import json, os, select, signal, sys, time, traceback

def run_case(c, griffe, L, I, Path):
    import builtins
    builtins._c15_nested = False
    os.chdir(c["cwd"])
    os.environ["C15_LOG"] = c["log"]
    open(c["log"], "w").close()
    if "syspath" in c:
        sys.path[:] = c["syspath"]
    if c.get("syspath_mode") == "normalised":
        # what `python script.py` usually has: absolute, resolved, unique entries and no directory with .pth files
        keep = []
        for p in sys.path:
            rp = os.path.realpath(p) if p else os.getcwd()
            if rp in keep or "site-packages" in rp or "dist-packages" in rp:
                continue
            if os.path.isdir(rp) and any(x.endswith(".pth") for x in os.listdir(rp)):
                continue
            keep.append(rp)
        sys.path[:] = keep
    if c.get("syspath_add"):        # the usual situation: the analysed packages are importable from the running interpreter
        sys.path[:0] = c["syspath_add"]
    if c.get("preimport"):
        # process history: the analysed package (all of it, part of it, its top level only) was imported before the load
        import importlib
        keep_obj, keep = sys.path, list(sys.path)
        for nm in c["preimport"]:
            try:
                importlib.import_module(nm)
            except BaseException:  # noqa: BLE001
                pass
        sys.path = keep_obj
        sys.path[:] = keep
        open(c["log"], "w").close()
        builtins._c15_hits = []
    orig = sys.path
    before = list(orig)
    mods_before = set(sys.modules)
    premods = sorted(m for m in sys.modules if m.split(".")[0] in tuple(c["names"]))
    events, loads, holder, loaders, reads, current = [], [], {}, [], [], [None]
    GL = L.GriffeLoader
    def dotted(name, parent):
        return (parent.path + "." if parent is not None else "") + name
    ov, oi, oc, ol, oinit = GL._visit_module, GL._inspect_module, GL._create_module, GL.load, GL.__init__
    def within(key, path, f):
        old = current[0]
        current[0] = (key, str(path))
        try:
            return f()
        finally:
            current[0] = old
    def nested():       # Griffe called by the analysed code itself at import time: not part of the observed load
        return getattr(builtins, "_c15_nested", False)
    def v(self, module_name, module_path, parent=None):
        if nested():
            return ov(self, module_name, module_path, parent)
        events.append(["visit", dotted(module_name, parent), module_path.suffix])
        return within([dotted(module_name, parent), module_path.suffix], module_path, lambda: ov(self, module_name, module_path, parent))
    def i(self, module_name, filepath=None, parent=None):
        if nested():
            return oi(self, module_name, filepath, parent)
        sfx = filepath.suffix if filepath is not None else ""
        events.append(["inspect", dotted(module_name, parent), sfx])
        return within([dotted(module_name, parent), sfx], filepath, lambda: oi(self, module_name, filepath, parent))
    ort = Path.read_text
    def rt(self, *a, **kw):
        if current[0] is not None and not nested() and str(self) == current[0][1]:      # the loader reads the file of the module it is working on
            reads.append(current[0][0])
        return ort(self, *a, **kw)
    Path.read_text = rt
    def cr(self, module_name, module_path):
        if not nested():
            events.append(["create", module_name, ""])
        return oc(self, module_name, module_path)
    depth = [0]
    step = [0]
    def ld(self, objspec=None, /, **kw):
        if nested():
            return ol(self, objspec, **kw)
        rec = [str(objspec), kw.get("try_relative_path", True), None, depth[0], max(0, len(loaders) - 1), kw.get("submodules", True), kw.get("find_stubs_package", False), step[0]]
        loads.append(rec)
        depth[0] += 1
        try:
            r = ol(self, objspec, **kw); rec[2] = "ok"; return r
        except BaseException as e:
            rec[2] = type(e).__name__; raise
        finally:
            depth[0] -= 1
    def init(self, *a, **kw):
        oinit(self, *a, **kw)
        if nested():
            return
        holder.setdefault("loader", self)
        sp = kw.get("search_paths")
        loaders.append({"obj": self, "allow": self.allow_inspection, "force": self.force_inspection, "store": self.store_source,
                        "given": None if sp is None else [str(x) for x in sp], "finder": [str(x) for x in self.finder.search_paths],
                        "events_at": len(events), "loads_at": len(loads), "syspath_at": list(sys.path),
                        "mods_at": sorted(m for m in sys.modules if m.split(".")[0] in tuple(c["names"]))})
    GL._visit_module, GL._inspect_module, GL._create_module, GL.load, GL.__init__ = v, i, cr, ld, init
    res = {}
    try:
        if c["kind"] == "load":
            objspec = Path(c["objspec"]) if c["as_path"] else c["objspec"]
            griffe.load(objspec, search_paths=c["search"], **c["opts"])
        elif c["kind"] == "history":
            # several calls on ONE loader; the caller swallows ordinary exceptions between calls; the options are looked at after each call
            hl = GL(search_paths=c["search"], allow_inspection=c["opts"]["allow_inspection"], force_inspection=c["opts"]["force_inspection"])
            res["steps"] = []
            for k, st in enumerate(c["steps"]):
                step[0] = k
                try:
                    if st[0] == "load":
                        hl.load(st[1], submodules=st[2], try_relative_path=False)
                    else:
                        hl.resolve_aliases(implicit=st[1], external=st[2])
                    oc_ = "ok"
                except BaseException as e:  # noqa: BLE001
                    oc_ = type(e).__name__
                    if not isinstance(e, Exception):      # not swallowed by the caller: the history ends here
                        res["steps"].append([oc_, bool(hl.allow_inspection), bool(hl.force_inspection), bool(hl.store_source)])
                        raise
                res["steps"].append([oc_, bool(hl.allow_inspection), bool(hl.force_inspection), bool(hl.store_source)])
        elif c["kind"] == "load_git":
            objspec = Path(c["objspec"]) if c["as_path"] else c["objspec"]
            griffe.load_git(objspec, ref=c["ref"], repo=c["repo"], search_paths=c["search_rel"], **c["call_opts"])
        elif c["kind"] == "cli":
            with open(os.devnull, "w") as null:
                saved = sys.stdout, sys.stderr
                sys.stdout = sys.stderr = null
                try:
                    res["value"] = griffe.main(list(c["argv"]))
                finally:
                    sys.stdout, sys.stderr = saved
        elif c["kind"] == "dynamic_import":
            val = griffe.dynamic_import(c["objspec"], c["search"] or None)
            res["value"] = getattr(val, "__name__", repr(type(val)))
        elif c["kind"] == "inspect":
            griffe.inspect(c["objspec"], filepath=Path(c["filepath"]) if c.get("filepath") else None, import_paths=[Path(p) for p in c["search"]])   # Path objects, as the loader passes them
        res["result"] = "ok"
    except BaseException as e:
        res["result"] = type(e).__name__
        res["family"] = ("import" if isinstance(e, ImportError) else "loading" if isinstance(e, griffe.LoadingError) else
                         "filenotfound" if isinstance(e, FileNotFoundError) else "exit" if isinstance(e, (SystemExit, KeyboardInterrupt)) else "other")
        res["message"] = str(e)[:300]
    Path.read_text = ort
    res["before"] = before
    res["premods"] = premods
    res["path_same_object"] = sys.path is orig
    res["path_same_contents"] = list(sys.path) == before
    res["orig_contents_same"] = list(orig) == before
    res["orig_now"] = list(orig) if list(orig) != before else None
    names = tuple(c["names"])
    res["newmods"] = sorted(m for m in set(sys.modules) - mods_before if m.split(".")[0] in names or m.startswith("c15_"))
    res["hits"] = list(getattr(builtins, "_c15_hits", []))
    res["execs"] = [json.loads(l) for l in open(c["log"])]
    res["events"] = events
    res["loads"] = loads
    res["reads"] = reads
    loaded = []
    def walk(m, acc):
        acc.append(m.path)
        for sub in m.members.values():
            if not sub.is_alias and sub.is_module:
                walk(sub, acc)
    for rec in loaders:
        acc = []
        for m in rec.pop("obj").modules_collection.members.values():
            walk(m, acc)
        rec["loaded"] = sorted(acc)
        loaded += acc
    res["loaders"] = loaders
    res["loaded"] = sorted(set(loaded))
    return res

def main():
    cases_file, out_file = sys.argv[1], sys.argv[2]
    import griffe, _griffe, _griffe.loader as L, _griffe.importer as I
    from pathlib import Path
    src = os.environ["C15_GRIFFE_SRC"]
    for m in (griffe, _griffe, L, I):
        assert os.path.realpath(m.__file__).startswith(src), (m.__file__, src)
    import logging
    logging.disable(logging.CRITICAL)
    mut = os.environ.get("C15_MUTANT")
    if mut:
        exec(compile(open(mut).read(), mut, "exec"), {"griffe": griffe, "L": L, "I": I})
    cases = [json.loads(l) for l in open(cases_file)]
    with open(out_file, "w") as out:
        for c in cases:
            r, w = os.pipe()
            pid = os.fork()
            if pid == 0:
                os.close(r)
                res = {"id": c["id"]}
                try:
                    res.update(run_case(c, griffe, L, I, Path))
                except BaseException as e:
                    res["harness_error"] = "".join(traceback.format_exception(type(e), e, e.__traceback__))[-1500:]
                try:
                    data = json.dumps(res).encode()
                    while data:
                        n = os.write(w, data); data = data[n:]
                finally:
                    os._exit(0)
            os.close(w)
            t_start = time.time()
            buf, deadline, timed_out = b"", time.time() + 30, False
            while True:
                left = deadline - time.time()
                if left <= 0:
                    timed_out = True; os.kill(pid, signal.SIGKILL); break
                rd, _, _ = select.select([r], [], [], left)
                if rd:
                    chunk = os.read(r, 1 << 16)
                    if not chunk:
                        break
                    buf += chunk
            os.close(r)
            _, status = os.waitpid(pid, 0)
            if buf and not timed_out:
                res = json.loads(buf)
            else:
                res = {"id": c["id"], "died": status, "timed_out": timed_out}
            res["wall"] = round(time.time() - t_start, 3)
            out.write(json.dumps(res) + "\n")
            out.flush()

main()
'''


def run_cases(ctx, cases, tag):
    """run the cases in parallel clean subprocesses; returns {id: observation}"""
    if not cases:
        return {}
    runner = ctx.scratch / "c15_runner.py"
    runner.write_text(RUNNER)
    n = min(12, max(1, len(cases) // 8))
    # the cases of one layout stay in one process: they share a git repository (worktree add / remove take its locks)
    tids = {}
    for c in cases:
        tids.setdefault(c.get("tid"), len(tids))
    shards = [[c for c in cases if tids[c.get("tid")] % n == i] for i in range(n)]
    shards = [sh for sh in shards if sh]
    tmp = ctx.scratch / "tmp"          # load_git checks its worktrees out under the temporary directory
    tmp.mkdir(exist_ok=True)
    env = {"PATH": os.environ.get("PATH", ""), "PYTHONPATH": str(REPO / "src"), "PYTHONHASHSEED": "0", "PYTHONDONTWRITEBYTECODE": "1",
           "C15_GRIFFE_SRC": os.path.realpath(REPO / "src"), "HOME": os.environ.get("HOME", "/root"), "TMPDIR": str(tmp),
           "GIT_CONFIG_GLOBAL": os.devnull, "GIT_CONFIG_SYSTEM": os.devnull}
    if os.environ.get("C15_MUTANT"):
        env["C15_MUTANT"] = os.environ["C15_MUTANT"]
    procs = []
    for k, sh in enumerate(shards):
        cf, of = ctx.scratch / f"cases-{tag}-{k}.jsonl", ctx.scratch / f"out-{tag}-{k}.jsonl"
        cf.write_text("".join(json.dumps(c) + "\n" for c in sh))
        procs.append((subprocess.Popen([sys.executable, str(runner), str(cf), str(of)], env=env, cwd=str(ctx.scratch),
                                       stdout=subprocess.PIPE, stderr=subprocess.PIPE), of, sh))
    obs = {}
    for p, of, sh in procs:
        out, err = p.communicate(timeout=1500)
        if p.returncode != 0:
            ctx.tie_failure("harness", "runner subprocess failed", (err or out).decode(errors="replace")[-800:])
        if of.exists():
            for line in of.read_text().splitlines():
                o = json.loads(line)
                obs[o["id"]] = o
    return obs



# ------------------------------------------------------------------------------------------------ the other ways in: load_git, `griffe dump`, `griffe check`
GIT_ENV = {"GIT_CONFIG_GLOBAL": os.devnull, "GIT_CONFIG_SYSTEM": os.devnull}


def git_repo(base: Path, tags):
    """commit the generated layout (compiled files included) and tag it once per case (a temporary branch is named after the reference)"""
    env = dict(os.environ, **GIT_ENV)

    def g(*a):
        subprocess.run(["git", "-C", str(base), "-c", "user.name=c15", "-c", "user.email=c15@example.invalid", *a], check=True, env=env,
                       stdout=subprocess.DEVNULL, stderr=subprocess.DEVNULL)
    g("init", "-q")
    g("add", "-f", ".")
    g("commit", "-q", "--allow-empty", "-m", "generated layout")
    for t in tags:
        g("tag", t)


def cli_user_opts(argv):
    """the options as the command line parser hands them to dump / check"""
    import _griffe.cli as C
    ns = vars(C.get_parser().parse_args(list(argv)))
    return {"allow_inspection": ns["allow_inspection"], "force_inspection": ns["force_inspection"], "submodules": True, "try_relative_path": True,
            "find_stubs_package": ns.get("find_stubs_package", False), "resolve_aliases": ns.get("resolve_aliases", True),
            "resolve_external": ns.get("resolve_external", None), "resolve_implicit": ns.get("resolve_implicit", False)}


def make_entry_case(base, tree, cid, opts, entry):
    root, rootpkg, sps = tree["root"], tree["pkgs"][0], tree["sps"]
    c = {"id": cid, "tid": tree["tid"], "by": entry, "entry": entry, "cwd": str(base / "cwd"), "log": str(base / f"log-{cid}.txt"),
         "names": sorted({p["name"] for p in tree["pkgs"]} | {"ghost"}), "syspath_add": [str(base / sp) for sp in sps] if cid % 3 else [],
         "syspath_mode": "", "search": None, "eff_search": None, "as_path": False, "objspec": root, "tags": [f"c{cid}"]}
    flags = ([] if opts["allow_inspection"] else ["-X"]) + (["-x"] if opts["force_inspection"] else []) + (["-B"] if opts["find_stubs_package"] else [])
    if entry == "load_git":
        as_path = rootpkg["kind"] in ("regular", "namespace", "stubpkg") and cid % 4 == 0
        call = {k: opts[k] for k in ("allow_inspection", "force_inspection", "submodules", "find_stubs_package", "resolve_aliases", "resolve_external", "resolve_implicit")}
        c.update(kind="load_git", repo=str(base), ref=f"c{cid}", objspec=f"{rootpkg['sp']}/{root}" if as_path else root, as_path=as_path,
                 search_rel=list(sps), call_opts=call, opts=dict(opts, try_relative_path=False))
    elif entry == "dump":
        default_search = cid % 5 == 0      # no -s: GriffeLoader(search_paths=[]) takes sys.path
        pkgs = [root] + (["ext1"] if cid % 2 and any(p["name"] == "ext1" for p in tree["pkgs"]) else [])
        argv = ["dump", *pkgs, "-o", os.devnull] + flags + (["-r"] if opts["resolve_aliases"] else []) + (["-I"] if opts["resolve_implicit"] else []) \
            + (["-U"] if opts["resolve_external"] else ["--no-resolve-external"] if opts["resolve_external"] is False else [])
        if default_search:
            c.update(syspath_add=[str(base / sp) for sp in sps], syspath_mode="normalised")
        else:
            for sp in sps:
                argv += ["-s", str(base / sp)]
        c.update(kind="cli", argv=argv, opts=cli_user_opts(argv), packages=pkgs)
    else:       # `griffe check`: the old reference through load_git, the new one from a reference or from the working tree
        argv = ["check", root, "-a", f"c{cid}"] + (["-b", f"c{cid}b"] if entry == "check_ref" else []) + flags
        for sp in sps:
            argv += ["-s", sp]       # relative: load_git joins them to the worktree, load resolves them from the repository root
        c.update(kind="cli", argv=argv, opts=cli_user_opts(argv), cwd=str(base), tags=[f"c{cid}", f"c{cid}b"])
    return c


SWALLOWED = [e for e in ALL_EXN if e not in ("SystemExit", "KeyboardInterrupt", "PanicException")]     # `except Exception` between the calls of a history


def make_history_case(base, tree, cid, opts, rng):
    """load the root, resolve aliases (loading external packages), then load other packages of the layout, all on one loader"""
    root = tree["root"]
    others = [p for p in tree["pkgs"][1:] if p["kind"] == "regular"]
    rng.shuffle(others)
    # packages with something that cannot be visited first: they tell an inspecting loader from a static one
    others.sort(key=lambda p: not any(m["kind"] in ("pyc", "so") for m in p["mods"]))
    steps = [["load", root, opts["submodules"]], ["resolve", opts["resolve_implicit"], opts["resolve_external"]]]
    steps += [["load", p["name"], True] for p in others[:2]]
    if rng.random() < 0.4:
        steps.append(["resolve", True, True])
    search = [str(base / sp) for sp in tree["sps"]]
    return {"id": cid, "tid": tree["tid"], "kind": "history", "by": "history", "search": search, "eff_search": list(search), "cwd": str(base / "cwd"),
            "objspec": root, "as_path": False, "steps": steps, "extra": "history:" + ",".join(x[0] + ":" + str(x[1]) for x in steps), "syspath_add": search if cid % 3 else [], "syspath_mode": "",
            "opts": dict(opts, find_stubs_package=False, try_relative_path=False, resolve_aliases=False),
            "log": str(base / f"log-{cid}.txt"), "names": sorted({p["name"] for p in tree["pkgs"]} | {"ghost"})}


def request_trees(loads):
    """the nesting of GriffeLoader.load calls (name, depth in call order) as request trees"""
    roots, stack = [], []
    for c in loads:
        node = [c[0], []]
        d = c[3]
        del stack[d:]
        (stack[-1][1] if stack else roots).append(node)
        stack.append(node)
    return roots


def resolved_in(paths, cwd):
    return resolved_unique([p if os.path.isabs(p) else os.path.join(cwd, p) for p in paths])


def drop_stale(tree, behs, cached):
    """`griffe check` loads twice: what the first load imported stays in sys.modules when its worktree is removed.  A regular
    package cached from there keeps a __path__ that no longer exists, so its submodules that are not cached themselves cannot be
    imported any more (a namespace package recomputes its path from sys.path)."""
    regular = {tuple(m["parts"]) for p in tree["pkgs"] if p["kind"] != "stubsonly" for m in p["mods"] if m["kind"] == "init"}

    def importable(n):
        parent = tuple(n[:-1])
        if not parent:
            return True
        if ".".join(parent) in cached:
            return parent not in regular
        return importable(list(parent))
    return [b for b in behs if ".".join(b[0]) in cached or importable(b[0])]


def phases_of(base, tree, case, obs):
    """the loaders an entry point built, each with the loads made on it (the model's phases)"""
    entry, out = case["entry"], []
    for k, ld in enumerate(obs["loaders"]):
        loads = [c for c in obs["loads"] if c[4] == k]
        ep = {"load_git": "load_git", "dump": "dump"}.get(entry) or ("check_old" if k == 0 else "check_new_ref" if entry == "check_ref" else "check_new_tree")
        given = resolved_in(ld["given"] or [], case["cwd"])
        if ep in ("load_git", "check_old", "check_new_ref"):
            wbase = Path(given[0]).parent if given else base          # the temporary worktree
        else:
            wbase = base
        order = {}
        for i, e in enumerate(obs["events"][ld["events_at"]:]):
            order.setdefault((e[1], e[2]), []).append(i)
        # find_stubs_package as this loader's own root load received it (`griffe check` does not pass it for the old reference)
        wcase = dict(case, by="name", opts=dict(case["opts"], find_stubs_package=bool(loads[0][6]) if loads else False))
        trees = request_trees(loads)
        if trees and ep != "dump":
            trees[0][0] = tree["root"]      # the root may have been given as a path
        world = world_of(wbase, tree, wcase, order)
        if k > 0:
            world[1] = drop_stale(tree, world[1], set(ld.get("mods_at", [])))
        if ep == "dump":       # one load per package (try_relative_path=True), then the re-entries of alias resolution
            roots = [t for t, c in zip(trees, [c for c in loads if c[3] == 0]) if c[1] is not False]
            later = [t for t, c in zip(trees, [c for c in loads if c[3] == 0]) if c[1] is False]
            for t in roots:
                out.append([ep, world, [parts_of(x) for x in given], [], True, [t], []])
            if later:
                out.append([ep, world, [parts_of(x) for x in given], [], True, [], later])
        else:
            out.append([ep, world, [parts_of(x) for x in given], [], case["opts"]["submodules"], trees[:1], trees[1:]])
    return out


# ------------------------------------------------------------------------------------------------ expected re-entries
def gates_table(ctx):
    keys = [(e, sb, fl, sm, ld) for e in (None, True, False) for sb in (0, 1) for fl in (0, 1) for sm in (0, 1) for ld in (0, 1)]
    res = ctx.model([["gates", [] if e is None else [e], sb, fl, sm, ld] for e, sb, fl, sm, ld in keys])
    return {k: r for k, r in zip(keys, res)}


def py_gates():
    """python mirror of the pinned tree's gates (used only when the model is unavailable)"""
    t = {}
    for e in (None, True, False):
        for sb in (0, 1):
            for fl in (0, 1):
                for sm in (0, 1):
                    for ld in (0, 1):
                        want = e is True or (e is None and sb)
                        t[(e, sb, fl, sm, ld)] = [int(bool(want and not fl and not sm and not ld)), int(bool(want and not sm and not ld)), 0]
    return t


def expected_reentries(tree, case, outcomes, G, root_has_stubs=False):
    """packages alias resolution / wildcard expansion must ask for, each as often as it is asked for: the algorithm of
    _load_package / _post_load / resolve_aliases / expand_wildcards / resolve_module_aliases replayed over the dependency
    declarations of the layout, with the gates of Gen/C15_ladder.v (a wildcard source that fails to load is asked for again
    by every later expansion pass -- the sweep repeats until neither the collection nor the number of unexpanded wildcard imports
    changes, and runs again after every iteration that resolved an alias or loaded a package; an alias target that fails is remembered)"""
    o = case["opts"]
    ext, implicit = o["resolve_external"], o["resolve_implicit"]
    deps = {p["name"]: p["deps"] for p in tree["pkgs"] if p["kind"] != "stubsonly"}
    if case["by"] == "hidden":
        deps[tree["root"]] = []      # what gets loaded is the stubs-only package
    has_top_source = {p["name"]: any(len(m["parts"]) == 1 and m["kind"] in ("init", "py", "initpyi", "pyi") for m in p["mods"]) for p in tree["pkgs"]}
    own_stubs = {p["name"] for p in tree["pkgs"] if p["kind"] == "regular" and any(m["kind"] == "initpyi" and len(m["parts"]) == 1 for m in p["mods"])}
    root = tree["root"]
    coll, reqs, expanded = [root], [], set()

    class Abort(Exception):
        pass

    def visible_deps(pkg):
        # the import statements are only seen by the visitor (they sit under a false guard when inspection is involved)
        return deps.get(pkg, []) if has_top_source.get(pkg) and not o["force_inspection"] else []

    def expand(pkg, e, seen):
        """expand_wildcards(pkg, external=e)"""
        seen.add(pkg)
        for d in visible_deps(pkg):
            t = d["target"]
            if not d["wild"] or (pkg, t) in expanded:
                continue
            if t != pkg and t not in coll:
                if not G[(e, int(t == "_" + pkg), 0, 0, 0)][1] or not request(t):
                    continue
            if t not in seen:
                expand(t, e, seen)
            expanded.add((pkg, t))       # the wildcard member is replaced by what it imports

    def request(name):
        reqs.append(name)
        oc = outcomes.get(name)
        if oc == "ok":
            coll.append(name)
            if name in own_stubs:      # the re-entered package has stubs: its own _load_package expands wildcards, re-entering load one level deeper
                expand(name, None, set())
            expand(name, False, set())     # _post_load
            return True
        if oc not in ("ModuleNotFoundError", "ImportError", "LoadingError"):
            raise Abort     # not swallowed: resolution stops here
        return False

    def wildcards_left():
        return sum(1 for m in coll for d in visible_deps(m) if d["wild"] and (m, d["target"]) not in expanded)

    def expand_all():       # repeated until no package gets loaded and no wildcard import gets expanded any more
        state = None
        while state != (len(coll), wildcards_left()):
            state = (len(coll), wildcards_left())
            for m in list(coll):
                expand(m, ext, set())
    try:
        if root_has_stubs:     # _load_package expands the wildcards of the top module (external=None) before merging stubs
            expand(root, None, set())
        expand(root, False, set())
        if o["resolve_aliases"]:
            expand_all()
            failed, done, prev, unresolved, progress = set(), set(), set(), {"0"}, False
            while unresolved and (progress or unresolved != prev):
                prev, unresolved, now, n = unresolved - {"0"}, set(), False, len(coll)
                for pkg in list(coll):
                    for d in visible_deps(pkg):
                        t = d["target"]
                        if d["wild"] or (pkg, t) in done or (not implicit and not d["exported"]):
                            continue
                        if t in coll:
                            done.add((pkg, t))
                            now = True
                            continue
                        unresolved.add((pkg, t))
                        if G[(ext, int(t == "_" + pkg), int(t in failed), int(t == pkg), 0)][0] and not request(t):
                            failed.add(t)
                progress = now or len(coll) != n
                if progress:      # also after an iteration that only resolved aliases
                    expand_all()
    except Abort:
        pass
    return reqs


# ------------------------------------------------------------------------------------------------ comparison
def root_key(tree, case):
    return "<missing-path>" if case["by"] == "missing_path" else (case.get("builtin") or tree["root"])


def model_input(base, tree, case, reqs, obs):
    o = case["opts"]
    before = obs.get("before") or ["<orig>"]
    syspath = [parts_of(x) for x in before]
    premods = [m.split(".") for m in obs.get("premods", [])]       # what the process had imported before (sys.modules pre-state)
    if case.get("entry"):
        return ["entry", o["allow_inspection"], o["force_inspection"], True, phases_of(base, tree, case, obs), syspath, premods]
    order = {}
    for i, e in enumerate(obs.get("events", [])):
        order.setdefault((e[1], e[2]), []).append(i)
    if case["kind"] == "history":
        steps = []
        for k, st in enumerate(case["steps"]):
            trees = request_trees([c for c in obs.get("loads", []) if c[7] == k])
            if len(obs.get("steps", [])) <= k:
                break         # the history stopped before this call (an exit escaped)
            steps.append([st[2], trees[:1], trees[1:]] if st[0] == "load" else [True, [], trees])
        return ["history", o["allow_inspection"], o["force_inspection"], True, [parts_of(x) for x in resolved_unique(case["search"])],
                world_of(base, tree, case, order), steps, SWALLOWED, syspath, premods]
    trees = request_trees(obs.get("loads", []))
    if trees:
        trees[0][0] = root_key(tree, case)
    given = [] if case["search"] is None else resolved_unique(case["search"])
    front = [x for x in (case["eff_search"] or []) if x not in given] if case["search"] is not None else []
    ph = ["load", world_of(base, tree, case, order), [parts_of(x) for x in given], [parts_of(x) for x in front], o["submodules"], trees[:1], trees[1:]]
    return ["entry", o["allow_inspection"], o["force_inspection"], True, [ph], syspath, premods]


def resolved_unique(paths):
    """ModuleFinder.__init__ / append_search_path: resolved, first occurrence kept"""
    out = []
    for p in paths:
        r = str(Path(p).resolve())
        if r not in out:
            out.append(r)
    return out


def canon_model(out, names, before=("<orig>",)):
    res, events, mods, cur_same, heap0, _ = out
    ev = Counter()
    execs = Counter()
    skipped = Counter()
    agents = []
    done = Counter()
    reads = Counter()
    for e in events:
        if e[0] == "done":
            done[(e[1], e[2])] += 1
        elif e[0] == "read":
            reads[(".".join(e[1]), e[2])] += 1
        elif e[0] == "exec":
            execs[(".".join(e[1]), tuple(str(Path(*p)) if p else "" for p in e[2]))] += 1
        elif e[0] in ("skip", "orphan"):
            skipped[(".".join(e[1]), e[2])] += 1
            ev[(e[0], ".".join(e[1]), e[2])] += 1
        else:
            agents.append((e[0], ".".join(e[1]), e[2] if len(e) > 2 else ""))
            ev[(e[0], ".".join(e[1]), e[2] if len(e) > 2 else "")] += 1
    tried = Counter((n, s) for a, n, s in agents)
    loaded = {n for (n, s), k in tried.items() if "." in n and k > skipped[(n, s)]} | {t for (t, r), k in done.items() if r == "ok"}
    return {"result": res, "outcomes": done, "agents": Counter(agents), "execs": execs, "loaded": loaded, "reads": reads, "sequence": [list(a) for a in agents],
            "mods": {".".join(m) for m in mods if m[0] in names}, "restored": bool(cur_same) and heap0 == [parts_of(s) for s in before],
            "skips": {k for k in ev if k[0] == "skip"}, "orphans": {k for k in ev if k[0] == "orphan"}}


def root_indices(case, o):
    """which GriffeLoader.load calls are the entry point's own (the others are re-entries)"""
    loads = o.get("loads", [])
    if case.get("kind") == "history":      # the first load call of every load step
        first = {}
        for i, c in enumerate(loads):
            if case["steps"][c[7]][0] == "load":
                first.setdefault(c[7], i)
        return set(first.values())
    if case.get("entry") == "dump":
        return {i for i, c in enumerate(loads) if c[3] == 0 and c[1] is not False}
    first = {}
    for i, c in enumerate(loads):
        first.setdefault(c[4], i)
    return set(first.values())


def canon_obs(o, rootkey=None, roots=(0,)):
    result = o["result"]
    if result != "ok" and o.get("through_loader") is False:
        result = "ok"          # raised by what the command does with the loaded trees (serialising, diffing), not by a load
    return {"result": result, "agents": Counter(tuple(e) for e in o["events"]), "reads": Counter(tuple(r) for r in o.get("reads", [])),
            "sequence": [list(e) for e in o["events"]],
            "outcomes": Counter((rootkey if i in roots and rootkey else c[0], c[2]) for i, c in enumerate(o.get("loads", []))),
            "execs": Counter((e["exec"], tuple(e["path"])) for e in o["execs"]), "loaded": set(o["loaded"]), "mods": set(o["newmods"]),
            "restored": o["path_same_object"] and o["path_same_contents"] and o["orig_contents_same"]}


def in_alphabet(tree):
    """walking an imported module only raises what the handlers of _inspect_module / _load_module convert (C15_failures_classified)"""
    return not any(m["walk"] and m["walk"] not in CONVERTED_WALK for p in tree["pkgs"] for m in p["mods"])


def walk_interrupts(tree):
    return any(m["walk"] == "KeyboardInterrupt" for p in tree["pkgs"] for m in p["mods"])


def check_load(ctx, base, tree, case, o, G, use_model, batch):
    """direct evaluation of the property on the observation; queues the model comparison"""
    opts = case["opts"]
    k0 = key_of(case)
    k = k_ = fail_key(tree, case)
    static = not opts["allow_inspection"] and not opts["force_inspection"]
    if "died" in o or "harness_error" in o:
        if o.get("timed_out"):
            ctx.tie_failure("harness", "case timed out (30 s)", {x: o[x] for x in o if x != "id"}, k)
        elif "died" in o:
            ctx.property_failure(k, {"interpreter died during load": o}, None)
        else:
            ctx.tie_failure("harness", "case runner raised", o["harness_error"], k)
        return
    nontrivial = bool(o["events"]) or bool(o["execs"]) or len(o["loads"]) > 1
    ctx.case(k0, nontrivial)
    ctx.observe("mode", "static" if static else "allow" if not opts["force_inspection"] else "force" if not opts["allow_inspection"] else "allow+force")
    ctx.observe("by", case["by"])
    ctx.observe("importable_from_sys_path", bool(case.get("syspath_add")))
    ctx.observe("already_imported", "none" if not case.get("preimport") else "nothing stayed" if not o.get("premods") else
                "top only" if all("." not in x for x in o["premods"]) else "partly")
    ctx.observe("lazy_getattr", any(m.get("lazy") for p in tree["pkgs"] for m in p["mods"]))
    if str(case.get("entry", "")).startswith("check") and not static and len(o.get("loaders", [])) > 1:
        # the second load of `griffe check` runs with what the first one imported from its (removed) worktree still in sys.modules
        ctx.observe("check_second_load_sees_stale_modules", bool(o["loaders"][1].get("mods_at")))
    lazy_pkgs = {".".join(m["parts"]) for p in tree["pkgs"] for m in p["mods"] if m.get("lazy")}
    twice = [n for n, k in Counter(e["exec"] for e in o["execs"]).items() if k > 1 and n.rpartition(".")[0] in lazy_pkgs]
    ctx.observe("lazy_reimport_of_failed_submodule", bool(twice))
    ctx.observe("rootkind", tree["pkgs"][0]["kind"] if not case.get("builtin") else "builtin")
    ctx.observe("result", o["result"])
    ctx.observe("n_execs", min(len(o["execs"]), 9))
    ctx.observe("reentries", min(len(o["loads"]) - 1, 5))
    for e in o["events"]:
        ctx.observe("agent", f"{e[0]}{e[2]}")
    ran = {e["exec"] for e in o["execs"]}
    for p in tree["pkgs"]:
        for m in p["mods"]:
            if ".".join(m["parts"]) in ran and m["kind"] not in ("pyi", "initpyi", "so"):
                for e in m["effects"]:
                    ctx.observe("effect_executed", e[0] + (":" + e[3] if e[0] == "scope" else ""))
    # ---- sys.path: same object, same contents, whatever happened
    if not (o["path_same_object"] and o["path_same_contents"] and o["orig_contents_same"]):
        ctx.property_failure(k, {"sys.path not restored": {x: o[x] for x in ("path_same_object", "path_same_contents", "orig_contents_same", "orig_now")},
                                 "result": o["result"]})
    if o["result"] == "SystemExit" or (o["result"] == "KeyboardInterrupt" and not walk_interrupts(tree)):
        ctx.property_failure(k, {"exit escaped load": o["result"], "message": o.get("message")})
    if static:
        if o["execs"] or o["hits"]:
            ctx.property_failure(k, {"analysed code executed during a static load": [e["exec"] for e in o["execs"]] or o["hits"]})
        if o["newmods"]:
            ctx.property_failure(k, {"modules entered sys.modules during a static load": o["newmods"]})
        if any(e[0] == "inspect" for e in o["events"]):
            ctx.property_failure(k, {"inspector reached although inspection is disallowed": [e for e in o["events"] if e[0] == "inspect"]})
        compiled = {".".join(m["parts"]) for p in tree["pkgs"] if p["kind"] != "stubsonly" for m in p["mods"] if m["kind"] in ("so", "pyc")}
        source = {".".join(m["parts"]) for p in tree["pkgs"] for m in p["mods"] if m["kind"] not in ("so", "pyc")}
        leaked = (set(o["loaded"]) & compiled) - source
        if leaked:
            ctx.property_failure(k, {"compiled module loaded although inspection is disallowed": sorted(leaked)})
        ctx.observe("static_compiled_present", bool(compiled))
        # compiled modules are *skipped*: a package whose top module (and stubs top) is fine loads, whatever its submodules are
        rootpkg = tree["pkgs"][0]
        tops = [m for p in tree["pkgs"] if p["name"] == tree["root"] for m in p["mods"] if len(m["parts"]) == 1]
        if (o["result"] == "LoadingError" and rootpkg["kind"] == "regular" and case["by"] in ("name", "path", "relpath", "default_search", "load_git")
                and compiled and not any(m["vfault"] for m in tops) and o.get("through_loader") is not False):
            ctx.property_failure(k, {"a submodule that cannot be visited aborted the static load instead of being skipped": o.get("message")})
    elif in_alphabet(tree) and o["result"] != "ok" and o.get("through_loader") is not False:
        finder_errors = {"FileNotFoundError"} if case["by"] == "missing_path" else set()
        if any(p["kind"] == "regular" and m["kind"] == "init" and len(m["parts"]) == 1 and m["vfault"] == "unicode" for p in tree["pkgs"] for m in p["mods"]):
            finder_errors.add("UnicodeDecodeError")    # raised by the finder before any loading starts; not an import-time failure
        if o.get("family") not in ("import", "loading") and o["result"] not in finder_errors:
            ctx.property_failure(k, {"failure is neither ImportError nor LoadingError": o["result"], "message": o.get("message")})
    # ---- re-entries
    roots = root_indices(case, o)
    re_calls = [c for i, c in enumerate(o["loads"]) if i not in roots]
    outcomes = {c[0]: c[2] for c in re_calls}
    reqs = [c[0] for c in re_calls]
    ctx.observe("load_nesting_depth", max([c[3] for c in o["loads"]] or [0]))
    if case["kind"] == "history":
        ctx.observe("history_steps", len(o.get("steps", [])))
        for si, stp in enumerate(o.get("steps", [])):
            ctx.observe("history_step_outcome", stp[0])
            if stp[1:3] != [opts["allow_inspection"], opts["force_inspection"]]:
                # the model runs every call of a history with the loader's own options: they must not move
                ctx.tie_failure("correspondence", "allow_inspection / force_inspection of the loader after a call vs the values it was built with",
                                {"after_step": [si, case["steps"][si]], "now": stp[1:3], "built_with": [opts["allow_inspection"], opts["force_inspection"]]}, k_)
                break
    if o["result"] == "ok" and not case.get("builtin") and len(roots) == 1 and case["kind"] != "history":
        f = found_of(base, tree, tree["root"], opts["find_stubs_package"], hidden=case["by"] == "hidden")
        exp = expected_reentries(tree, case, outcomes, G, root_has_stubs=f[0] == "pkg" and bool(f[3]))
        if sorted(exp) != sorted(reqs):
            ctx.tie_failure("correspondence", "re-entrant loads (gates of Gen/C15_ladder.v over the declared dependencies) vs GriffeLoader.load calls",
                            {"expected": exp, "observed": reqs}, k)
        for n in set(reqs):
            ctx.observe("reentry_target", n if n in ("ghost",) or n.startswith("_") else "ext")
    if any(c[1] is not False for c in re_calls):
        ctx.tie_failure("correspondence", "re-entrant load called with try_relative_path != False", re_calls, k)
    if use_model and not case.get("no_model"):
        batch.append((tree, case, o, reqs))


def entry_name(case, k):
    e = case.get("entry")
    return "load" if not e else e if e in ("load_git", "dump") else "check_old" if k == 0 else "check_new_ref" if e == "check_ref" else "check_new_tree"


def check_entry_ties(ctx, batch):
    """what reaches GriffeLoader from each entry point: the inspection options as Gen's entry tables forward them, the finder's search paths"""
    qs, meta = [], []
    for tree, case, o, _ in batch:
        opts = case["opts"]
        for k, ld in enumerate(o.get("loaders", [])):
            ep = entry_name(case, k)
            given = resolved_in(ld["given"] or [], case["cwd"])
            qs.append(["finder", [parts_of(x) for x in given], [parts_of(x) for x in ld["syspath_at"]]])
            meta.append(("finder", tree, case, ld, ep))
            qs.append(["entry_flags", ep, opts["allow_inspection"], opts["force_inspection"], True, opts["submodules"]])
            meta.append(("flags", tree, case, (ld, [c[5] for i, c in enumerate(o["loads"]) if c[4] == k and i in root_indices(case, o)]), ep))
    for (what, tree, case, x, ep), out in zip(meta, ctx.model(qs) if qs else []):
        k = fail_key(tree, case)
        if what == "finder":
            ctx.observe("finder_paths", "sys.path" if not x["given"] else "given")
            if out != [parts_of(p) for p in x["finder"]]:
                ctx.tie_failure("correspondence", "finder_paths(model) vs ModuleFinder.search_paths after __init__",
                                {"model": [str(Path(*p)) for p in out], "impl": x["finder"], "given": x["given"]}, k)
        else:
            ld, subm = x
            ctx.observe("entry_point", ep)
            got = [int(ld["allow"]), int(ld["force"]), int(ld["store"])]
            if out[:3] != got or (case["kind"] != "history" and any(int(bool(v)) != out[3] for v in subm)):
                ctx.tie_failure("correspondence", f"entry_allow/force/store/submodules(model) vs what {ep} hands to GriffeLoader",
                                {"model": out[:4], "impl": got + [subm]}, k)


def compare_models(ctx, base_of, batch):
    if not batch:
        return
    check_entry_ties(ctx, batch)
    outs = ctx.model([model_input(base_of(t), t, c, reqs, o) for t, c, o, reqs in batch])
    for (tree, case, o, reqs), out in zip(batch, outs):
        k = fail_key(tree, case)
        if out == ["bad-input"]:
            ctx.tie_failure("harness", "model rejected the input", None, k)
            continue
        m = canon_model(out, set(case["names"]) | ({case["builtin"]} if case.get("builtin") else set()), o.get("before") or ["<orig>"])
        r = canon_obs(o, root_key(tree, case) if case.get("entry") != "dump" and case["kind"] != "history" else None, root_indices(case, o))
        m["mods"] -= set(o.get("premods", []))
        if case.get("builtin"):
            m["mods"] -= {case["builtin"]}
            r["loaded"] -= {x for x in r["loaded"] if x != case["builtin"]}
        diff = {f: {"model": _show(m[f]), "impl": _show(r[f])} for f in ("result", "outcomes", "agents", "sequence", "reads", "loaded", "execs", "mods", "restored")
                if m[f] != r[f] and not (f == "loaded" and (r["result"] != "ok" or len(o.get("loaders", [])) > 1 or case["kind"] == "history"))}
        for s in m["skips"]:
            ctx.observe("model_branch", "skip" + s[2])
        for s in m["orphans"]:
            ctx.observe("model_branch", "orphan")
        ctx.observe("model_branch", "result:" + m["result"])
        if diff:
            ctx.tie_failure("correspondence", f"run_phases(model) vs griffe {case.get('entry') or 'load'} in a clean interpreter", diff, k)


def _show(v):
    if isinstance(v, Counter):
        return sorted([list(map(str, k)) + [n] for k, n in v.items()])[:40]
    if isinstance(v, set):
        return sorted(v)[:40]
    return v


# ------------------------------------------------------------------------------------------------ finite tables, in process (nothing is imported)
SUFFIXES = [".py", ".pyi", ".so", ".pyc", ".pyo", ".pyd", "", ".txt", ".PY"]


def check_tables(ctx):
    import _griffe.loader as L
    import griffe
    # exception ancestry (oracle)
    real = {"LoadingError": griffe.LoadingError, "PanicException": type("PanicException", (BaseException,), {})}
    rows = ctx.model([["ancestors", e] for e in ALL_EXN])
    for e, anc in zip(ALL_EXN, rows):
        cls = real.get(e) or getattr(__import__("builtins"), e)
        want = [c.__name__ for c in cls.__mro__ if c is not object]
        ctx.count("oracle_ancestry")
        if anc != want:
            ctx.tie_failure("oracle", "ancestors(model) vs the real MRO", {"model": anc, "real": want}, {"exception": e})
    # agent ladder, exhaustively
    sentinel = type("P", (), {"path": "c15parent"})()
    combos = [(il, f, a, s) for il in (0, 1) for f in (0, 1) for a in (0, 1) for s in SUFFIXES]
    rows = ctx.model([["ladder", il, f, a, s] for il, f, a, s in combos])
    for (il, f, a, s), want in zip(combos, rows):
        ld = L.GriffeLoader(allow_inspection=bool(a), force_inspection=bool(f), search_paths=[str(ctx.scratch)])
        got = []
        ld._create_module = lambda *x, **k: got.append("create") or sentinel
        ld._visit_module = lambda *x, **k: got.append("visit") or sentinel
        ld._inspect_module = lambda *x, **k: got.append("inspect") or sentinel
        ld._load_submodules = lambda *x, **k: None
        mp = [Path("/c15/m")] if il else Path("/c15/m" + s)
        try:
            ld._load_module_path("m", mp, submodules=False, parent=sentinel)
            res = got[0] if len(got) == 1 else got
        except Exception as e:  # noqa: BLE001
            res = ["raise", type(e).__name__]
        ctx.case({"ladder": [il, f, a, s]}, True)
        ctx.observe("ladder", str(res))
        if res != want:
            ctx.tie_failure("correspondence", "agent_ladder(model) vs GriffeLoader._load_module_path", {"model": want, "impl": res}, {"ladder": [il, f, a, s]})
        if not a and not f and res == "inspect":
            ctx.property_failure({"ladder": [il, f, a, s]}, {"inspector chosen although inspection is disallowed": res})
    # the ModuleNotFoundError guard of load
    rows = ctx.model([["not_found", a, f] for a in (0, 1) for f in (0, 1)])
    empty = ctx.scratch / "empty-sp"
    empty.mkdir(exist_ok=True)
    i = 0
    for a in (0, 1):
        for f in (0, 1):
            called = []
            old = L.dynamic_import

            def fake(*x, **k):
                called.append(x)
                raise ImportError("c15 recorder")
            L.dynamic_import = fake
            try:
                ld = L.GriffeLoader(allow_inspection=bool(a), force_inspection=bool(f), search_paths=[str(empty)])
                try:
                    ld.load("c15_definitely_missing_zz", try_relative_path=False)
                    res = "ok"
                except ModuleNotFoundError:
                    res = "ModuleNotFoundError"
                except ImportError:
                    res = "ImportError"
            finally:
                L.dynamic_import = old
            reraised = int(res == "ModuleNotFoundError" and not called)
            ctx.case({"not_found": [a, f]}, True)
            if reraised != rows[i]:
                ctx.tie_failure("correspondence", "not_found_reraises(model) vs GriffeLoader.load", {"model": rows[i], "impl": [res, len(called)]}, {"not_found": [a, f]})
            if not a and not f and called:
                ctx.property_failure({"not_found": [a, f]}, {"top-level module imported although inspection is disallowed": res})
            i += 1
    # caught_by against issubclass for the handler names that occur in the tables
    handlers = ["BaseException", "Exception", "ImportError", "ModuleNotFoundError", "LoadingError", "SyntaxError", "OSError", "UnicodeDecodeError",
                "SystemExit", "ValueError"]
    qs = [(h, e) for h in handlers for e in ALL_EXN]
    rows = ctx.model([["caught", [h], e] for h, e in qs])
    import builtins
    for (h, e), got in zip(qs, rows):
        hc = real.get(h) or getattr(builtins, h)
        ec = real.get(e) or getattr(builtins, e)
        ctx.count("oracle_caught_by")
        if bool(got) != issubclass(ec, hc):
            ctx.tie_failure("oracle", "caught_by(model) vs issubclass", {"handler": h, "exception": e, "model": got}, None)


# ------------------------------------------------------------------------------------------------ direct dynamic_import / inspect cases
def importer_cases(base, tree, cid0, rng, n):
    """griffe.dynamic_import / griffe.inspect called directly on names of the layout (with and without import paths)"""
    out = []
    pkg = tree["pkgs"][0]
    if pkg["kind"] not in ("regular", "namespace", "module"):
        return out
    names = sorted({".".join(m["parts"]) for m in pkg["mods"]})
    sproot = str(base / pkg["sp"])
    for j in range(n):
        nm = rng.choice(names)
        if rng.random() < 0.5:
            nm += "." + rng.choice(["VALUE_" + nm.split(".")[-1], "nope", "K.attr", "func"])
        elif rng.random() < 0.3:
            nm += ".zz.yy"
        mode = rng.choice(["paths", "paths", "nopaths", "extra"])
        search = [sproot] if mode == "paths" else [] if mode == "nopaths" else [str(base / "sp1"), sproot]
        out.append({"id": cid0 + j, "tid": tree["tid"], "kind": "dynamic_import", "by": mode, "search": search, "eff_search": search, "cwd": str(base / "cwd"),
                    "objspec": nm, "as_path": False, "opts": {}, "log": str(base / f"log-{cid0 + j}.txt"), "names": sorted({p["name"] for p in tree["pkgs"]}),
                    "syspath": [sproot, "/c15x/orig"], "extra": nm})
    if pkg["kind"] in ("regular", "module"):
        top = [m for m in pkg["mods"] if len(m["parts"]) == 1 and m["kind"] in ("init", "py")][0]
        mode = rng.choice(["absent", "present", "none"])
        search = [str(base / "sp1")] if mode == "absent" else [str(base / "sp1"), sproot] if mode == "present" else []
        out.append({"id": cid0 + n, "tid": tree["tid"], "kind": "inspect", "by": mode, "search": search, "eff_search": search, "cwd": str(base / "cwd"),
                    "objspec": pkg["name"], "filepath": str(file_of(base, pkg, top)), "as_path": False, "opts": {}, "log": str(base / f"log-{cid0 + n}.txt"),
                    "names": sorted({p["name"] for p in tree["pkgs"]}), "syspath": ["/c15x/orig"], "extra": "inspect:" + mode,
                    "modfile": modfile(base, pkg, top)})
    return out


def importer_model_input(base, tree, case):
    w = world_of(base, tree, {"opts": {"find_stubs_package": False}, "by": "name"})
    if case["kind"] == "inspect":
        return ["inspect", [parts_of(s) for s in case["search"]], w, [case["objspec"]], [case["modfile"]], [parts_of(s) for s in case["syspath"]]]
    # attribute access on plain objects of the generated modules
    for pkg in tree["pkgs"]:
        for m in pkg["mods"]:
            if m["kind"] in ("init", "py", "pyc") and not m["vfault"] and not m["fault"]:
                last = m["parts"][-1]
                for a in ([f"VALUE_{last}"], ["func"], ["K"]):
                    w[2].append([list(m["parts"]), a[0], []])
                w[2].append([list(m["parts"]) + ["K"], "attr", []])
    return ["dynamic_import", [parts_of(s) for s in case["search"]], w, case["objspec"].split("."), [parts_of(s) for s in case["syspath"]]]


def check_importer(ctx, base_of, cases, obs):
    batch = [(t, c, obs[c["id"]]) for t, c in cases if c["id"] in obs and "result" in obs[c["id"]]]
    for t, c in cases:
        o = obs.get(c["id"])
        if o is None or "result" not in o:
            ctx.tie_failure("harness", "dynamic_import case did not run", o, key_of(c))
    if not batch:
        return
    outs = ctx.model([importer_model_input(base_of(t), t, c) for t, c, o in batch])
    for (t, c, o), out in zip(batch, outs):
        k = fail_key(t, c)
        ctx.case(key_of(c), True)
        ctx.observe(c["kind"], f"{c['by']}:{o['result']}")
        if out == ["bad-input"]:
            ctx.tie_failure("harness", "model rejected the input", None, k)
            continue
        res, oc = (out[0], out) if c["kind"] == "inspect" else out
        m = canon_model(oc, set(c["names"]))
        mres = "ok" if isinstance(res, list) else res
        restored_model = bool(oc[3]) and oc[4] == [parts_of(s) for s in c["syspath"]]
        r = canon_obs(o)
        diff = {}
        if mres != o["result"]:
            diff["result"] = {"model": res, "impl": o["result"]}
        for f in ("execs", "mods"):
            if m[f] != r[f]:
                diff[f] = {"model": _show(m[f]), "impl": _show(r[f])}
        if restored_model != r["restored"]:
            diff["restored"] = {"model": restored_model, "impl": r["restored"], "orig_now": o.get("orig_now")}
        if diff:
            ctx.tie_failure("correspondence", f"{c['kind']}(model) vs griffe.{c['kind']}", diff, k)
        # direct: with import paths given sys.path must come back; every failure is an ImportError
        if (c["search"] or c["kind"] == "inspect") and not r["restored"]:
            ctx.property_failure(k, {f"sys.path not restored by {c['kind']}": o.get("orig_now")})
        if c["kind"] == "dynamic_import" and o["result"] != "ok" and o.get("family") != "import":
            ctx.property_failure(k, {"dynamic_import failure is not an ImportError": o["result"]})


# ------------------------------------------------------------------------------------------------ explore
def build_cases(ctx, base_root, n_random, per_tree_static, per_tree_dyn, with_systematic=True):
    rng = ctx.rng
    trees, cases, imp_cases = [], [], []
    cid = 0
    if with_systematic:
        sysn = systematic_trees()
        if ctx.quick:
            sysn = [t for i, t in enumerate(sysn) if i % 2 == rng.randint(0, 1) or i < 8]
        for t in sysn:
            trees.append(t)
    for i in range(n_random):
        trees.append(gen_tree(rng, f"r{i}"))
    for t in trees:
        base = base_root / t["tid"]
        write_tree(base, t)
        systematic = t["tid"].startswith("s")
        combos = []
        for _ in range(per_tree_static if not systematic else 2):
            combos.append((static_opts(rng), rng.choice(["name", "name", "relpath", "path", "hidden", "missing_path", "stale_search", "default_search"]
                                                        if not systematic else ["name", "path", "default_search"])))
        dyn_flags = [(True, False), (False, True), (True, True)]
        # layouts whose import statements are not under a false guard would run nested imports when imported: static only
        n_dyn = (per_tree_dyn if not systematic else 3) if t["pkgs"][0]["guard"] or not t["pkgs"][0]["deps"] else 0
        if not n_dyn:
            for _ in range(per_tree_dyn):
                combos.append((static_opts(rng), rng.choice(["name", "relpath", "path"])))
        for j in range(n_dyn):
            a, f = dyn_flags[j % 3] if systematic else rng.choice(dyn_flags)
            o = static_opts(rng)
            o.update(allow_inspection=a, force_inspection=f)
            combos.append((o, rng.choice(["name", "name", "name", "path", "relpath", "hidden", "missing_path", "stale_search", "default_search", "default_search"]
                              if not systematic else ["name"])))
        if systematic and n_dyn:
            # the restore protocol when the finder's search paths are sys.path itself, and when none of them exists
            o = static_opts(rng)
            o.update(allow_inspection=True, force_inspection=rng.random() < 0.7)
            combos.append((o, "default_search"))
            o = static_opts(rng)
            o.update(allow_inspection=True, force_inspection=rng.random() < 0.3)
            combos.append((o, "stale_search"))
        modnames = sorted({".".join(m["parts"]) for m in t["pkgs"][0]["mods"] if m["kind"] not in ("pyi", "initpyi")}, key=lambda n: (n.count("."), n))
        for o, by in combos:
            c = make_case(base, t, cid, o, by)
            if modnames and by in ("name", "path", "default_search") and (rng.random() < 0.3 or (systematic and cid % 4 == 0)):
                # process history: the package was imported before -- its top level only, some of its modules, or all of them
                how = rng.choice(["top", "top", "some", "all"])
                c["preimport"] = modnames[:1] if how == "top" else modnames if how == "all" else [n for n in modnames if rng.random() < 0.5]
                c["syspath_add"] = [str(base / sp) for sp in t["sps"]]
                c["extra"] = "preimport:" + how
            cases.append((t, c))
            cid += 1
        # histories on one loader: load, resolve_aliases (loading external packages), load again
        if len(t["pkgs"]) > 1 and ((not systematic and rng.random() < 0.3) or (systematic and int(t["tid"][1:]) % 3 == 0)):
            for j in range(2 if n_dyn else 1):
                o = static_opts(rng)
                o.update(resolve_external=rng.choice([True, True, None]), resolve_implicit=rng.random() < 0.7)
                if j == 1:
                    a, f = rng.choice(dyn_flags)
                    o.update(allow_inspection=a, force_inspection=f)
                cases.append((t, make_history_case(base, t, cid, o, rng)))
                cid += 1
        # the other entry points: load_git, `griffe dump`, `griffe check` (old reference + new reference / working tree)
        if (not systematic and rng.random() < 0.35) or (systematic and int(t["tid"][1:]) % 4 == 0):
            ecases = []
            for j in range(2):
                o = static_opts(rng)
                if j == 1 and n_dyn:
                    a, f = rng.choice(dyn_flags)
                    o.update(allow_inspection=a, force_inspection=f)
                entry = rng.choice(["load_git", "load_git", "load_git", "dump", "dump", "check_tree", "check_ref"])
                c = make_entry_case(base, t, cid, o, entry)
                cid += 1
                ecases.append(c)
            git_repo(base, [tag for c in ecases for tag in c["tags"]])
            cases += [(t, c) for c in ecases]
        if not systematic and n_dyn:
            ic = importer_cases(base, t, cid, rng, 3)
            imp_cases += [(t, c) for c in ic]
            cid += 4
    # the fallback on a real built-in module (no analysed code involved, but the branch and the restore protocol are)
    t0 = trees[-1]
    for a, f in ((True, False), (False, True), (False, False)):
        o = static_opts(rng)
        o.update(allow_inspection=a, force_inspection=f, resolve_aliases=False, find_stubs_package=False)
        c = make_case(base_root / t0["tid"], t0, cid, o, "name")
        c["objspec"], c["builtin"], c["extra"] = "_struct", "_struct", "builtin"
        cases.append((t0, c))
        cid += 1
    return trees, cases, imp_cases


def run_all(ctx, n_random, per_static, per_dyn, use_model=True, tag="x", with_systematic=True):
    base_root = ctx.scratch / f"trees-{tag}"
    base_root.mkdir(parents=True, exist_ok=True)
    trees, cases, imp_cases = build_cases(ctx, base_root, n_random, per_static, per_dyn, with_systematic)
    obs = run_cases(ctx, [c for _, c in cases] + [c for _, c in imp_cases], tag)
    G = gates_table(ctx) if use_model else py_gates()
    batch = []
    base_of = lambda t: base_root / t["tid"]  # noqa: E731
    for t, c in cases:
        o = obs.get(c["id"])
        if o is None:
            ctx.tie_failure("harness", "case did not run", None, key_of(c))
            continue
        check_load(ctx, base_of(t), t, c, o, G, use_model, batch)
    if use_model:
        compare_models(ctx, base_of, batch)
        check_importer(ctx, base_of, imp_cases, obs)
    ctx.count("trees", len(trees))
    return trees, cases, batch


def explore(ctx):
    check_tables(ctx)
    tabs = ctx.model([["tables"]])[0]
    ctx.notes.append("generated tables: " + json.dumps(tabs))
    trees, cases, batch = run_all(ctx, ctx.budget(200, 2500), ctx.budget(4, 6), ctx.budget(4, 6))
    # every branch of the model must have been reached
    need = {"mode": ["static", "allow", "force", "allow+force"], "result": ["ok", "LoadingError", "ModuleNotFoundError", "ImportError", "FileNotFoundError"],
            "model_branch": ["orphan", "skip.so", "skip.py", "skip.pyc"],
            "by": ["name", "path", "relpath", "hidden", "missing_path", "stale_search", "default_search", "load_git", "dump", "check_tree", "check_ref", "history"],
            "entry_point": ["load", "load_git", "dump", "check_old", "check_new_ref", "check_new_tree"], "finder_paths": ["given", "sys.path"],
            "load_nesting_depth": [0, 1, 2], "already_imported": ["none", "top only", "partly"], "lazy_getattr": [True, False], "check_second_load_sees_stale_modules": [True], "lazy_reimport_of_failed_submodule": [True, False],
            "effect_executed": ["ins0", "rebind", "clear", "scope:sys_path", "scope:dynamic_import_fail", "scope:dynamic_import_ok", "scope:inspect_ok",
                                "scope:load_ok", "scope:load_fail"]}
    for d, keys in need.items():
        for kx in keys:
            if not ctx.dist.get(d, {}).get(str(kx)):
                ctx.tie_failure("harness", f"generator never reached {d}={kx}", None)
    if not ctx.quick:
        ctx.cross_check_extraction([model_input(ctx.scratch / "trees-x" / t["tid"], t, c, reqs, o) for t, c, o, reqs in batch[:400]], 40)


def search(ctx):
    """implementation vs the property only (no model): more layouts, more option combinations"""
    run_all(ctx, ctx.budget(150, 600), 6, 6, use_model=False, tag="search")


def replay(ctx, data):
    """rebuild the recorded layout under the scratch directory, rerun the recorded case in a clean interpreter, show what happened"""
    fi = data.get("failing_input") or {}
    rp = fi.get("replay") if isinstance(fi, dict) else None
    if not rp:
        for t in data.get("broken_ties", []):
            if isinstance(t.get("case"), dict) and t["case"].get("replay"):
                rp = t["case"]["replay"]
                break
    if not rp:
        print("replay names no layout:", json.dumps(fi)[:400], data.get("no_longer_checks"))
        return 0
    tree, case = rp["tree"], rp["case"]
    ctx.scratch.mkdir(parents=True, exist_ok=True)
    base = ctx.scratch / "replay" / str(tree["tid"])
    write_tree(base, tree)
    if case.get("tags"):
        git_repo(base, case["tags"])
    old = os.path.dirname(case["log"])
    case = json.loads(json.dumps(case).replace(old, str(base)))
    obs = run_cases(ctx, [case], "replay").get(case["id"], {})
    print("layout:", json.dumps(tree)[:3000])
    print("case:", json.dumps({k: case[k] for k in ("kind", "by", "objspec", "search", "cwd", "opts") if k in case}))
    print("observed:", json.dumps({k: obs.get(k) for k in ("result", "message", "events", "loads", "loaded", "newmods", "hits", "path_same_object",
                                                            "path_same_contents", "orig_contents_same", "died")}, indent=1)[:4000])
    print("executed:", [e["exec"] for e in obs.get("execs", [])])
    if case["kind"] == "load" and "result" in obs:
        before = len(ctx.prop_failures)
        check_load(ctx, base, tree, case, obs, py_gates(), False, [])
        for f in ctx.prop_failures[before:]:
            print("PROPERTY FAILURE:", json.dumps(f["detail"])[:600])
        if ctx.driver is not None:
            out = ctx.model([model_input(base, tree, case, [], obs)])[0]
            print("model:", json.dumps(out)[:3000])
    subprocess.run(["rm", "-rf", str(ctx.scratch)])
    return 0
