"""C09 — Full JSON dumps conform to the published schema.

(T) coq/Gen/C09_schema.v from docs/schema.json + enumerations.py; Gen/C09_exprs.v from expressions.py + docstrings/models.py;
    Gen/C09_load.v from the loaders' construction sites (harness/translate/c09_*.py)
(O) model `validates` (Coq, on the regenerated schema term)  vs  jsonschema on whole documents, on every node's
    local document (members emptied) and on randomly mutated (mostly invalid) documents
(C) model `dump cwd tree` (path fields derived, expressions and section items encoded concretely) on the harness's abstraction
    of the live Griffe tree  vs  as_json(full=True) from that cwd -- documents and exceptions; membership of every real
    document in the encoder grammar G_enc; path functions on API-built modules; construction-site models vs the loaders
direct: a loaded tree whose full dump raises, or whose dump jsonschema rejects (whole document or any node)  =>  violation,
        unless the extracted model of the unrepaired code fails the same way on that very input (known: C09-F7).
"""
from __future__ import annotations

import json
import os
import signal
import sys
from collections import deque
from pathlib import Path

from harness.common.framework import ModelUnavailable as ModelUnavailableError
from harness.translate import c09_exprs, c09_load, c09_parse, c09_schema

ID = "C09"
LEVEL_TEXT = ("Theorems (31, closed): a generic inclusion checker between shape grammars and the JSON-schema subset used by docs/schema.json is sound for "
              "all documents (oneOf / if-then through a verified exclusion checker, the recursive members/$ref:# pair discharged by the top-level check); a "
              "Gallina model of as_dict(full=True)+JSONEncoder -- object skeleton, expressions concretely (class + dataclass fields as regenerated from "
              "expressions.py), docstring section items concretely (per section kind, regenerated from docstrings/models.py) -- always emits a document of "
              "the encoder grammar; the grammar is included in the schema as regenerated on this run (by computation); the schema accepts any object as "
              "an expression (theorem); the three path fields are derived inside the model (relative_to / parent / the four branches of "
              "relative_package_filepath, Python exceptions explicit): a module in ANY portion of a namespace package has a relative package path; for every "
              "cwd and every tree whose module files lie below the package's directories the dump raises exactly in the F6 situation (else TypeError for an "
              "unserialisable default, else a document), and every document produced validates; `loadable` is derived from a model of the loaders' "
              "construction sites (decorator line numbers from ast nodes, parameter kinds per ast.arguments bucket / inspect kind, section kinds per class, "
              "file paths from the finder; inspected defaults always strings; the __init__ the dataclasses extension synthesises): src_ok s -> ploadable (build s); refutation witness for the known finding F7; "
              "the witnesses of the repaired findings F1..F6, F8 validate; the docstring dispatch that runs while the dump is produced never raises: for every "
              "parser (None, every member of Parser), every style auto can infer and EVERY set of option names avoiding `docstring`/`parser`, parse() reaches a "
              "text section or a parser (Python keyword binding modelled; signatures and the `parsers` table regenerated from the sources). "
              "Ties on every run: validator model vs jsonschema (real, per-node, mutated documents); dump(model) vs as_json(full=True) -- documents and "
              "exceptions -- on generated regular / multi-portion namespace / stubs-package / inspector pass-through layouts, static and dynamic, with and "
              "without alias resolution, every parser, from several working directories; path functions vs the properties on API-built modules; the "
              "construction-site models vs the loaders for every function (source ast / inspect.signature on the harness side); parse_dispatch vs "
              "docstrings.parsers.parse on random parser x option-name sets (unknown names, auto's own, positional names); grammar membership and "
              "loadable of every real tree; depth sweep.")
LEVEL_NOTE = ("Trusted: Coq kernel, extraction, the three translators (fail closed), jsonschema 4.x Draft7Validator as authority, the abstraction live object -> "
              "model tree (reads attributes and dataclass fields, never as_dict / relative_* / filepath of objects). Not modelled: the expression builder "
              "(ast -> Expr) and the parsers' item construction (what runs AFTER the dispatch: a parser body that raises is found by the docstring-matrix "
              "stream only) -- `fval_ok` (class in the table, one value per field, scalar vs sequence) and the section "
              "value shapes are hypotheses inside `loadable`/`src_ok`, checked on every real tree; declared element types of expression fields are not "
              "honoured by Griffe at run time and not modelled. `placed` (module files below the package directories) is sufficient, not necessary. Known "
              "findings F6, F7, F8 are attributed only when the extracted model of the unrepaired code fails the same way on that very tree and cwd; the "
              "prepared repairs (F6, F8) are not landed, the model describes /repo as it is. Fuel: `exists fuel` + monotonicity; harness uses 16*(depth+2).")
MODEL = ("Model.C09_top", "run_C09_top")
MODEL_TARGETS = ["Model/C09_top.vo"]
COQ_TARGETS = ["Proofs/C09_schema.vo", "Proofs/C09_mem.vo", "Proofs/C09_expr.vo", "Proofs/C09_enc.vo", "Proofs/C09_perm.vo", "Proofs/C09_paths.vo", "Proofs/C09_load.vo", "Proofs/C09_parse.vo"]
RULE = ("generated layouts under the scratch directory: regular packages (a fixed feature-complete module: every expression class reachable from "
        "source, all parameter kinds, decorators, bases, nested classes, properties, overloads, dataclass, wildcard/relative/external imports, __all__, "
        "typing-only definitions, dataclasses whose field(...) arguments are names / attributes / calls, a module whose sibling .pyi disagrees with it on "
        "every signature (no parameters vs all kinds, fewer, renamed, stub-only functions / methods / classes), an in-package __init__.pyi; random modules/subpackages/namespace subdirectories/stubs with google/numpy/sphinx docstrings covering every section "
        "kind); native namespace packages over 1..3 search paths (the first two of a run have 2 and 3 portions) with modules and regular subpackages in "
        "every portion, a nested namespace over a random non-empty subset of the portions and a second level, pkg_resources-style portions, imports across "
        "portions; stubs-only packages on the same / another search path; the first package of a run imports its own init-less sub-folder and holds a "
        "module and a sub-package that are symbolic links to a place outside the search directory; inspector pass-through modules (defaults whose __name__ is an int / list / None / "
        "object, annotation objects with unparsable / parsable repr: all must dump and validate); a docstring-matrix package (docstrings of each style on "
        "every kind of object that make the parsers warn -- unknown parameters, missing types, malformed items -- and Sphinx fields naming dotted / "
        "aliased / unresolvable attributes) under every parser (None / google / numpy / sphinx / auto) x docstring_options (None / {} / non-empty) x "
        "static / inspected; `griffe dump -f` through the CLI with -d / -D / -x combinations; each loaded statically and dynamically, with/without alias resolution, parser "
        "none/google/numpy/sphinx, and dumped from: above everything, a search path, a namespace directory, the package directory, an unrelated "
        "directory, the file-system root; 1.5k/20k random (package path, module path, cwd) triples on API-built modules for the path functions; one "
        "builder case per function; one case per distinct node document and per whole document; mutated node documents for the validator tie; depth "
        "sweep 40..530 operands. non-trivial = node has an optional field, a kind-specific field or a parsed docstring; distinct by canonical JSON")
TRUSTED = ["translators harness/translate/c09_schema.py (whitelisted JSON-schema keywords), c09_exprs.py, c09_load.py, c09_parse.py (all fail closed; every Parameter(...) site of visitor / inspector / dataclasses extension / merger / loader must pass a kind that cannot be None)",
           "jsonschema Draft7Validator (the `$schema` the file names) as the authority for validity",
           "abstraction: harness reads name/path/Module._filepath/lineno/docstring/labels/members/bases/decorators/parameters/returns/value/annotation "
           "from live Griffe objects into the model tree; expressions field by field (dataclasses.fields), section items attribute by attribute; the cwd "
           "from os.getcwd()"]
ASSUMPTIONS = ["packages are loaded from files on disk (builtin modules with filepath None are outside the property)",
               "POSIX paths; search paths are given resolved (no symlink between the cwd and the package)",
               "loads go through GriffeLoader.load (static visitor / inspector / stub merging); trees assembled through the API are outside `loadable`"]
TRANSLATOR_NAME = "harness/translate/c09_schema.py"



def translate(ctx):
    c09_schema.translate(ctx)
    c09_exprs.translate(ctx)
    c09_load.translate(ctx)
    c09_parse.translate(ctx)


# ---------------------------------------------------------------------------------------------- JSON <-> sexp

def jx(v):
    """JSON value -> sexp value understood by json_of (Model/C09_enc.v)."""
    if v is None:
        return ["n"]
    if v is True:
        return ["t"]
    if v is False:
        return ["f"]
    if isinstance(v, int):
        return v
    if isinstance(v, float):
        return ["F", 1 if v.is_integer() else 0]
    if isinstance(v, str):
        return v
    if isinstance(v, list):
        return ["a"] + [jx(x) for x in v]
    if isinstance(v, dict):
        return ["o"] + [[k, jx(x)] for k, x in v.items()]
    raise TypeError(type(v))


def _s(s: str) -> str:
    """what a python string becomes after a trip through the sexp protocol (bytes as latin-1)"""
    try:
        s.encode("latin-1")
        return s
    except UnicodeEncodeError:
        return s.encode("utf-8").decode("latin-1")


def canon(v):
    """JSON value as it comes back from the model (strings byte-wise, floats reduced to integrality), keys sorted."""
    if isinstance(v, str):
        return _s(v)
    if isinstance(v, float):
        return ["F", 1 if v.is_integer() else 0]
    if isinstance(v, list):
        return [canon(x) for x in v]
    if isinstance(v, dict):
        return {_s(k): canon(x) for k, x in sorted(v.items())}
    return v


def unjx(s):
    """sexp produced by sexp_of_json -> canonical python value (same domain as canon)."""
    if isinstance(s, int) and not isinstance(s, bool):
        return s
    if isinstance(s, str):
        return s
    if s == ["n"]:
        return None
    if s == ["t"]:
        return True
    if s == ["f"]:
        return False
    if s and s[0] == "F":
        return ["F", s[1]]
    if s and s[0] == "a":
        return [unjx(x) for x in s[1:]]
    if s and s[0] == "o":
        return {k: unjx(v) for k, v in sorted((kv[0], kv[1]) for kv in s[1:])}
    raise ValueError(s)


# ---------------------------------------------------------------------------------------------- abstraction of live objects

def _enc_json(value):
    import griffe
    return json.loads(json.dumps(value, cls=griffe.JSONEncoder, full=True))


def a_fval(v):
    """a dataclass field of an expression -> fval (Model/C09_expr.v): read field by field (sorted by name, `parent` dropped),
    never through as_dict / _expr_as_dict"""
    import dataclasses
    import enum
    import griffe
    if v is None:
        return ["n"]
    if isinstance(v, bool):
        return ["b", 1 if v else 0]
    if isinstance(v, int):
        return ["i", v]
    if isinstance(v, enum.Enum) and isinstance(v, str):
        return ["s", v.value]
    if isinstance(v, str):
        return ["s", v]
    if isinstance(v, griffe.Expr):
        fields = sorted((f.name for f in dataclasses.fields(v) if f.name != "parent"))
        return ["e", type(v).__name__, [a_fval(getattr(v, name)) for name in fields]]
    if isinstance(v, list):
        return ["l", [a_fval(x) for x in v]]
    raise TypeError(f"expression field of type {type(v).__name__}")


def a_val(v):
    import griffe
    if v is None:
        return ["none"]
    if isinstance(v, str):
        return ["str", v]
    if isinstance(v, griffe.Expr):
        return ["expr", a_fval(v)]
    # outside `str | Expr | None` (the inspector let such values through until fixes 4debb62 / 5db8f3a): json has a rule for it or not
    try:
        return ["raw", jx(json.loads(json.dumps(v)))]
    except (TypeError, ValueError):
        return ["object"]


def a_opt(v):
    return [] if v is None else [v]


def a_str(v, what):
    if not isinstance(v, str):
        raise TypeError(f"{what} of type {type(v).__name__}")
    return v


def a_item(it):
    """one item of a list-valued section: an (kind, text) example pair, a named element, a plain element"""
    import enum
    import griffe
    if isinstance(it, tuple) and len(it) == 2:
        kind, text = it
        return ["example", kind.value if isinstance(kind, enum.Enum) else a_str(kind, "example kind"), a_str(text, "example text")]
    if isinstance(it, griffe.DocstringNamedElement):
        return ["named", a_str(it.name, "element name"), a_val(it.annotation), a_str(it.description, "element description"), a_val(it.value)]
    if isinstance(it, griffe.DocstringElement):
        return ["plain", a_val(it.annotation), a_str(it.description, "element description")]
    raise TypeError(f"section item of type {type(it).__name__}")


def a_doc(d):
    import griffe
    secs = []
    for sec in d.parsed:
        val = sec.value
        if isinstance(val, griffe.DocstringElement):
            sv = ["elem", a_val(val.annotation), a_str(val.description, "element description")]
        elif isinstance(val, str):
            sv = ["text", val]
        elif isinstance(val, list):
            sv = ["items", [a_item(it) for it in val]]
        else:
            raise TypeError(f"section value of type {type(val).__name__}")
        secs.append([sec.kind.value, sv, a_opt(sec.title)])
    return [d.value, a_opt(d.lineno), a_opt(d.endlineno), secs]


def a_path(p):
    """absolute POSIX path -> list of components ("/" -> [])"""
    text = str(p)
    if not text.startswith("/"):
        raise ValueError(f"file path {text!r} is not absolute")
    return [c for c in text.split("/")[1:] if c != ""]


def a_pfp(o):
    """Module._filepath as the model wants it; objects that are not modules inherit"""
    if o.kind.value != "module":
        return ["inherit"]
    fp = o._filepath
    if isinstance(fp, list):
        return ["own", ["list", [a_path(p) for p in fp]]]
    if fp is None:
        return ["builtin"]
    return ["own", ["one", a_path(fp)]]


def a_deco(d):
    return [a_val(d.value), a_opt(d.lineno), a_opt(d.endlineno)]


def a_param(p):
    return [p.name, a_val(p.annotation), a_opt(None if p.kind is None else p.kind.value), a_val(p.default),
            [] if not p.docstring else [a_doc(p.docstring)]]


def abstract(o):
    """live Griffe object -> model tree (Model/C09_paths.v pobj_of). Reads attributes; never calls as_dict on objects and never
    reads filepath / relative_filepath / relative_package_filepath of any object: the model derives them from Module._filepath."""
    if o.is_alias:
        return ["alias", o.name, o.target_path, o.path, a_opt(o.alias_lineno), a_opt(o.alias_endlineno)]
    k = o.kind.value
    if k == "module":
        spec = ["module"]
    elif k == "class":
        spec = ["class", [a_val(b) for b in o.bases], [a_deco(d) for d in o.decorators]]
    elif k == "function":
        spec = ["function", [a_deco(d) for d in o.decorators], [a_param(p) for p in o.parameters], a_val(o.returns)]
    elif k == "attribute":
        spec = ["attribute", a_val(o.value), a_val(o.annotation)]
    else:
        raise TypeError(k)
    members = [[n, abstract(m)] for n, m in o.members.items()]
    return ["pobj", spec, o.name, o.path, a_pfp(o), a_opt(o.lineno), a_opt(o.endlineno),
            [] if not o.docstring else [a_doc(o.docstring)], sorted(o.labels), members]


def doc_nodes(d, path=()):
    yield path, d
    if isinstance(d, dict) and isinstance(d.get("members"), dict):
        for n, m in d["members"].items():
            yield from doc_nodes(m, path + (n,))


def strip_doc(d):
    if isinstance(d, dict) and "members" in d and d.get("kind") != "alias":
        return {**d, "members": {}}
    return d


# ---------------------------------------------------------------------------------------------- authority: jsonschema

class Authority:
    def __init__(self):
        import jsonschema
        from harness.common.framework import REPO
        self.schema = json.loads((REPO / "docs/schema.json").read_text())
        cls = jsonschema.validators.validator_for(self.schema)
        cls.check_schema(self.schema)
        self.name = cls.__name__
        self.v = cls(self.schema)

    def valid(self, doc) -> bool:
        return self.v.is_valid(doc)

    def leaves(self, doc):
        out = []
        for e in self.v.iter_errors(doc):
            out.extend(_leaves(e))
        return out


def _leaves(e):
    """descend through oneOf/anyOf contexts: prefer the branch selected by the instance's `kind`, else the branch with fewest errors"""
    if not e.context:
        return [e]
    br = {}
    for c in e.context:
        br.setdefault(c.relative_schema_path[0], []).append(c)
    good = {k: v for k, v in br.items()
            if not any(c.validator in ("const", "enum") and list(c.relative_path) == ["kind"] for c in v)}
    if not good:
        return [e]
    if len(good) > 1 and e.validator == "oneOf" and not isinstance(e.instance, dict):
        return [e]
    k = min(good, key=lambda k: len(good[k]))
    out = []
    for c in good[k]:
        out.extend(_leaves(c))
    return out


def at_path(doc, path):
    for p in path:
        doc = doc[p]
    return doc


def leaf_repr(leaf):
    return {"path": [str(p) for p in leaf.absolute_path], "keyword": leaf.validator, "message": leaf.message[:160]}


# ---------------------------------------------------------------------------------------------- package generation

HELPERS = '''"""Helpers."""
a = 1
b = 2
c = 3
w = 4
d = {"z": 1}
x = [1, 2, 3]
items = [(1, 2)]
class _S:
    def __getitem__(self, i):
        return i
sl = _S()
def deco(f):
    return f
def deco_args(*args, **kw):
    return lambda f: f
def fn(*args, **kw):
    return 0
'''

IMPORTS = '''from __future__ import annotations
import os
import functools
import typing
import dataclasses
import os.path as osp
from typing import Any, Dict, Generic, List, Optional, Tuple, TypeVar, Union, overload, TYPE_CHECKING
from {pkg}._h import a, b, c, w, d, x, items, sl, deco, deco_args, fn
T = TypeVar("T")
'''

VALUE_EXPRS = ["1", "'s'", "None", "...", "True", "1.5", "b'x'", "a", "os.path.join", "osp.sep", "a + 1", "a * (b - c)", "a and b or c",
               "fn(1, *x, k=2, **d)", "a < b <= c", "a is not None", "[i for i in x if i]", "[i + j for i in x for j in x]",
               "{k: v for k, v in items}", "{i for i in x}", "(i for i in x)", "sum(i for i in x)", "{'a': 1, **d}", "{}",
               "f'a{b!r:>{w}} {c}'", "f'{a}'", "a if b else c", "lambda q, *r, s=1, **t: q", "lambda: 0", "lambda: (yield)",
               "lambda: (yield from x)", "[1, 2]", "[]", "{1, 2}", "(1, 2)", "()", "x[0]", "x[1:2]", "x[::2]", "sl[1:2, ::3]", "sl[a, b]",
               "-a", "not a", "~a", "(y := 1)", "'a' 'b'", "fn(x[0:1] if a else {})", "typing.cast(int, a)", "[*x, *x]", "{**d}"]
ANNOTATIONS = ["int", "str", "List[int]", "Dict[str, Tuple[int, ...]]", "Optional[Union[int, str]]", "'list[int]'", "typing.Callable[[int], str]",
               "T", "int | None", "Tuple[()]", "'Dict[str, \"int\"]'", "typing.Literal['a', 'b']", "Any", "List['C0']"]
DECORATORS = ["deco", "deco_args(1, k=2)", "functools.lru_cache(maxsize=None)", "deco_args()", "functools.wraps(fn)"]

GOOGLE = {
    "parameters": "Parameters:\n    p0: A.\n    p1 (int): B.\n        continued.\n",
    "other parameters": "Other Parameters:\n    k: K.\n",
    "raises": "Raises:\n    ValueError: bad.\n",
    "warns": "Warns:\n    UserWarning: w.\n",
    "returns": "Returns:\n    out (int): result.\n",
    "returns2": "Returns:\n    int: result.\n",
    "yields": "Yields:\n    int: y.\n",
    "receives": "Receives:\n    int: r.\n",
    "examples": "Examples:\n    Text.\n\n    >>> 1 + 1\n    2\n",
    "attributes": "Attributes:\n    X (int): an attr.\n    Y: other.\n",
    "functions": "Functions:\n    f: a function.\n",
    "methods": "Methods:\n    m(a, b): a method.\n",
    "classes": "Classes:\n    C: a class.\n",
    "modules": "Modules:\n    sub: a module.\n",
    "admonition": "Note:\n    hello admonition.\n",
    "admonition2": "Warning: Careful\n    text.\n",
    "deprecated": "Deprecated:\n    1.0: old.\n",
}
NUMPY = {
    "parameters": "Parameters\n----------\np0 : int\n    A.\np1 : str, optional\n    B.\n",
    "other parameters": "Other Parameters\n----------------\nk : str\n    K.\n",
    "raises": "Raises\n------\nValueError\n    bad.\n",
    "warns": "Warns\n-----\nUserWarning\n    w.\n",
    "returns": "Returns\n-------\nout : int\n    result.\n",
    "yields": "Yields\n------\nint\n    y.\n",
    "receives": "Receives\n--------\nint\n    r.\n",
    "examples": "Examples\n--------\nText.\n\n>>> 1 + 1\n2\n",
    "attributes": "Attributes\n----------\nX : int\n    an attr.\n",
    "functions": "Functions\n---------\nf()\n    a function.\n",
    "methods": "Methods\n-------\nm(a, b)\n    a method.\n",
    "classes": "Classes\n-------\nC\n    a class.\n",
    "modules": "Modules\n-------\nsub\n    a module.\n",
    "deprecated": "Deprecated\n----------\n1.0\n    old.\n",
    "admonition": "Notes\n-----\nhello.\n",
    "see also": "See Also\n--------\nother : thing.\n",
}
SPHINX = [":param int p0: A.", ":param p1: B.", ":type p1: str", ":returns: r.", ":rtype: int", ":raises ValueError: bad.", ":var X: attr.",
          ":vartype X: int", ":keyword k: K."]


def gen_docstring(rng, indent):
    style = rng.choice(["google", "google", "numpy", "sphinx", "plain"])
    summary = rng.choice(["Summary.", "Summary line.\n\nLonger text\nover lines.", "Déjà vu — non-ASCII.", "Quote \" and \\\\ backslash."])
    if style == "plain":
        body = summary
    elif style == "sphinx":
        body = summary + "\n\n" + "\n".join(rng.sample(SPHINX, rng.randint(1, len(SPHINX))))
    else:
        table = GOOGLE if style == "google" else NUMPY
        keys = rng.sample(sorted(table), rng.randint(1, 6))
        body = summary + "\n\n" + "\n".join(table[k] for k in keys)
    pad = " " * indent
    text = "\n".join((pad + line if line else "") for line in body.split("\n"))
    return f'{pad}"""{text.lstrip()}\n{pad}"""\n'


def gen_params(rng, method):
    npo, nar, nko = rng.randint(0, 2), rng.randint(0, 2), rng.randint(0, 2)
    va, kw = rng.random() < 0.4, rng.random() < 0.4
    parts = []
    names = iter(f"p{i}" for i in range(20))
    seen_default = False

    def one(nm, allow_default=True, force_default=False):
        s = nm
        if rng.random() < 0.6:
            s += ": " + rng.choice(ANNOTATIONS)
        if force_default or (allow_default and rng.random() < 0.4):
            s += " = " + rng.choice(["1", "None", "'s'", "a", "(1, 2)", "fn(a)", "-1", "x[0]", "lambda: 0", "[]"])
            return s, True
        return s, False

    pos = []
    if method:
        pos.append(("self", False))
    for _ in range(npo + nar):
        s, dflt = one(next(names), force_default=seen_default and True)
        seen_default = seen_default or dflt
        pos.append((s, dflt))
    cut = (1 if method else 0) + npo
    for i, (s, _) in enumerate(pos):
        parts.append(s)
        if npo and i == cut - 1:
            parts.append("/")
    if va:
        parts.append("*args" + (": int" if rng.random() < 0.5 else ""))
    elif nko:
        parts.append("*")
    for _ in range(nko):
        parts.append(one(next(names))[0])
    if kw:
        parts.append("**kwargs" + (": Any" if rng.random() < 0.5 else ""))
    return ", ".join(parts)


def gen_function(rng, name, indent, method=False):
    pad = " " * indent
    out = []
    decos = rng.sample(DECORATORS, rng.randint(0, 2))
    special = None
    if method and rng.random() < 0.4:
        special = rng.choice(["staticmethod", "classmethod", "property", "functools.cached_property"])
        decos.insert(0, special)
    for dline in decos:
        out.append(f"{pad}@{dline}\n")
    if special == "staticmethod":
        params = gen_params(rng, False)
    elif special == "classmethod":
        params = gen_params(rng, True).replace("self", "cls", 1)
    elif special in ("property", "functools.cached_property"):
        params = "self"
    else:
        params = gen_params(rng, method)
    ret = (" -> " + rng.choice(ANNOTATIONS)) if rng.random() < 0.6 else ""
    out.append(f"{pad}{rng.choice(['def', 'def', 'async def'])} {name}({params}){ret}:\n")
    if rng.random() < 0.7:
        out.append(gen_docstring(rng, indent + 4))
    out.append(f"{pad}    return None\n")
    return "".join(out)


def gen_attribute(rng, name, indent):
    pad = " " * indent
    v = rng.choice(VALUE_EXPRS)
    r = rng.random()
    if r < 0.35:
        s = f"{pad}{name}: {rng.choice(ANNOTATIONS)} = {v}\n"
    elif r < 0.45 and indent:
        s = f"{pad}{name}: {rng.choice(ANNOTATIONS)}\n"
    else:
        s = f"{pad}{name} = {v}\n"
    if rng.random() < 0.4:
        s += gen_docstring(rng, indent)
    return s


def gen_class(rng, name, indent, depth, known):
    pad = " " * indent
    out = []
    for dline in rng.sample(["deco", "deco_args(1)", "dataclasses.dataclass", "dataclasses.dataclass(frozen=True)"], rng.randint(0, 2)):
        out.append(f"{pad}@{dline}\n")
    is_dc = any("dataclass" in line for line in out)
    bases = []
    if known and rng.random() < 0.5 and not is_dc:
        bases.append(rng.choice(known))
    if rng.random() < 0.25 and not is_dc and not bases:
        bases.append(rng.choice(["Generic[T]", "Dict[str, int]", "typing.List[int]"]))
    if rng.random() < 0.15 and not bases:
        bases.append("metaclass=type")
    out.append(f"{pad}class {name}" + (f"({', '.join(bases)})" if bases else "") + ":\n")
    if rng.random() < 0.7:
        out.append(gen_docstring(rng, indent + 4))
    n = rng.randint(0, 4)
    if is_dc:
        out.append(f"{pad}    fx: int = 0\n{pad}    fy: 'str' = 's'\n")
        if rng.random() < 0.5:
            out.append(gen_docstring(rng, indent + 4))
    for i in range(n):
        r = rng.random()
        if r < 0.45:
            out.append(gen_function(rng, f"m{i}", indent + 4, method=True))
        elif r < 0.8 and not is_dc:
            out.append(gen_attribute(rng, f"at{i}", indent + 4))
        elif depth < 2:
            out.append(gen_class(rng, f"N{i}", indent + 4, depth + 1, []))
    if rng.random() < 0.25:
        out.append(f"{pad}    if TYPE_CHECKING:\n{pad}        tg_attr: int = 0\n{pad}        def tg_method(self) -> int: ...\n")
    if rng.random() < 0.4:
        out.append(f"{pad}    def __init__(self, q: int = 0):\n{pad}        self.inst = q\n{pad}        \"\"\"Instance attribute.\"\"\"\n")
    out.append(f"{pad}    pass\n")
    return "".join(out)


def gen_module(rng, pkg, siblings, with_unresolvable):
    out = []
    if rng.random() < 0.7:
        out.append(gen_docstring(rng, 0))
    out.append(IMPORTS.format(pkg=pkg))
    for sib in siblings:
        r = rng.random()
        if r < 0.3:
            out.append(f"from {pkg}.{sib} import *\n")
        elif r < 0.5:
            out.append(f"from {pkg} import {sib} as {sib}_alias\n")
        elif r < 0.7:
            out.append(f"import {pkg}.{sib}\n")
    if with_unresolvable:
        out.append("if TYPE_CHECKING:\n    from nowhere_c09 import missing, other as renamed\n")
        out.append("try:\n    import nowhere_c09_mod\nexcept ImportError:\n    nowhere_c09_mod = None\n")
    known = []
    names = []
    for i in range(rng.randint(2, 7)):
        r = rng.random()
        if r < 0.35:
            out.append(gen_function(rng, f"f{i}", 0))
            names.append(f"f{i}")
        elif r < 0.7:
            out.append(gen_attribute(rng, f"V{i}", 0))
            names.append(f"V{i}")
        else:
            out.append(gen_class(rng, f"C{i}", 0, 0, known))
            known.append(f"C{i}")
            names.append(f"C{i}")
    if rng.random() < 0.4:
        out.append("if TYPE_CHECKING:\n    TGAlias = Optional[int]\n    def tg_func(p: TGAlias = None) -> None: ...\n    class TGClass:\n        tg_member: int\n")
    if rng.random() < 0.4:
        out.append("@overload\ndef ov(p: int) -> int: ...\n@overload\ndef ov(p: str) -> str: ...\ndef ov(p):\n    return p\n")
    if rng.random() < 0.5 and names:
        out.append("__all__ = " + repr(rng.sample(names, rng.randint(1, len(names)))) + "\n")
    return "".join(out)


def feature_module(pkg):
    """every expression class reachable from source text, deterministic"""
    lines = ['"""Feature module.\n\nAttributes:\n    E0: first.\n"""\n', IMPORTS.format(pkg=pkg)]
    for i, e in enumerate(VALUE_EXPRS):
        lines.append(f"E{i} = {e}\n")
    for i, an in enumerate(ANNOTATIONS):
        lines.append(f"AN{i}: {an} = None\n")
    lines.append("def allkinds(p0, p1: int = 1, /, p2: 'str' = 's', *args: int, k0, k1: List[int] = [], **kwargs: Any) -> Dict[str, Any]:\n"
                 "    \"\"\"Summary.\n\n    Parameters:\n        p0: A.\n\n    Returns:\n        out: r.\n    \"\"\"\n    return {}\n")
    lines.append("@deco\n@deco_args(1, *x, k=a, **d)\nclass Base(Generic[T], metaclass=type):\n    \"\"\"Base.\"\"\"\n"
                 "    cattr: 'int' = 0\n    \"\"\"Class attribute.\"\"\"\n"
                 "    def __init__(self, q: int = 0) -> None:\n        self.inst: int = q\n        \"\"\"Instance.\"\"\"\n"
                 "    @property\n    def prop(self) -> int:\n        \"\"\"Prop.\"\"\"\n        return 1\n"
                 "    @prop.setter\n    def prop(self, v: int) -> None:\n        pass\n"
                 "    @staticmethod\n    def sm(): ...\n    @classmethod\n    def cm(cls): ...\n"
                 "    class Inner:\n        y = 1 if a else 2\n        class Inner2:\n            z: Tuple[int, ...] = ()\n")
    lines.append("class Child(Base[int], Dict[str, int]):\n    pass\n")
    # typing-only definitions (Griffe marks them runtime=False), module level and class level
    lines.append("if TYPE_CHECKING:\n    TCAlias = Union[int, float]\n    \"\"\"Typing-only alias.\"\"\"\n"
                 "    class TCProto(typing.Protocol):\n        \"\"\"Typing-only protocol.\"\"\"\n        def area(self) -> TCAlias: ...\n"
                 "    def tc_func(obj: object) -> str: ...\n")
    lines.append("class Guarded:\n    \"\"\"Class with typing-only members.\"\"\"\n    if TYPE_CHECKING:\n        tc_attr: int = 0\n"
                 "        def tc_method(self, p: TCAlias) -> int: ...\n        class TCInner: ...\n    real = 1\n")
    lines.append("@dataclasses.dataclass\nclass DC:\n    \"\"\"Dataclass.\"\"\"\n    fx: int\n    \"\"\"Field doc.\"\"\"\n    fy: str = 's'\n")
    # dataclass fields whose field(...) arguments are names / attributes / calls, not only literals (each agrees with the class default,
    # so that CPython's dataclasses.fields can serve as the authority for keyword-only-ness)
    lines.append("KW_DEFAULT = False\n@dataclasses.dataclass\nclass DCF:\n    \"\"\"Dataclass with computed field arguments.\"\"\"\n"
                 "    fa: int = dataclasses.field(default=0, kw_only=dataclasses.MISSING)\n"
                 "    fb: int = dataclasses.field(default=a, kw_only=KW_DEFAULT)\n"
                 "    fc: List[int] = dataclasses.field(default_factory=list, kw_only=bool(0), repr=not a)\n"
                 "    fd: int = dataclasses.field(default=2, kw_only=True, metadata={'k': fn(1)})\n"
                 "    fe: int = dataclasses.field(default=3, init=False)\n"
                 "    ff: 'str' = dataclasses.field(default_factory=lambda: 's', kw_only=os.sep != os.sep)\n"
                 "@dataclasses.dataclass(kw_only=True)\nclass DCK(DCF):\n    ga: int = 0\n    gb: int = dataclasses.field(default=1, kw_only=dataclasses.MISSING)\n"
                 "    gc: int = dataclasses.field(kw_only=False, default=fn())\n")
    lines.append("__all__ = ['Base', 'allkinds', 'E0']\n")
    return "".join(lines)


def write_files(root: Path, files: dict):
    """text files; a value {"symlink_to": <path relative to the scratch root>} makes a symbolic link (written last)"""
    links = []
    for rel, text in files.items():
        p = root / rel
        p.parent.mkdir(parents=True, exist_ok=True)
        if isinstance(text, dict):
            links.append((p, text["symlink_to"]))
            continue
        p.write_text(text, encoding="utf-8")
    for p, target in links:
        if p.is_symlink() or p.exists():
            p.unlink()
        os.symlink(os.path.relpath(root / target, p.parent), p)


def write_package(rng, root: Path, pkg: str, variant: str = "regular", force_extras: bool = False):
    """regular package <root>/<pkg>; variant stubs-same / stubs-other adds a stubs-only package `<pkg>-stubs` (same search path /
    another search path) holding a module that only exists there. Returns a layout."""
    files = {}
    base = pkg
    subs = [f"m{i}" for i in range(rng.randint(1, 3))]
    files[f"{base}/_h.py"] = HELPERS
    init = []
    if rng.random() < 0.6:
        init.append(gen_docstring(rng, 0))
    init.append(f"from {pkg}.feat import Base, allkinds as ak\n")
    init.append(f"from {pkg}.feat import *\n")
    for sname in subs:
        if rng.random() < 0.6:
            init.append(f"from {pkg}.{sname} import *\n")
    init.append("import os\nfrom os import path as ospath\nVERSION = '1.0'\n")
    files[f"{base}/__init__.py"] = "".join(init)
    files[f"{base}/feat.py"] = feature_module(pkg)
    for i, sname in enumerate(subs):
        files[f"{base}/{sname}.py"] = gen_module(rng, pkg, subs[:i], with_unresolvable=rng.random() < 0.5)
    if rng.random() < 0.5:
        files[f"{base}/sub/__init__.py"] = gen_module(rng, pkg, subs, with_unresolvable=False)
        files[f"{base}/sub/leaf.py"] = gen_module(rng, pkg, [], with_unresolvable=False)
    # stub-merged trees with signature mismatches between the concrete module and its stubs (sibling .pyi, in-package __init__.pyi)
    files[f"{base}/stubbed.py"] = STUBBED_PY
    files[f"{base}/stubbed.pyi"] = STUBBED_PYI
    if rng.random() < 0.5:
        files[f"{base}/__init__.py"] += "def init_placeholder(): ...\nclass InitHolder:\n    def meth(): ...\n"
        files[f"{base}/__init__.pyi"] = ("from typing import Any\ndef init_placeholder(p: int, /, q: str = ..., *args: int, k: bool = ..., **kw: Any) -> int: ...\n"
                                         "class InitHolder:\n    def meth(self, x: int = ...) -> str: ...\nVERSION: str\n")
    has_nsdir = force_extras or rng.random() < 0.3
    if has_nsdir:
        # namespace subpackage inside a regular package (list filepath), imported by the package itself half of the time
        files[f"{base}/nsdir/deep.py"] = "z = 1\n"
        if force_extras or rng.random() < 0.5:
            files[f"{base}/__init__.py"] += f"from {pkg} import nsdir\nfrom . import nsdir as data_folder\n"
    if force_extras or rng.random() < 0.35:
        # a module and a sub-package that are symbolic links to a place outside the search directory (linked checkouts)
        files[f"../outside_{pkg}/linked_target.py"] = '"""Reached through a link."""\ndef linked_fn(p: int = 0) -> int: ...\n'
        files[f"../outside_{pkg}/linked_pkg/__init__.py"] = "LINKED = 1\n"
        files[f"../outside_{pkg}/linked_pkg/inner.py"] = "class Inner:\n    at: int = 0\n"
        files[f"{base}/linked.py"] = {"symlink_to": f"../outside_{pkg}/linked_target.py"}
        files[f"{base}/linkedsub"] = {"symlink_to": f"../outside_{pkg}/linked_pkg"}
    if rng.random() < 0.4:
        files[f"{base}/{subs[0]}.pyi"] = "from typing import Any\ndef stub_only(p: int, /, *, k: str = ...) -> Any: ...\nSV: int\n"
    sps = ["."]
    if variant in ("stubs-same", "stubs-other"):
        where = "" if variant == "stubs-same" else f"stubs_{pkg}/"
        files[f"{where}{pkg}-stubs/__init__.pyi"] = "VERSION: str\n"
        files[f"{where}{pkg}-stubs/{subs[0]}.pyi"] = "def from_stubs_package(p: int) -> int: ...\n"
        files[f"{where}{pkg}-stubs/feat.pyi"] = ("from typing import Any\nclass Guarded:\n    def from_stubs(self, a: int, /, b: str = ..., *c: int, d: bool, **e: Any) -> None: ...\n"
                                                 "def allkinds(only_in_stub: int) -> None: ...\n")
        files[f"{where}{pkg}-stubs/only.pyi"] = '"""Only in the stubs package."""\ndef only_here(p: int = 0) -> str: ...\nclass OnlyStub:\n    at: int\n'
        if variant == "stubs-other":
            sps = [".", f"stubs_{pkg}"]
    write_files(root, files)
    return {"package": pkg, "variant": variant, "search_paths": sps, "files": files, "stubs": variant != "regular",
            "namespace_dirs": [f"{base}/nsdir"] if has_nsdir else []}


STUBBED_PY = ('''"""Module whose stubs disagree with it."""
def placeholder(): ...
def fewer(a, b=1): ...
def renamed(x, y): ...
def same(p: int = 0) -> int: ...
class WithStub:
    """Class with a stub."""
    def meth(): ...
    def other(self, a): ...
    @staticmethod
    def sm(): ...
''')
STUBBED_PYI = ('''from typing import Any, overload
def placeholder(p: int, /, q: str = ..., *args: int, k: bool = ..., **kw: Any) -> int: ...
def fewer() -> None: ...
def renamed(u: int, v: str) -> None: ...
def same(p: int = ...) -> int: ...
def only_in_stub(z: bytes, *, flag: bool = ...) -> None: ...
class WithStub:
    def meth(self, x: int = ...) -> str: ...
    def other(self) -> None: ...
    @staticmethod
    def sm(a: int, b: int = ...) -> int: ...
    def only_in_stub(self, *items: Any) -> None: ...
class OnlyInStub:
    def m(self, a: int) -> None: ...
''')

PKG_STYLE_INIT = "__import__('pkg_resources').declare_namespace(__name__)\n"


def write_namespace_layout(rng, root: Path, pkg: str, k=None):
    """native namespace package `pkg` spread over k search paths <root>/<pkg>_sp<i> (a portion in each), modules and regular
    subpackages in every portion, a nested namespace subpackage over a random non-empty subset of the portions and a second
    level below it; some portions are pkg_resources-style (an __init__.py that only declares the namespace). Modules import
    from modules of other portions. Returns a layout."""
    k = k or rng.choice([1, 2, 2, 3, 3])
    sps = [f"{pkg}_sp{i}" for i in range(k)]
    files = {}
    helper_portion = rng.randrange(k)
    files[f"{sps[helper_portion]}/{pkg}/_h.py"] = HELPERS
    plain = []
    for i, sp in enumerate(sps):
        for j in range(rng.randint(1, 2)):
            name = f"m{i}{j}"
            files[f"{sp}/{pkg}/{name}.py"] = gen_module(rng, pkg, rng.sample(plain, min(len(plain), 2)), with_unresolvable=rng.random() < 0.3)
            plain.append(name)
        if rng.random() < 0.6:
            sub = f"r{i}"
            files[f"{sp}/{pkg}/{sub}/__init__.py"] = f'"""Regular subpackage in portion {i}."""\nfrom {pkg}.{sub}.impl import Thing{i}\nLIMIT: int = {i}\n'
            files[f"{sp}/{pkg}/{sub}/impl.py"] = (f'"""Implementation."""\nclass Thing{i}:\n    """A thing."""\n'
                                                  f'    def method(self, x: int = {i}) -> int:\n        """Do it."""\n        return x\n')
            if rng.random() < 0.5:
                files[f"{sp}/{pkg}/{sub}/inner/__init__.py"] = "DEPTH = 2\n"
        if rng.random() < 0.25 and k > 1:
            files[f"{sp}/{pkg}/__init__.py"] = PKG_STYLE_INIT
    deep = sorted(rng.sample(range(k), rng.randint(1, k))) if rng.random() < 0.85 else []
    deeper = sorted(rng.sample(deep, rng.randint(1, len(deep)))) if deep and rng.random() < 0.6 else []
    for i in deep:
        files[f"{sps[i]}/{pkg}/deep/d{i}.py"] = f'"""Module of the nested namespace, portion {i}."""\nfrom {pkg}.{plain[0]} import *\ndef dfn{i}(p: int = {i}) -> int: ...\n'
    for i in deeper:
        files[f"{sps[i]}/{pkg}/deep/er/e{i}.py"] = f"class E{i}:\n    at: int = {i}\n"
    write_files(root, files)
    ns_dirs = [f"{sp}/{pkg}" for sp in sps] + [f"{sps[i]}/{pkg}/deep" for i in deep] + [f"{sps[i]}/{pkg}/deep/er" for i in deeper]
    return {"package": pkg, "variant": f"namespace-{k}", "search_paths": sps, "files": files, "stubs": False, "namespace_dirs": ns_dirs,
            "portions": k, "deep": deep, "deeper": deeper}


def layout_cwds(rng, layout, everything: bool):
    """directories (relative to the scratch root, or absolute) to dump from: above everything first, then a choice (2 quick, 4
    thorough) of: above one search path only, a namespace directory itself, inside one, an unrelated directory, the file system root"""
    out = ["."]
    more = ["elsewhere", "/"]
    more += [sp for sp in layout["search_paths"] if sp != "."]
    more += layout["namespace_dirs"]
    if layout["variant"] == "regular" or layout["stubs"]:
        more.append(layout["package"])
    more = sorted(set(more))
    return out + rng.sample(more, min(len(more), 4 if everything else 2))


# ---------------------------------------------------------------------------------------------- loading and dumping

class DumpFailed(Exception):
    """as_json(full=True) raised on a tree that loaded"""


class Watchdog:
    def __init__(self, seconds):
        self.seconds = seconds

    def __enter__(self):
        self.old = signal.signal(signal.SIGALRM, self._fire)
        signal.alarm(self.seconds)

    def _fire(self, *a):
        raise TimeoutError("watchdog")

    def __exit__(self, *a):
        signal.alarm(0)
        signal.signal(signal.SIGALRM, self.old)


def load_tree(search_paths, pkg: str, mode: str, parser, resolve: bool, stubs: bool = False, options=None):
    """load `pkg` from the given (absolute) search paths; returns the live top object; raises whatever Griffe raises"""
    import griffe
    import logging
    logging.getLogger("griffe").setLevel(logging.CRITICAL)
    logging.getLogger("_griffe").setLevel(logging.CRITICAL)
    loader = griffe.GriffeLoader(search_paths=[str(p) for p in search_paths], docstring_parser=griffe.Parser(parser) if parser else None,
                                 docstring_options=options, allow_inspection=True, force_inspection=(mode == "dynamic"))
    old_limit = sys.getrecursionlimit()
    added = [str(p) for p in search_paths if str(p) not in sys.path] if mode == "dynamic" else []
    sys.path[0:0] = added
    try:
        with Watchdog(60):
            top = loader.load(pkg, find_stubs_package=stubs)
            if resolve:
                loader.resolve_aliases(implicit=True, external=False)
    finally:
        sys.setrecursionlimit(old_limit)
        for a in added:
            sys.path.remove(a)
        if mode == "dynamic":
            for m in [m for m in sys.modules if m == pkg or m.startswith(pkg + ".")]:
                del sys.modules[m]
    return top


def dump_at(top, cwd):
    """as_json(full=True) from the given working directory: ("ok", document) | ("raised", exception class name, message)"""
    old_limit = sys.getrecursionlimit()
    here = os.getcwd()
    os.chdir(cwd)
    try:
        with Watchdog(60):
            try:
                text = top.as_json(full=True)
            except TimeoutError:
                raise
            except BaseException as e:  # noqa: BLE001  (RecursionError included)
                if isinstance(e, (KeyboardInterrupt, SystemExit)):
                    raise
                return ("raised", type(e).__name__, str(e)[:300])
    finally:
        os.chdir(here)
        sys.setrecursionlimit(old_limit)
    return ("ok", json.loads(text))


def load_and_dump(root: Path, pkg: str, mode: str, parser, resolve: bool, search_paths=(".",), cwd=".", stubs=False, options=None):
    """returns (live top object, document); raises DumpFailed when the dump raises, whatever Griffe raises when the load does"""
    top = load_tree([(root / sp).resolve() for sp in search_paths], pkg, mode, parser, resolve, stubs, options)
    where = Path(cwd) if str(cwd).startswith("/") else (root / cwd)
    where.mkdir(parents=True, exist_ok=True)
    out = dump_at(top, where)
    if out[0] == "raised":
        raise DumpFailed(f"{out[1]}: {out[2]}")
    return top, out[1]


# which Python exception each error of the model's `dump` stands for, and the known finding it is (if any)
MODEL_ERRORS = {
    "relative_filepath": (None, lambda name, msg: name == "IndexError"),
    "relative_package_filepath": ("C09-F7", lambda name, msg: name == "ValueError"),
    "builtin": (None, lambda name, msg: name == "BuiltinModuleError"),
    "not_serializable": (None, lambda name, msg: name == "TypeError" and "is not JSON serializable" in msg),
}


# ---------------------------------------------------------------------------------------------- the checks

class State:
    def __init__(self, ctx):
        self.ctx = ctx
        self.root = None
        self.auth = Authority()
        self.seen_nodes = {}
        self.mutation_pool = []
        self.expr_classes = set()


def collect_expr_classes(doc, acc):
    if isinstance(doc, dict):
        if isinstance(doc.get("cls"), str):
            acc.add(doc["cls"])
        for v in doc.values():
            collect_expr_classes(v, acc)
    elif isinstance(doc, list):
        for v in doc:
            collect_expr_classes(v, acc)


def count_nonruntime(o) -> int:
    """objects (not aliases) Griffe marked as typing-only / stub-only"""
    if o.is_alias:
        return 0
    return (0 if getattr(o, "runtime", True) else 1) + sum(count_nonruntime(m) for m in o.members.values())


def nontrivial_node(d):
    if not isinstance(d, dict):
        return True
    return any(k in d for k in ("docstring", "lineno", "bases", "parameters", "value", "annotation", "target_path"))


def stubs_module_outside(tree) -> bool:
    """C09-F7 classifier, harness half: some module of the tree has its file below a `<package>-stubs` directory"""
    if tree[0] != "pobj":
        return False
    fp = tree[4]
    if fp[0] == "own" and fp[1][0] == "one" and any(c.endswith("-stubs") for c in fp[1][1]):
        return True
    return any(stubs_module_outside(m) for _n, m in tree[9])


def check_outcome(st: State, top, tree, outcome, cwd, label: dict, nodes: bool = True):
    """one dump of one loaded tree from one working directory: the model's `dump` (paths derived, then the encoder) against what
    as_json(full=True) did -- both may raise; then the whole-document and node-by-node ties and the direct property evaluation"""
    ctx = st.ctx
    files = label.get("files")
    label = {k: v for k, v in label.items() if k != "files"}
    try:
        mcwd = a_path(cwd)
    except ValueError as e:
        ctx.tie_failure("harness", "cwd", str(e), label)
        return
    res = ctx.model([["dump", mcwd, tree]])[0]
    if res == ["bad-input"] or res[0] not in ("ok", "err"):
        ctx.tie_failure("harness", "model rejected the harness encoding of a tree", {"result": res if res == ["bad-input"] else res[:1]}, label)
        return
    loadable, placed = res[-2:]
    ctx.observe("model_dump", f"{res[0]}{':' + res[1] if res[0] == 'err' else ''} placed={placed}")
    if outcome[0] == "raised":
        _, ename, msg = outcome
        detail = {"full_dump_raised": f"{ename}: {msg}", "model": res[:2] if res[0] == "err" else "document"}
        ctx.case({**label, "whole_document": True, "raised": ename}, True)
        ctx.observe("dump_exception", f"{ename}: {msg[:24]}")
        if res[0] == "err":
            finding, same = MODEL_ERRORS[res[1]]
            if finding == "C09-F7" and not (label.get("find_stubs_package") and stubs_module_outside(tree)):
                finding = None    # F7 is about modules of a stubs-only package; any other module outside its package is something else
            if same(ename, msg) and finding is not None:
                # the faithful model of the unchanged code raises the same error on this very tree and cwd: the known finding
                ctx.property_failure({**label, "files": files}, detail, finding=finding)
                return
            if not same(ename, msg):
                ctx.tie_failure("correspondence", "dump(model) and as_json(full=True) raise different errors", detail, label)
        ctx.property_failure({**label, "files": files}, detail, finding=None)
        return
    doc = outcome[1]
    if res[0] == "err":
        ctx.tie_failure("correspondence", "dump(model) raises, as_json(full=True) produced a document", {"model": res[:2]}, label)
        return
    jv = st.auth.valid(doc)
    collect_expr_classes(doc, st.expr_classes)
    # whole document: validator tie, grammar membership, encoder tie
    out = ctx.model([["validate", jx(doc)], ["member", jx(doc)]])
    if out[0] == ["bad-input"] or out[1] == ["bad-input"]:
        ctx.tie_failure("harness", "model rejected the harness encoding", {"results": [r if r == ["bad-input"] else "ok" for r in out]}, label)
        return
    mv = out[0][0]
    in_full = out[1][0]
    enc_json = res[1]
    ctx.case({**label, "whole_document": True, "nodes": sum(1 for _ in doc_nodes(doc))}, True)
    ctx.observe("whole_doc_verdict", "valid" if jv else "invalid")
    if mv != (1 if jv else 0):
        ctx.tie_failure("oracle", "validates(model) vs jsonschema on a whole document", {"model": mv, "jsonschema": jv}, label)
    mdoc = unjx(enc_json)
    if in_full != 1:
        ctx.tie_failure("correspondence", "real full dump is not generated by the encoder grammar G_enc", {"member": in_full}, label)
    if loadable != 1:
        ctx.tie_failure("correspondence", "a tree loaded from disk is outside the theorems' domain (loadable = false)", {}, label)
    if mdoc != canon(doc):
        ctx.tie_failure("correspondence", "dump(model) vs as_json(full=True) on a whole document",
                        {"first_difference": first_diff(mdoc, canon(doc))}, label)
    for _path, nd in doc_nodes(doc):
        if isinstance(nd, dict) and "relative_filepath" in nd:
            rf, fp = nd["relative_filepath"], nd["filepath"]
            ctx.observe("relative_filepath_branch", ("namespace:" if isinstance(fp, list) else "file:")
                        + ("not-a-string" if not isinstance(rf, str) else "absolute" if rf.startswith("/") else "dot" if rf == "." else "relative"))
    if not jv:
        ctx.observe("whole_doc_invalid", 1)
    if not nodes:
        if not jv:
            leaves = st.auth.leaves(doc)
            ctx.property_failure({**label, "files": files}, {"jsonschema_errors": [leaf_repr(lf) for lf in leaves][:5] or "rejected without error leaves"}, finding=None)
        return
    # node by node
    todo = []
    for path, nd in doc_nodes(doc):
        local = strip_doc(nd)
        key = json.dumps(local, sort_keys=True)
        if key in st.seen_nodes:
            ctx.count("node_documents_repeated")
            continue
        st.seen_nodes[key] = True
        todo.append((path, local))
    if not todo:
        return
    out = ctx.model([["validate", jx(local)] for _path, local in todo])
    for (path, local), r in zip(todo, out):
        mv = r[0]
        case = {**label, "path": ".".join(path), "node": local}
        kind = local.get("kind") if isinstance(local, dict) else "?"
        ctx.case({"node": local}, nontrivial_node(local))
        ctx.observe("node_kind", kind)
        ctx.observe("node_keys", ",".join(sorted(k for k in local if k in ("lineno", "endlineno", "docstring", "value", "annotation"))))
        if isinstance(local.get("docstring"), dict):
            for sec in local["docstring"].get("parsed", []):
                ctx.observe("section_kind", sec.get("kind"))
                ctx.observe("section_value_type", type(sec.get("value")).__name__)
        for p in local.get("parameters", []) if isinstance(local.get("parameters"), list) else []:
            ctx.observe("parameter_kind", p.get("kind"))
        jv = st.auth.valid(local)
        ctx.observe("node_verdict", "valid" if jv else "invalid")
        if mv != (1 if jv else 0):
            ctx.tie_failure("oracle", "validates(model) vs jsonschema on a node document", {"model": mv, "jsonschema": jv}, case)
        if jv:
            if len(st.mutation_pool) < 400 or ctx.rng.random() < 0.05:
                st.mutation_pool.append(local)
            continue
        leaves = st.auth.leaves(local)
        ctx.property_failure({**case, "files": files}, {"jsonschema_errors": [leaf_repr(lf) for lf in leaves] or "rejected without error leaves"}, finding=None)


# --- the loaders' construction sites (Model/C09_load.v) against the loaders: parameters and decorators of every function

def ast_functions(files: dict):
    """source text -> {(file, first line as Griffe counts it, name): FunctionDef}; the harness reads the sources on its own"""
    import ast
    out = {}
    for rel, text in files.items():
        if not rel.endswith(".py") or not isinstance(text, str):
            continue
        try:
            tree = ast.parse(text)
        except SyntaxError:
            continue
        for node in ast.walk(tree):
            if isinstance(node, (ast.FunctionDef, ast.AsyncFunctionDef)):
                first = node.decorator_list[0].lineno if node.decorator_list else node.lineno
                out[(rel, first, node.name)] = node
    return out


def ast_arguments(node):
    """ast.arguments -> the model's ast_arguments (annotation / default reduced to present or absent)"""
    a = node.args
    mark = lambda x: ["none"] if x is None else ["str", "<given>"]   # noqa: E731
    pos = list(a.posonlyargs) + list(a.args)
    defaults = [None] * (len(pos) - len(a.defaults)) + list(a.defaults)
    enc = lambda arg, d: [arg.arg, mark(arg.annotation), mark(d)]   # noqa: E731
    po = [enc(x, d) for x, d in zip(pos[:len(a.posonlyargs)], defaults[:len(a.posonlyargs)])]
    ar = [enc(x, d) for x, d in zip(pos[len(a.posonlyargs):], defaults[len(a.posonlyargs):])]
    ko = [enc(x, d) for x, d in zip(a.kwonlyargs, a.kw_defaults)]
    return [po, ar, [] if a.vararg is None else [enc(a.vararg, None)], ko, [] if a.kwarg is None else [enc(a.kwarg, None)]]


def live_function(module, o):
    """the function object the inspector looked at for the Griffe function `o` (None when it cannot be told)"""
    import inspect
    parts = o.path[len(o.module.path) + 1:].split(".")
    cur = module
    for part in parts[:-1]:
        cur = vars(cur).get(part) if isinstance(cur, type) else getattr(cur, part, None)
        if not isinstance(cur, type):
            return None
    raw = vars(cur).get(parts[-1]) if isinstance(cur, type) else getattr(cur, parts[-1], None)
    if isinstance(raw, (staticmethod, classmethod)):
        raw = raw.__func__
    return raw if inspect.isfunction(raw) else None


def sig_param(p, griffe_param):
    """inspect.Parameter -> the model's sig_param: what _convert_parameter / _convert_object_to_annotation look at"""
    import ast
    import inspect
    ann = p.annotation
    if ann is inspect.Parameter.empty:
        a = ["empty"]
    else:
        if isinstance(ann, str):
            text = ann
        else:
            r = repr(ann)
            text = ann.__name__ if (hasattr(ann, "__name__") and "<" in r) else r
        try:
            compile(text, mode="eval", filename="<>", flags=ast.PyCF_ONLY_AST, optimize=2, dont_inherit=True)
            parsed = [a_val(griffe_param.annotation)]     # the expression builder is not modelled here: its result is an input
        except SyntaxError:
            parsed = []
        a = ["text", text, parsed]
    d = p.default
    if d is inspect.Parameter.empty:
        dd = ["empty"]
    elif isinstance(getattr(d, "__name__", None), str):
        dd = ["named", d.__name__]
    else:
        dd = ["other", repr(d)]
    return [p.name, p.kind.name, a, dd]


def check_builders(st: State, top, layout: dict, mode: str, label: dict):
    """static: get_parameters / Decorator sites vs ast.arguments / decorator nodes of the source text;
    dynamic: _convert_parameter vs inspect.signature of the re-imported function"""
    import importlib
    import inspect
    ctx = st.ctx
    funcs = []

    def walk(o):
        if o.is_alias:
            return
        if o.kind.value == "function":
            funcs.append(o)
        for m in o.members.values():
            walk(m)
    walk(top)
    if not funcs:
        return
    root = st.root
    queries, expect, cases = [], [], []
    synth = []
    if mode == "static":
        table = ast_functions(layout["files"])
        for o in funcs:
            fp = o.filepath
            if isinstance(fp, list) or not str(fp).endswith(".py"):
                continue
            rel = os.path.relpath(str(fp), str(root))
            node = table.get((rel, o.lineno, o.name))
            if node is None:
                if o.name == "__init__" and o.parent is not None and "dataclass" in o.parent.labels:
                    synth.append(o)
                    continue
                ctx.observe("builders_static", "no ast node (stub)")
                continue
            ctx.observe("builders_static", "compared")
            got = [d.lineno for d in o.decorators]
            want = [d.lineno for d in node.decorator_list]
            if got != want or not all(isinstance(x, int) for x in got):
                ctx.tie_failure("correspondence", "decorator line numbers vs the ast nodes' (visit_decorator)", {"griffe": got, "ast": want}, {**label, "path": o.path})
            queries.append(["visit-params", ast_arguments(node)])
            expect.append([[p.name, None if p.kind is None else p.kind.value, p.annotation is None,
                            p.default if (p.kind is not None and p.kind.value.startswith("variadic")) else (p.default is None)] for p in o.parameters])
            cases.append({**label, "path": o.path, "builder": "visitor"})
        if synth:
            check_synthesised(st, synth, layout, label, queries, expect, cases)
    else:
        added = [str((root / sp).resolve()) for sp in layout["search_paths"]]
        sys.path[0:0] = added
        pkg = layout["package"]
        try:
            for o in funcs:
                try:
                    module = importlib.import_module(o.module.path)
                    fn = live_function(module, o)
                    sig = inspect.signature(fn) if fn is not None else None
                except Exception:  # noqa: BLE001
                    sig = None
                if sig is None or len(sig.parameters) != len(o.parameters):
                    ctx.observe("builders_dynamic", "no live function / signature")
                    continue
                ctx.observe("builders_dynamic", "compared")
                queries.append(["inspect-params", [sig_param(p, gp) for p, gp in zip(sig.parameters.values(), o.parameters)]])
                expect.append([[p.name, None if p.kind is None else p.kind.value, enc_or_object(p.annotation), enc_or_object(p.default)] for p in o.parameters])
                cases.append({**label, "path": o.path, "builder": "inspector"})
        finally:
            for a in added:
                sys.path.remove(a)
            for m in [m for m in sys.modules if m == pkg or m.startswith(pkg + ".")]:
                del sys.modules[m]
    if not queries:
        return
    out = ctx.model(queries)
    for q, r, e, case in zip(queries, out, expect, cases):
        ctx.case({"stream": "builders", **case, "parameters": len(e)}, bool(e))
        if r == ["bad-input"]:
            ctx.tie_failure("harness", "model rejected a builder query", {"query": q[0]}, case)
            continue
        if q[0] == "synth-kinds":
            got = [(k[0] if k else None) for k in r]
        elif q[0] == "visit-params":
            got = [[n, (k[0] if k else None), a == ["n"], (d if (k and k[0].startswith("variadic")) else d == ["n"])] for n, a, k, d, _oa, _od in r]
        else:
            got = [[n, (k[0] if k else None), "object" if oa == 1 else a, "object" if od == 1 else d] for n, a, k, d, oa, od in r]
            for _n, _a, _k, d, _oa, od in r:
                ctx.observe("builders_inspect_default", "object" if od == 1 else ("string" if isinstance(d, str) else "none" if d == ["n"] else "raw"))
        for row in got:
            ctx.observe("builders_kind", row if q[0] == "synth-kinds" else row[1])
        if no_addresses(got) != no_addresses(e):
            ctx.tie_failure("correspondence", f"{q[0]} (model of the construction site) vs the loader", {"model": got, "loader": e}, case)


def no_addresses(v):
    """memory addresses in reprs differ between Griffe's import of a module and the harness's own: never compared"""
    import re
    if isinstance(v, str):
        return re.sub(r"0x[0-9a-fA-F]+", "0x?", v)
    if isinstance(v, list):
        return [no_addresses(x) for x in v]
    return v


def check_synthesised(st: State, synth, layout, label, queries, expect, cases):
    """the __init__ the dataclasses extension synthesises (static load) vs CPython: import the class, ask dataclasses.fields which
    __init__ fields are keyword-only, let the model (synth_init) give the kinds, compare with Griffe's parameters name by name"""
    import dataclasses
    import importlib
    ctx = st.ctx
    added = [str((st.root / sp).resolve()) for sp in layout["search_paths"]]
    sys.path[0:0] = added
    pkg = layout["package"]
    try:
        for o in synth:
            try:
                cls = importlib.import_module(o.module.path)
                for part in o.parent.path[len(o.module.path) + 1:].split("."):
                    cls = vars(cls)[part] if isinstance(cls, type) else getattr(cls, part)
                kw = {f.name: bool(f.kw_only) for f in dataclasses.fields(cls) if f.init}
            except Exception:  # noqa: BLE001
                ctx.observe("builders_static", "synthesised __init__: class not importable")
                continue
            names = [p.name for p in o.parameters]
            if not names or names[0] != "self" or any(n not in kw for n in names[1:]):
                ctx.observe("builders_static", "synthesised __init__: fields differ from CPython's")
                continue
            ctx.observe("builders_static", "synthesised __init__ compared")
            queries.append(["synth-kinds", [kw[n] for n in names[1:]]])
            expect.append([None if p.kind is None else p.kind.value for p in o.parameters])
            cases.append({**label, "path": o.path, "builder": "dataclasses extension"})
    finally:
        for a in added:
            sys.path.remove(a)
        for m in [m for m in sys.modules if m == pkg or m.startswith(pkg + ".")]:
            del sys.modules[m]


def enc_or_object(v):
    """what the dump shows for a `str | Expr | None` field as the loader left it: its JSON, or "object" when json has no rule"""
    return "object" if a_val(v) == ["object"] else jx(_enc_json(v))


def run_layout(st: State, root: Path, layout: dict, configs, cwds, direct_only=False, extra_label=None):
    """load the layout's package under every configuration, dump it from every listed working directory, check each outcome"""
    ctx = st.ctx
    pkg = layout["package"]
    sps = [(root / sp).resolve() for sp in layout["search_paths"]]
    for mode, parser, resolve, *rest in configs:
        options = rest[0] if rest else None
        label = {"package": pkg, "variant": layout["variant"], "mode": mode, "parser": parser, "resolve_aliases": resolve,
                 "search_paths": layout["search_paths"], "find_stubs_package": layout["stubs"], **(extra_label or {})}
        if rest:
            label["docstring_options"] = options
        ctx.observe("config", f"{layout['variant']}/{mode}/{parser}/resolve={resolve}" + (f"/options={'none' if options is None else len(options)}" if rest else ""))
        try:
            top = load_tree(sps, pkg, mode, parser, resolve, layout["stubs"], options)
        except Exception as e:  # noqa: BLE001
            ctx.observe("load_exception", type(e).__name__)
            ctx.property_failure({**label, "files": layout["files"]}, {"load_raised": f"{type(e).__name__}: {str(e)[:300]}"}, finding=None)
            continue
        ctx.observe("objects_runtime_false", count_nonruntime(top))
        tree = None
        if not direct_only:
            try:
                tree = abstract(top)
            except Exception as e:  # noqa: BLE001
                # reading `parsed` runs the docstring parser, as the full dump does: when the dump raises too, that is the failing input
                where = Path(cwds[0]) if cwds[0].startswith("/") else (root / cwds[0]).resolve()
                where.mkdir(parents=True, exist_ok=True)
                outcome = dump_at(top, where)
                if outcome[0] == "raised":
                    ctx.observe("dump_exception", f"{outcome[1]}: {outcome[2][:24]}")
                    ctx.property_failure({**label, "cwd": cwds[0], "files": layout["files"]},
                                         {"full_dump_raised": f"{outcome[1]}: {outcome[2]}", "while": "docstrings are parsed during the dump"}, finding=None)
                else:
                    ctx.tie_failure("harness", "abstraction of the live tree failed", f"{type(e).__name__}: {e}", label)
                continue
        if not direct_only:
            st.root = root
            try:
                check_builders(st, top, layout, mode, label)
            except ModelUnavailableError:
                raise
            except Exception as e:  # noqa: BLE001
                ctx.tie_failure("harness", "builder correspondence failed", f"{type(e).__name__}: {e}", label)
        for n, cwd in enumerate(cwds):
            where = Path(cwd) if cwd.startswith("/") else (root / cwd).resolve()
            where.mkdir(parents=True, exist_ok=True)
            lab = {**label, "cwd": cwd, "files": layout["files"]}
            ctx.observe("cwd", "root" if cwd == "." else "fs-root" if cwd == "/" else "elsewhere" if cwd == "elsewhere"
                        else "namespace-dir" if cwd in layout["namespace_dirs"] else "search-path" if cwd in layout["search_paths"] else "package-dir")
            outcome = dump_at(top, where)
            if direct_only:
                if outcome[0] == "raised":
                    ctx.property_failure(lab, {"full_dump_raised": f"{outcome[1]}: {outcome[2]}"}, finding=None)
                else:
                    direct_check(st, outcome[1], lab)
            else:
                check_outcome(st, top, tree, outcome, where, lab, nodes=(n == 0))


def first_diff(a, b, path=""):
    if type(a) is not type(b):
        return {"at": path, "model": repr(a)[:120], "impl": repr(b)[:120]}
    if isinstance(a, dict):
        for k in sorted(set(a) | set(b)):
            if k not in a or k not in b:
                return {"at": f"{path}/{k}", "model": "present" if k in a else "absent", "impl": "present" if k in b else "absent"}
            d = first_diff(a[k], b[k], f"{path}/{k}")
            if d:
                return d
        return None
    if isinstance(a, list):
        if len(a) != len(b):
            return {"at": path, "model_len": len(a), "impl_len": len(b)}
        for i, (x, y) in enumerate(zip(a, b)):
            d = first_diff(x, y, f"{path}/{i}")
            if d:
                return d
        return None
    return None if a == b else {"at": path, "model": repr(a)[:120], "impl": repr(b)[:120]}


# --- mutated documents: the validator model against jsonschema on (mostly) invalid inputs

SCALARS = [None, True, False, 0, 7, -1, 1.0, 1.5, "", "alias", "module", "class", "function", "attribute", "text", "zzz", [], {}, [1], {"k": 1}, ["a"]]


def all_paths(doc, path=()):
    yield path
    if isinstance(doc, dict):
        for k, v in doc.items():
            yield from all_paths(v, path + (k,))
    elif isinstance(doc, list):
        for i, v in enumerate(doc):
            yield from all_paths(v, path + (i,))


def mutate(rng, doc, donors):
    doc = json.loads(json.dumps(doc))
    n = rng.choice([1, 1, 1, 2, 3])
    ops = []
    for _ in range(n):
        paths = [p for p in all_paths(doc) if p]
        op = rng.choice(["delete", "retype", "retype", "add", "kind", "member", "swap"])
        if op == "member" and isinstance(doc, dict) and isinstance(doc.get("members"), dict):
            donor = json.loads(json.dumps(rng.choice(donors)))
            if rng.random() < 0.5:
                donor = mutate(rng, donor, donors[:1])[0] if rng.random() < 0.7 else json.loads(json.dumps(rng.choice(SCALARS)))
            doc["members"]["mut"] = donor
            ops.append("member")
            continue
        if op == "kind" and isinstance(doc, dict):
            doc["kind"] = rng.choice(["alias", "module", "class", "function", "attribute", "zzz", 3, None])
            ops.append("kind")
            continue
        if op == "add":
            holders = [p for p in all_paths(doc) if isinstance(at_path(doc, p), dict)]
            h = at_path(doc, rng.choice(holders))
            h[rng.choice(["extra", "lineno", "endlineno", "value", "bases", "parameters", "returns", "target_path", "decorators", "annotation"])] = json.loads(json.dumps(rng.choice(SCALARS)))
            ops.append("add")
            continue
        if not paths:
            continue
        p = rng.choice(paths)
        parent = at_path(doc, p[:-1])
        if op == "delete":
            if isinstance(parent, dict):
                del parent[p[-1]]
            else:
                parent.pop(p[-1])
            ops.append("delete")
        elif op == "swap":
            q = rng.choice(paths)
            try:
                parent[p[-1]] = json.loads(json.dumps(at_path(doc, q)))
                ops.append("swap")
            except (KeyError, IndexError, TypeError):
                pass
        else:
            parent[p[-1]] = json.loads(json.dumps(rng.choice(SCALARS)))
            ops.append("retype")
    return doc, ops


def check_mutants(st: State, n):
    ctx = st.ctx
    pool = st.mutation_pool
    if not pool:
        ctx.tie_failure("harness", "no valid node documents to mutate", {})
        return
    docs = []
    for _ in range(n):
        base = ctx.rng.choice(pool)
        try:
            m, ops = mutate(ctx.rng, base, pool)
        except RecursionError:
            ctx.tie_failure("harness", "mutate recursion", {"base": json.dumps(base)[:3000]})
            continue
        docs.append((m, ops))
    out = ctx.model([["validate", jx(m)] for m, _ in docs])
    for (m, ops), r in zip(docs, out):
        jv = st.auth.valid(m)
        ctx.count("mutant_documents")
        ctx.observe("mutant_verdict", "valid" if jv else "invalid")
        ctx.observe("mutant_ops", "+".join(sorted(set(ops))) or "none")
        if r == ["bad-input"] or r[0] != (1 if jv else 0):
            ctx.tie_failure("oracle", "validates(model) vs jsonschema on a mutated document", {"model": r, "jsonschema": jv, "ops": ops}, {"document": m})


# --- corpus: the witnesses of the repaired findings F1..F5 must keep passing; witness of the known finding F6

def replay_corpus(st: State, root: Path):
    """minimised past disagreements, replayed first. A case: files ({pkg} is replaced by a fresh package name), mode, parser,
    optionally search_paths (default: the scratch root), cwds to dump from (default: above everything), resolve_aliases"""
    ctx = st.ctx
    d = Path(__file__).resolve().parents[2] / "corpus" / "C09"
    sys.path.insert(0, str(root))
    try:
        for i, f in enumerate(sorted(d.glob("*.json"))):
            c = json.loads(f.read_text())
            pkg = f"c09c{i}_{os.getpid()}"
            files = {rel.format(pkg=pkg): text.replace("{pkg}", pkg) if c.get("substitute_in_text") else text for rel, text in c["files"].items()}
            write_files(root, files)
            sps = [sp.format(pkg=pkg) for sp in c.get("search_paths", ["."])]
            layout = {"package": pkg, "variant": "corpus", "search_paths": sps, "files": files, "stubs": bool(c.get("find_stubs_package")),
                      "namespace_dirs": [nd.format(pkg=pkg) for nd in c.get("namespace_dirs", [])]}
            ctx.observe("corpus", f.name)
            run_layout(st, root, layout, [(c["mode"], c.get("parser"), bool(c.get("resolve_aliases")))],
                       [w.format(pkg=pkg) for w in c.get("cwds", ["."])], extra_label={"corpus": f.name})
    finally:
        sys.path.remove(str(root))


def witness_layouts(root: Path):
    """the witnesses of the known findings, as layouts + the cwd to dump from + the loading mode"""
    pid = os.getpid()
    sp = f"c09st_{pid}"
    f7 = {"package": sp, "variant": "witness-F7", "search_paths": [f"{sp}_a", f"{sp}_b"], "stubs": True, "namespace_dirs": [],
          "files": {f"{sp}_a/{sp}/__init__.py": "x = 1\n", f"{sp}_b/{sp}-stubs/__init__.pyi": "x: int\n",
                    f"{sp}_b/{sp}-stubs/only.pyi": "def g() -> int: ...\n"}}
    return {"C09-F7": (f7, ".", "static")}


def replay_known(st: State, root: Path):
    """each known finding's witness: the implementation must still fail as recorded AND the model of the unchanged code must
    fail the same way on it (anything else on these inputs is reported through the ordinary path)"""
    ctx = st.ctx
    sys.path.insert(0, str(root))
    try:
        for fid, (layout, cwd, mode) in witness_layouts(root).items():
            write_files(root, layout["files"])
            before = ctx.known_hits[fid]
            run_layout(st, root, layout, [(mode, None, False)], [cwd])
            ctx.witness(fid, ctx.known_hits[fid] > before)
    finally:
        sys.path.remove(str(root))


PASSTHROUGH = {
    # what inspector._convert_parameter / _convert_object_to_annotation take from the live objects as they are
    "name_int": ("class NameInt:\n    __name__ = 3\n", "def pt{i}(p=NameInt(), q: int = 0): ...\n"),
    "name_list": ("class NameList:\n    @property\n    def __name__(self):\n        return ['x', 1, None]\n", "def pt{i}(p=NameList()) -> int: ...\n"),
    "name_none": ("class NameNone:\n    __name__ = None\n", "def pt{i}(p=NameNone()): ...\n"),
    "name_object": ("class NameObject:\n    __name__ = object()\n", "def pt{i}(p=NameObject()): ...\n"),
    "annotation_object": ("class Opaque:\n    pass\n", "def pt{i}(p: Opaque() = 1): ...\n"),
    "returns_object": ("class Opaque2:\n    pass\n", "def pt{i}(p: int = 1) -> Opaque2(): ...\n"),
    "property_object": ("class Opaque3:\n    pass\n", "class Holder{i}:\n    @property\n    def prop(self) -> Opaque3(): ...\n"),
    "annotation_parsable_object": ("class Shown:\n    def __repr__(self):\n        return 'Shown(1, k=2)'\n", "def pt{i}(p: Shown() = Shown()) -> Shown(): ...\n"),
    "named_default": ("import os\n", "def pt{i}(p=os.getcwd, q=int, r=len): ...\n"),
}


def write_passthrough_package(rng, root: Path, pkg: str):
    """a module for dynamic inspection whose defaults / annotations are live objects of the kinds the inspector treats specially"""
    kinds = rng.sample(sorted(PASSTHROUGH), rng.randint(1, 3))
    text = ('"""Inspected module."""\n' + "".join(PASSTHROUGH[k][0] for k in kinds)
            + "".join(PASSTHROUGH[k][1].format(i=i) for i, k in enumerate(kinds)) + "def plain(p: int = 0) -> str: ...\n")
    files = {f"{pkg}/__init__.py": text}
    write_files(root, files)
    return {"package": pkg, "variant": "inspected-passthrough", "search_paths": ["."], "files": files, "stubs": False, "namespace_dirs": [], "kinds": kinds}


def run_passthrough(st: State, root: Path, n: int):
    ctx = st.ctx
    sys.path.insert(0, str(root))
    try:
        for i in range(n):
            layout = write_passthrough_package(ctx.rng, root, f"c09i{ctx.seed % 100000}_{os.getpid()}_{i}")
            for k in layout["kinds"]:
                ctx.observe("passthrough_kind", k)
            run_layout(st, root, layout, [("dynamic", None, False)], ["."])
    finally:
        sys.path.remove(str(root))


def check_paths(st: State):
    """Object.relative_filepath / relative_package_filepath against the model's rel_filepath / rel_package_filepath on modules
    built through the API (no files needed): one file or a list of directories on either side, portions nested in one another,
    equal to / above / below / beside the working directory, the file system root"""
    import griffe
    ctx = st.ctx
    rng = ctx.rng
    base = (ctx.scratch / "paths").resolve()
    real = [base, base / "a", base / "a" / "b", base / "b"]
    for d in real:
        d.mkdir(parents=True, exist_ok=True)
    real.append(Path("/"))

    def rnd_path(maxlen=4):
        if rng.random() < 0.06:
            return Path("/")
        if rng.random() < 0.1:
            return Path("/") / rng.choice("ab")
        p = base
        for _ in range(rng.randint(0, maxlen)):
            p = p / rng.choice(["a", "a", "b", "c"])
        return p

    def rnd_fp():
        if rng.random() < 0.5:
            return rnd_path() / rng.choice(["m.py", "__init__.py", "a"])
        return [rnd_path() for _ in range(rng.randint(1, 3))]

    def enc(fp):
        return ["list", [a_path(p) for p in fp]] if isinstance(fp, list) else ["one", a_path(fp)]

    def attempt(f):
        try:
            return ["ok", str(f())]
        except ValueError:
            return ["err"]

    cases = []
    here = os.getcwd()
    try:
        for _ in range(ctx.budget(1500, 20000)):
            cwd = rng.choice(real)
            pkg, fp = rnd_fp(), rnd_fp()
            top = griffe.Module("p", filepath=pkg)
            mod = griffe.Module("m", filepath=fp)
            top.set_member("m", mod)
            os.chdir(cwd)
            got = [attempt(lambda: mod.relative_filepath), attempt(lambda: mod.relative_package_filepath)]
            cases.append((["relpath", a_path(cwd), enc(pkg), enc(fp)], got, {"cwd": str(cwd), "package_filepath": str(pkg), "filepath": str(fp)}))
    finally:
        os.chdir(here)
    out = ctx.model([c[0] for c in cases])
    for (_q, got, case), r in zip(cases, out):
        kind = ("list" if case["filepath"].startswith("[") else "one") + "/" + ("list" if case["package_filepath"].startswith("[") else "one")
        ctx.case({"stream": "paths", **case}, True)
        ctx.observe("paths_relative_filepath", f"{kind.split('/')[0]}:{got[0][0] if got[0][0] == 'err' else ('absolute' if got[0][1].startswith('/') else 'relative')}")
        ctx.observe("paths_relative_package_filepath", f"{kind}:{got[1][0]}")
        if r != got:
            ctx.tie_failure("correspondence", "rel_filepath / rel_package_filepath (model) vs Object.relative_filepath / relative_package_filepath",
                            {"model": r, "impl": got}, case)


# --- docstrings are parsed WHILE the full dump is produced: every parser x options x static / inspected, on docstrings that make the
# parsers warn (unknown parameters, missing types, malformed items) and on Sphinx fields naming dotted / aliased / unresolvable attributes

DOC_GOOGLE = ("Summary.\n\nParameters:\n    nope: Unknown parameter.\n    (int): Malformed.\n    a (int): Known.\n\nAttributes:\n    Y\n    KNOWN: Known.\n\n"
              "Returns:\n    No type here.\n\nRaises:\n    bad item\n\nYields:\n    Nothing typed.\n\nOther Parameters:\n    ghost (str): Unknown keyword.\n")
DOC_NUMPY = ("Summary.\n\nParameters\n----------\nnope\n    Unknown.\na : int\n    Known.\n\nReturns\n-------\n\nAttributes\n----------\nY\n\n"
             "Raises\n------\n\nWarns\n-----\nUserWarning\n")
DOC_SPHINX = ("Summary.\n\n:param nope: Unknown.\n:param int: Malformed.\n:param str a: Known.\n:type ghost: int\n:var settings.DEBUG: Dotted, through an import of a package that is not loaded.\n"
              ":var settings: The unresolvable import itself.\n:var os.sep: Dotted, through an import of the standard library.\n:var sibling.VALUE: Dotted, through a loaded module.\n"
              ":var missing.attr: Unknown.\n:cvar KNOWN: Known attribute.\n:ivar: Malformed.\n:vartype KNOWN: int\n:vartype: broken\n:raises: Nothing.\n:returns\n:rtype: int\n:rtype: str\n")
NONEMPTY_OPTIONS = {"warn_unknown_params": True, "trim_doctest_flags": False}


def _quoted(text: str, indent: int) -> str:
    pad = " " * indent
    body = "\n".join((pad + line if line else "") for line in text.split("\n"))
    return f'{pad}"""{body.lstrip()}\n{pad}"""\n'


def write_docstring_package(rng, root: Path, pkg: str):
    """a small package whose docstrings (one of each style on every kind of object, plus a random one) make every parser warn"""
    mod = [_quoted(DOC_SPHINX, 0), "from __future__ import annotations\nimport os\nfrom typing import TYPE_CHECKING\n",
           f"from {pkg} import sibling\n", "if TYPE_CHECKING:\n    from nowhere_c09.conf import settings\n", "KNOWN: int = 1\n", _quoted(DOC_GOOGLE, 0)]
    for i, doc in enumerate([DOC_GOOGLE, DOC_NUMPY, DOC_SPHINX]):
        mod.append(f"def fn{i}(a, b: int = 0, *args, k=None, **kwargs):\n" + _quoted(doc, 4) + "    return a\n")
        mod.append(f"class K{i}:\n" + _quoted(doc, 4) + f"    KNOWN: int = {i}\n" + _quoted(doc, 4)
                   + "    def __init__(self, a):\n" + _quoted(doc, 8) + "        self.inst = a\n" + _quoted(doc, 8)
                   + "    @property\n    def prop(self):\n" + _quoted(doc, 8) + "        return 1\n")
    mod.append("def rnd():\n" + gen_docstring(rng, 4) + "    return None\n")
    files = {f"{pkg}/__init__.py": "".join(mod), f"{pkg}/sibling.py": _quoted(DOC_NUMPY, 0) + "VALUE: int = 1\n" + _quoted(DOC_SPHINX, 0)}
    write_files(root, files)
    return {"package": pkg, "variant": "docstring-matrix", "search_paths": ["."], "files": files, "stubs": False, "namespace_dirs": []}


def docstring_matrix(rng, everything: bool):
    out = []
    for parser in (None, "google", "numpy", "sphinx", "auto"):
        opts = [None, {}, dict(NONEMPTY_OPTIONS)]
        if parser == "auto":
            opts.append({"style_order": ["numpy", "sphinx", "google"], "default": "google", "warn_unknown_params": True})
        for options in opts:
            for mode in ("static", "dynamic"):
                out.append((mode, parser, rng.random() < 0.5, options))
    return out


def run_docstring_matrix(st: State, root: Path, n: int, direct_only=False):
    ctx = st.ctx
    sys.path.insert(0, str(root))
    try:
        for i in range(n):
            layout = write_docstring_package(ctx.rng, root, f"c09d{ctx.seed % 100000}_{os.getpid()}_{i}{'d' if direct_only else ''}")
            run_layout(st, root, layout, docstring_matrix(ctx.rng, not ctx.quick), ["."], direct_only=direct_only)
    finally:
        sys.path.remove(str(root))


OPTION_VALUES = {"method": "heuristics", "style_order": None, "default": None, "docstring": None, "parser": None}
OPTION_NAMES = ["warn_unknown_params", "trim_doctest_flags", "ignore_init_summary", "returns_multiple_items", "returns_named_value",
                "returns_type_in_property_summary", "receives_multiple_items", "receives_named_value", "zzz", "warnings", "method", "style_order",
                "default", "docstring", "parser"]


def check_dispatch(st: State):
    """parse(docstring, parser, **options) against the model's parse_dispatch: every parser value (None, "", every style, an unknown
    one) x random sets of option names (real ones, unknown ones, auto's own, the positional parameter names). What `auto` infers is
    computed here from its documentation: `default` if given, else the first of `style_order`, else nothing."""
    import griffe
    ctx = st.ctx
    rng = ctx.rng
    doc_texts = ["Summary.", DOC_GOOGLE, DOC_NUMPY, DOC_SPHINX]
    cases = []
    for _ in range(ctx.budget(400, 4000)):
        parser = rng.choice([None, None, "", "google", "numpy", "sphinx", "auto", "auto", "rst"])
        keys = rng.sample(OPTION_NAMES, rng.choice([0, 1, 1, 2, 3, 5]))
        if rng.random() < 0.7:
            keys = [k for k in keys if k not in ("docstring", "parser")]
        options = {k: OPTION_VALUES.get(k, rng.random() < 0.5) for k in keys}
        inferred = None
        if "default" in options:
            options["default"] = rng.choice(["google", "numpy", "sphinx", "auto", griffe.Parser.sphinx, "rst"])
        if "style_order" in options:
            options["style_order"] = rng.choice([["numpy", "google"], [griffe.Parser.google], ["auto", "sphinx"], ["rst"]])
        if "default" in options:
            inferred = options["default"]
        elif "style_order" in options:
            inferred = options["style_order"][0]
        inferred = inferred.value if isinstance(inferred, griffe.Parser) else inferred
        docstring = griffe.Docstring(rng.choice(doc_texts), lineno=1, parent=griffe.Function("f", parameters=griffe.Parameters(griffe.Parameter("a"))))
        try:
            sections = griffe.parse(docstring, parser, **options)
            got = "text" if (len(sections) == 1 and sections[0].kind.value == "text" and not parser) else "ok"
        except TypeError as e:
            got = "TypeError"
            if "argument" not in str(e):
                got = f"TypeError elsewhere: {str(e)[:80]}"
        except ValueError as e:
            got = "ValueError" if "is not a valid Parser" in str(e) else f"ValueError elsewhere: {str(e)[:80]}"
        except Exception as e:  # noqa: BLE001
            got = f"{type(e).__name__}: {str(e)[:80]}"
        cases.append((["parse-dispatch", a_opt(inferred), a_opt(parser), keys], got,
                      {"stream": "dispatch", "parser": parser, "options": {k: str(v) for k, v in options.items()}, "inferred": inferred}))
    out = ctx.model([c[0] for c in cases])
    for (q, got, case), r in zip(cases, out):
        want = {"text": "text", "style": "ok", "TypeError": "TypeError", "ValueError": "ValueError"}.get(r[0] if r else None, str(r))
        # a falsy parser always gives the text section; a parser run may also return a single text section
        if want == "text" and got == "ok":
            got = "text"
        if want == "ok" and got == "text":
            got = "ok"
        ctx.case(case, True)
        ctx.observe("dispatch", f"{'auto->' + str(case['inferred']) if case['parser'] == 'auto' else case['parser']}: {r[0] if r else r}")
        if got != want:
            fine = not any(k in ("docstring", "parser") for k in q[3]) and case["parser"] in (None, "", "google", "numpy", "sphinx", "auto") \
                and case["inferred"] in (None, "google", "numpy", "sphinx", "auto")
            if fine and got not in ("ok", "text"):
                # inside the theorem's domain the implementation raised: no sections, hence no full dump of any object with a docstring
                ctx.property_failure(case, {"parse_raised": got, "model": r}, finding=None)
            ctx.tie_failure("correspondence", "parse_dispatch (model) vs docstrings.parsers.parse", {"model": r, "impl": got}, case)


def run_cli(root: Path, args):
    """`python -m griffe <args>` from the scratch root: (return code, {package: document} | None, stderr)"""
    import subprocess
    from harness.common.framework import REPO
    out = root / f"cli_{os.getpid()}.json"
    if out.exists():
        out.unlink()
    env = dict(os.environ, PYTHONPATH=f"{REPO}/src", PYTHONHASHSEED="0")
    try:
        p = subprocess.run([sys.executable, "-m", "griffe", *args, "-o", str(out)], cwd=root, env=env, capture_output=True, text=True, timeout=120)
    except subprocess.TimeoutExpired:
        return -1, None, "timeout"
    if p.returncode != 0 or not out.exists():
        return p.returncode, None, p.stderr
    try:
        docs = json.loads(out.read_text())
    except ValueError as e:
        return p.returncode, None, f"output is not JSON: {e}"
    finally:
        out.unlink()
    return p.returncode, docs, p.stderr


def run_cli_dumps(st: State, root: Path, everything: bool):
    """`griffe dump -f` with the -d / -D / -x combinations: it must produce a document per package and each must validate"""
    ctx = st.ctx
    layout = write_docstring_package(ctx.rng, root, f"c09cli{ctx.seed % 100000}_{os.getpid()}")
    combos = []
    for d in (None, "google", "numpy", "sphinx", "auto"):
        for D in (None, "{}", json.dumps(NONEMPTY_OPTIONS)):
            for x in (False, True):
                combos.append((d, D, x))
    if not everything:
        must = [(None, json.dumps(NONEMPTY_OPTIONS), False), ("sphinx", None, False), ("google", json.dumps(NONEMPTY_OPTIONS), True)]
        combos = must + ctx.rng.sample([c for c in combos if c not in must], 3)
    for d, D, x in combos:
        args = ["dump", layout["package"], "-f", "-s", ".", "-L", "CRITICAL"] + (["-d", d] if d else []) + (["-D", D] if D is not None else []) + (["-x"] if x else [])
        case = {"stream": "cli", "cli_args": args, "package": layout["package"], "files": layout["files"]}
        ctx.observe("cli", f"-d {d} -D {'absent' if D is None else 'empty' if D == '{}' else 'options'}{' -x' if x else ''}")
        rc, docs, err = run_cli(root, args)
        ctx.case({k: v for k, v in case.items() if k != "files"}, True)
        if docs is None:
            ctx.property_failure(case, {"griffe_dump_failed": f"rc={rc}", "stderr": err[-400:]}, finding=None)
            continue
        for name, doc in docs.items():
            if not st.auth.valid(doc):
                ctx.property_failure(case, {"package": name, "jsonschema_errors": [leaf_repr(lf) for lf in st.auth.leaves(doc)][:5]}, finding=None)


CONFIGS = [("static", None, False), ("static", "google", True), ("static", "numpy", False), ("static", "sphinx", True),
           ("dynamic", None, False), ("dynamic", "google", True), ("static", None, True), ("dynamic", "numpy", False)]


def choose_variant(i: int) -> str:
    """every third package is a namespace layout; stubs-only packages on the same and on another search path come up regularly"""
    if i % 3 == 1:
        return "namespace"
    if i % 12 == 5:
        return "stubs-same"
    if i % 12 == 8:
        return "stubs-other"
    return "regular"


def run_packages(st: State, root: Path, n_packages: int, direct_only=False):
    ctx = st.ctx
    sys.path.insert(0, str(root))
    try:
        for i in range(n_packages):
            variant = choose_variant(i)
            pkg = f"c09p{ctx.seed % 100000}_{os.getpid()}_{i}{'d' if direct_only else ''}"
            if variant == "namespace":
                # portions: the first namespace layouts of a run cover 2 and 3 portions, later ones are random (1..3)
                layout = write_namespace_layout(ctx.rng, root, pkg, k={1: 2, 4: 3}.get(i))
            else:
                layout = write_package(ctx.rng, root, pkg, variant, force_extras=(i == 0))   # the first package of a run has every extra
            configs = CONFIGS if not ctx.quick else [CONFIGS[0], CONFIGS[1], CONFIGS[4]] + ctx.rng.sample(CONFIGS[2:4] + CONFIGS[5:], 1)
            if variant == "namespace":
                static = [c for c in configs if c[0] == "static"]
                pkg_style = any(rel.endswith(f"/{pkg}/__init__.py") for rel in layout["files"])
                configs = static[:3] if (pkg_style or ctx.quick) else static[:3] + [c for c in configs if c[0] == "dynamic"][:1]
            elif layout["stubs"]:
                configs = [c for c in configs if c[0] == "static"][:2]
            # search(): implementation against jsonschema only, no model to confirm a known finding: dump from above everything
            cwds = ["."] if direct_only else layout_cwds(ctx.rng, layout, everything=not ctx.quick)
            ctx.observe("namespace_portions", layout.get("portions", 0))
            run_layout(st, root, layout, configs, cwds, direct_only=direct_only)
    finally:
        sys.path.remove(str(root))


def direct_check(st: State, doc, label):
    """implementation vs authority only (no model): used by search()"""
    ctx = st.ctx
    files = label.get("files")
    label = {k: v for k, v in label.items() if k != "files"}
    for path, nd in doc_nodes(doc):
        local = strip_doc(nd)
        key = json.dumps(local, sort_keys=True)
        if key in st.seen_nodes:
            continue
        st.seen_nodes[key] = True
        ctx.case({"node": local}, nontrivial_node(local))
        if st.auth.valid(local):
            continue
        leaves = st.auth.leaves(local)
        case = {**label, "path": ".".join(path), "node": local, "files": files}
        ctx.property_failure(case, {"jsonschema_errors": [leaf_repr(lf) for lf in leaves]}, finding=None)


# --- deep expressions: whatever loads must dump and validate (recursion limit left at the interpreter default)

DEEP_KINDS = {
    "bitor": lambda n: " | ".join(f"F{i}" for i in range(n)),
    "add": lambda n: " + ".join(f"F{i % 7}" for i in range(n)),
    "attribute": lambda n: "os" + "".join(f".a{i % 5}" for i in range(n)),
    "boolop_mixed": lambda n: " ".join((f"F{i % 7} and" if i % 2 else f"F{i % 7} or") for i in range(n)) + " F0",
    "compare_sub": lambda n: " - ".join(f"(F{i % 7} < {i})" for i in range(n)),
    "subscript": lambda n: "".join("D[" for _ in range(min(n, 90))) + "0" + "".join("]" for _ in range(min(n, 90))),
    "call": lambda n: "".join("fn(" for _ in range(min(n, 90))) + "0" + "".join(")" for _ in range(min(n, 90))),
    "unary": lambda n: "not " * min(n, 400) + "F0",
}


def write_deep_package(root: Path, pkg: str, n: int, signatures: bool):
    """signatures=False: module attributes only (Griffe drops a value it cannot build, the load still succeeds);
    signatures=True: the same chains as parameter default / annotations / return / class base / decorator (a load that raises is skipped)"""
    lines = ['"""Generated constants."""', "import os", "from typing import Dict as D", "def fn(*a): return 0"]
    lines += [f"F{i} = {1 << (i % 30)}" for i in range(max(n, 7))]
    if signatures:
        lines.append(f"def deep_default(p: {DEEP_KINDS['bitor'](n)} = {DEEP_KINDS['add'](n)}) -> {DEEP_KINDS['attribute'](n)}: ...")
        lines.append(f"class DeepBase({DEEP_KINDS['attribute'](n)}): ...")
        lines.append(f"@{DEEP_KINDS['attribute'](n)}\ndef decorated(): ...")
        lines.append(f"V_annotated: {DEEP_KINDS['bitor'](n)} = 0")
    else:
        for kind, make in DEEP_KINDS.items():
            lines.append(f"V_{kind} = {make(n)}")
            lines.append(f'"""Chain of kind {kind}."""')
    text = "\n".join(lines) + "\n"
    p = root / pkg / "__init__.py"
    p.parent.mkdir(parents=True, exist_ok=True)
    p.write_text(text)
    return {f"{pkg}/__init__.py": text}


def deep_one(st: State, root: Path, pkg: str, n: int, resolve: bool, files):
    """returns None (nothing to report), or (case, detail) for a failing input. Loads that fail are not failures."""
    import griffe
    import logging
    ctx = st.ctx
    logging.getLogger("griffe").setLevel(logging.CRITICAL)
    logging.getLogger("_griffe").setLevel(logging.CRITICAL)
    label = {"stream": "deep-expression", "package": pkg, "operands": n, "mode": "static", "parser": None, "resolve_aliases": resolve, "files": files}
    limit = sys.getrecursionlimit()
    try:
        with Watchdog(60):
            loader = griffe.GriffeLoader(search_paths=[str(root)])
            top = loader.load(pkg)
            if resolve:
                loader.resolve_aliases(implicit=True, external=False)
    except BaseException as e:  # noqa: BLE001
        if isinstance(e, (KeyboardInterrupt, SystemExit)):
            raise
        ctx.observe("deep_load", f"raised {type(e).__name__}")
        return None
    finally:
        sys.setrecursionlimit(limit)
    built = []
    for name, m in top.members.items():
        v = getattr(m, "value", None) if not m.is_alias else None
        if name.startswith("V_"):
            ctx.observe("deep_value", f"{name[2:]}:{'built' if v is not None and not isinstance(v, str) else ('string' if isinstance(v, str) else 'dropped')}")
            if v is not None:
                built.append(name[2:])
    ctx.case({k: v for k, v in label.items() if k != "files"} | {"built": built}, bool(built))
    try:
        with Watchdog(60):
            text = top.as_json(full=True)
    except BaseException as e:  # noqa: BLE001
        if isinstance(e, (KeyboardInterrupt, SystemExit)):
            raise
        ctx.observe("deep_dump", f"raised {type(e).__name__}")
        return label, {"loaded": True, "expressions_built": built, "full_dump_raised": f"{type(e).__name__}: {str(e)[:200]}"}
    finally:
        sys.setrecursionlimit(limit)
    ctx.observe("deep_dump", "ok")
    old = sys.getrecursionlimit()
    sys.setrecursionlimit(20000)   # harness-side processing of a deeply nested document only; Griffe ran under the default
    try:
        doc = json.loads(text)
        if not st.auth.valid(doc):
            leaves = st.auth.leaves(doc)
            return label, {"loaded": True, "jsonschema_errors": [leaf_repr(lf) for lf in leaves][:5]}
        # the validator model must agree on the deep document too
        # (the sexp text encoder is recursive through C frames: only moderately deep documents go to the model)
        r = ctx.model([["validate", jx(doc)]])[0] if (ctx.driver is not None and n <= 120) else [1]
        if r != [1]:
            ctx.tie_failure("oracle", "validates(model) vs jsonschema on a deeply nested document", {"model": r, "jsonschema": True},
                            {k: v for k, v in label.items() if k != "files"})
    finally:
        sys.setrecursionlimit(old)
    return None


def deep_lengths(ctx):
    base = list(range(40, 300, 40)) + list(range(300, 530, 10 if ctx.quick else 3))
    return base + [ctx.rng.randint(300, 520) for _ in range(ctx.budget(4, 40))]


def check_deep(st: State, root: Path, model_ok=True):
    ctx = st.ctx
    for i, n in enumerate(deep_lengths(ctx)):
        for signatures in ((False, True) if i % 3 == 0 else (False,)):
            pkg = f"c09deep{ctx.seed % 100000}_{os.getpid()}_{i}{'s' if signatures else ''}"
            files = write_deep_package(root, pkg, n, signatures)
            for resolve in ((False, True) if i % 4 == 0 else (False,)):
                res = deep_one(st, root, pkg, n, resolve, files)
                if res is not None:
                    case, detail = res
                    ctx.property_failure(case, detail, finding=None)


def explore(ctx):
    st = State(ctx)
    root = (ctx.scratch / "pkgs").resolve()
    root.mkdir(parents=True, exist_ok=True)
    ctx.notes.append(f"authority: jsonschema {st.auth.name}")
    replay_known(st, root)
    # the inclusion check as the extracted model computes it (the theorem is the Coq side; this ties the extraction)
    inc = ctx.model([["incl"]])[0]
    if inc != [1]:
        ctx.tie_failure("correspondence", "extracted grammar_in_schema differs from the proved value (true)", {"model": inc})
    if ctx.model([["load-tables"]])[0] != [1]:
        ctx.tie_failure("correspondence", "extracted load_tables_ok differs from the proved value (true)", {})
    if ctx.model([["parse-tables"]])[0] != [1]:
        ctx.tie_failure("correspondence", "extracted parse_tables_ok differs from the proved value (true)", {})
    check_dispatch(st)
    check_paths(st)
    replay_corpus(st, root)
    run_packages(st, root, ctx.budget(6, 48))
    run_passthrough(st, root, ctx.budget(6, 40))
    run_docstring_matrix(st, root, ctx.budget(1, 4))
    run_cli_dumps(st, root, not ctx.quick)
    ctx.notes.append(f"packages done at {ctx.elapsed():.1f}s")
    cwd = os.getcwd()
    os.chdir(root)
    try:
        check_deep(st, root)
    finally:
        os.chdir(cwd)
    ctx.notes.append(f"deep-expression sweep done at {ctx.elapsed():.1f}s")
    check_mutants(st, ctx.budget(2500, 60000))
    ctx.notes.append(f"mutants done at {ctx.elapsed():.1f}s")
    import griffe
    all_expr = sorted(n for n in dir(griffe) if n.startswith("Expr") and n != "Expr")
    missing = [n for n in all_expr if n not in st.expr_classes]
    for n in sorted(st.expr_classes):
        ctx.observe("expression_class_seen", n)
    ctx.notes.append("expression classes never produced by the generated sources: " + (", ".join(missing) or "none"))
    if len(missing) > 3:
        ctx.tie_failure("harness", "generator no longer reaches most expression classes", {"missing": missing})
    if not ctx.quick:
        sample = [["validate", jx(d)] for d in st.mutation_pool[:25]] + [["member", jx(d)] for d in st.mutation_pool[:10]] + [["incl"]]
        ctx.cross_check_extraction(sample, n=30)


def search(ctx):
    """a tie broke and no failing input is known: look harder, implementation vs jsonschema only"""
    st = State(ctx)
    root = (ctx.scratch / "search").resolve()
    root.mkdir(parents=True, exist_ok=True)
    run_packages(st, root, ctx.budget(12, 80), direct_only=True)
    run_docstring_matrix(st, root, ctx.budget(1, 4), direct_only=True)
    run_cli_dumps(st, root, not ctx.quick)
    cwd = os.getcwd()
    os.chdir(root)
    try:
        check_deep(st, root)
    finally:
        os.chdir(cwd)


def replay(ctx, data):
    """re-run one stored failing input on the implementation: rewrite the files, load the package the same way (search paths,
    stubs package, parser, alias resolution), dump it from the same working directory, validate"""
    st = State(ctx)
    case = data.get("failing_input") or {}
    files, node = case.get("files"), case.get("node")
    rc = 0
    if files and case.get("cli_args"):
        root = (ctx.scratch / "replay").resolve()
        write_files(root, files)
        rc_cli, docs, err = run_cli(root, case["cli_args"])
        import shutil
        shutil.rmtree(ctx.scratch, ignore_errors=True)
        if docs is None:
            print(f"REPLAY C09: `griffe {' '.join(case['cli_args'])}` fails (rc={rc_cli}): {err[-300:]}")
            return 1
        bad = [n for n, d in docs.items() if not st.auth.valid(d)]
        print(f"REPLAY C09: griffe dump produced {len(docs)} document(s), {len(bad)} rejected by the schema")
        return 1 if bad else 0
    if files and case.get("package"):
        root = (ctx.scratch / "replay").resolve()
        write_files(root, files)
        sys.path.insert(0, str(root))
        here = os.getcwd()
        os.chdir(root)
        try:
            _top, doc = load_and_dump(root, case["package"], case.get("mode", "static"), case.get("parser"), bool(case.get("resolve_aliases")),
                                      search_paths=case.get("search_paths") or ["."], cwd=case.get("cwd") or ".",
                                      stubs=bool(case.get("find_stubs_package")), options=case.get("docstring_options"))
        except Exception as e:  # noqa: BLE001
            print(f"REPLAY C09: load or dump raises {type(e).__name__}: {e}")
            return 1
        finally:
            os.chdir(here)
            sys.path.remove(str(root))
            import shutil
            shutil.rmtree(ctx.scratch, ignore_errors=True)
        bad = 0
        for path, nd in doc_nodes(doc):
            local = strip_doc(nd)
            if st.auth.valid(local):
                continue
            leaves = st.auth.leaves(local)
            bad += 1
            print(f"REPLAY C09: node {'.'.join(path) or '<root>'} rejected: {json.dumps([leaf_repr(lf) for lf in leaves])[:400]}")
        print(f"REPLAY C09: {bad} node(s) of the re-dumped package violate the schema")
        rc = 1 if bad else 0
    elif node is not None:
        if st.auth.valid(node):
            print("REPLAY C09: the stored node document validates against the current schema")
        else:
            leaves = st.auth.leaves(node)
            print("REPLAY C09: stored node document rejected:", json.dumps([leaf_repr(lf) for lf in leaves])[:600])
            rc = 1
    else:
        print("REPLAY C09: nothing to replay in this file (a broken tie without failing input)")
    return rc
