"""C11 — API diff: silent on compatible change, reports every public removal / re-kinding.

(T) harness/translate/c11_ladder.py regenerates coq/Gen/C11_ladder.v (is_public ladder, dispatch of _type_based_yield, filters and
    rules of diff.py) from the tree under test; C10's tables are regenerated too (parameter rules).
(C) the extracted traversal (Model/C11_dispatch.v, proved equal to Model/C11_apidiff.v) vs griffe.find_breaking_changes on generated
    packages (real files, griffe.load with alias resolution) x edit scripts, on two inputs per case: "diff" = the store abstracted
    from the loaded trees (inherited members / `alias.target` outcomes as Griffe answers them) and "ediff" = the raw store (declared
    structure, alias target paths, base paths) elaborated inside Coq (Model/C11_elab.v); the computed Alias.target outcomes,
    resolved bases, MROs and inherited members are compared with Griffe's per node.
    Also model is_public / is_private / is_special vs the implementation's on every member and on an exhaustive ladder.
(O) the model's documented ladder (is_public_doc) vs an independent Python reading of the is_public docstring.
direct: identical copy => nothing; compatible edits => nothing; each incompatible edit on a publicly reachable object =>
    a breakage of the expected kind on that object (or one of its alias / inherited paths); every reported object is
    publicly reachable by the documented ladder; unresolvable / cyclic re-exports do not abort; `griffe check` exit code
    is non-zero iff something is reported.
"""
from __future__ import annotations

import copy
import json
import os
import shutil
import signal
import subprocess
import sys
from pathlib import Path

from harness.translate import c11_ladder

ID = "C11"
TRANSLATOR_NAME = "harness/translate/c11_ladder.py"


def translate(ctx):
    # the parameter rules are C10's (Model/C10_ext.fdiff_m over Gen/C10_tables.v + Gen/C10_rules.v): regenerate them from the tree
    # under test too (no write when unchanged), so that C11's model never runs on tables of another tree
    from harness.translate import c10_tables
    c10_tables.translate(ctx)
    c11_ladder.translate(ctx)


LEVEL_TEXT = (
    "32 theorems, all closed under the global context, no known-gap hypothesis. (1) Over all object stores -- arbitrary graphs of modules, "
    "classes, functions, attributes and aliases with resolved / unresolvable / cyclic targets, inherited members, __all__, imports and "
    "explicit public flags -- about a model of find_breaking_changes that mirrors the seen_paths guard on (old, new) pairs: a package "
    "compared with itself reports nothing; any compatibility extension (members added anywhere, parameters added that leave C10's fdiff_m "
    "empty -- proved for optional keyword-only ones --, arbitrary changes outside the publicly reachable part) reports nothing; every report "
    "stems from a pair reachable from the roots through public members and alias targets only, and a reported removal is a public member "
    "of such an object; every pair the comparison must visit is examined and each of its local incompatibilities (removed public member, "
    "kind change, removed base, changed attribute value, C10 parameter breakages incl. the regenerated collision rule) is reported; "
    "unresolvable and cyclic targets are skipped and the comparison completes with fuel = |old| * |new| + 1; exit code 0 iff nothing is "
    "reported; is_public equals the ladder its docstring words. (2) Elaboration layer: Alias.target (resolve_target with the "
    "_passed_through flags, path walk through the modules collection, all-or-nothing chains), Class.resolved_bases (incl. bases named "
    "through a plain assignment), Class.mro() and "
    "Object.inherited_members (C07's Coq model, reused) are computed INSIDE Coq from the declared structure; theorems: the member an "
    "elaborated class shows under a name is CPython's lookup along the MRO (the nearest definition, behind at most one fresh alias), no "
    "member when nothing provides it; at any depth the comparison reaches the providing definitions through inheritance and through "
    "one-step re-exports whose target is found by the path walk, so every kind / value / parameter / base / return incompatibility "
    "between them, and every removal, is reported -- also when the definition sits in a private intermediate base class; the "
    "elaboration of a well-formed raw store is a well-formed store, elaboration + comparison always complete (missing names, cycles, "
    "chains are computed and skipped), self-comparison is silent, the alias chain walk never exhausts its fuel. (3) The is_public "
    "ladder, is_private / is_special / is_imported, the if/elif dispatch and seen_paths key of _type_based_yield, the public filter "
    "and removal rule of _member_incompatibilities, the removed-base rule (and whether members are still compared after it), the "
    "attribute value test and _returns_are_compatible are REGENERATED from mixins.py / diff.py on every run (Gen/C11_ladder.v); is_public "
    "of the model is the regenerated ladder, and the traversal written around the regenerated definitions -- the one the harness "
    "extracts and runs against the implementation -- is proved equal to the model the theorems are about. Ties on every run: breakage "
    "multisets (kind, object path, parameter) of BOTH the Griffe-read store and the Coq-elaborated store vs find_breaking_changes; "
    "per alias the computed Alias.target outcome, per class the computed resolved bases / MRO / inherited (name, target) list vs "
    "Griffe's answers; per-member is_public; exhaustive ladder (900 combinations, half of the class parents inside a module that imports the member's "
    "name); CLI exit code and printed count on throw-away git histories (3 versions, tags and commit hashes, -b and working-tree "
    "modes, single package and pkg -> _pkg facade) vs find_breaking_changes and vs the elaborated model's exit code. The property is "
    "evaluated directly on the implementation with one expectation per incompatible edit and, independently of Griffe's own "
    "inherited_members / MRO, with CPython's view of every compared class (real `type()` classes built from the package specs, "
    "C3 + lookup along __mro__).")
LEVEL_NOTE = (
    "Trusted: Coq kernel, extraction, the translator harness/translate/c11_ladder.py (whitelisted AST shapes, fails closed; the hand-"
    "modelled skeleton of _alias_incompatibilities / find_breaking_changes is compared as normalised source text), C10's translator, the "
    "harness abstractions Griffe tree -> store and loaded collection -> raw store (object identity = path, asserted per case; declared "
    "members, imports, exports, alias target paths and the canonical path of each base expression are read from Griffe: name resolution "
    "of base expressions is C04/C07's subject, which modules end up in the collection is C05/C15's), value/base/default equality interned "
    "by Python ==. Not modelled: target paths that walk THROUGH an alias (rwf rejects them; none is generated, counted per run). "
    "Breakages are a multiset (generator order is not modelled); parameter rules are C10's fdiff_m, reused. The class-view oracle counts "
    "annotation-only attributes (`x: int`) as declared members (Griffe's object model) and gives no verdict for classes CPython could not "
    "create (forward references, non-class or unresolvable bases, inconsistent MRO). The silence theorems identify old and new objects of the "
    "unchanged part by index. A public re-export whose target disappeared while the import stayed is unresolvable in new and therefore "
    "skipped, as the property demands. Breakage.explain() styles are exercised for crashes only. Findings F1-F3 are repaired in /repo; "
    "their witnesses are regression cases that must pass.")
MODEL = ("Model.C11_run", "run_C11x")
MODEL_TARGETS = ["Model/C11_run.vo"]
COQ_TARGETS = ["Proofs/C11_apidiff.vo", "Proofs/C11_elab.vo", "Proofs/C11_ladder.vo"]
RULE = ("seeded random packages (2-5 modules incl. private modules and a sub-package; functions with C10-style signatures, classes with "
        "local/imported bases and public/private/special members, attributes, re-export imports incl. chains, module imports, dangling, "
        "external and cyclic ones, __all__ absent / subset / empty; multi-level hierarchies -- chains of 3-4, diamonds, two unrelated bases, "
        "private mixins, bases imported from another module -- whose classes share a small pool of member names so that a name is defined by "
        "several ancestors, intermediate classes mostly private) x edit scripts of 1-4 edits from a catalogue of 25 edits (incl. combined "
        "base removal + member change on one class, edits of overriding definitions in private bases, keyword-only -> positional at a "
        "reachable position, value edits between ==-equal literals of different type incl. containers) applied at random public/private locations, in a single package or in the facade layout (public `pkg` "
        "re-exporting from a private top-level `_pkg`); plus identical copies, post-load `public` flag overrides, 3 scripted histories, the "
        "corpus/C11 regression packages, importable packages whose facades compose __all__ from other modules' __all__ (4 styles, 4 layouts; "
        "really imported for CPython's __all__), importable facades without __all__ re-exporting by wildcard (authority: CPython's `from m import *`) "
        "and 3-version git histories (flat / src layouts, each with a module of @dataclass classes) for the CLI, griffe.check() and load_git. A case is non-trivial when the edit script is non-empty "
        "or aliases are present; distinct by the rendered (old, new) sources")
TRUSTED = ["harness abstraction of loaded Griffe trees into model stores and raw stores (harness/props/c11.py:Abstraction, RawAbstraction)",
           "translator harness/translate/c11_ladder.py (whitelisted AST shapes of mixins.py / diff.py; fails closed)",
           "translator harness/translate/c10_tables.py (C10's parameter rules, reused)"]
ASSUMPTIONS = ["object identity is the object path (asserted by the abstractions on every case)",
               "declared members / imports / exports / alias target paths / canonical paths of base expressions are inputs read from Griffe; "
               "alias.target outcomes, resolved bases, MRO and inherited members are computed in Coq (elaboration) and compared with Griffe's",
               "no alias target path or base path walks through an alias (rwf; checked and counted per case)",
               "module exports are read from Griffe after the loader expanded them (expand_exports is not modelled); in the composed-__all__ stream "
               "they are checked against CPython's real __all__ after import"]

KN = ["PO", "PK", "VP", "KO", "VK"]
PARAM_KIND = {"positional-only": "PO", "positional or keyword": "PK", "variadic positional": "VP", "keyword-only": "KO",
              "variadic keyword": "VK"}
PKMAP = {"removed": "PARAMETER_REMOVED", "required": "PARAMETER_CHANGED_REQUIRED", "moved": "PARAMETER_MOVED",
         "kind": "PARAMETER_CHANGED_KIND", "default": "PARAMETER_CHANGED_DEFAULT", "added": "PARAMETER_ADDED_REQUIRED"}
BKMAP = {"removed": "OBJECT_REMOVED", "kind": "OBJECT_CHANGED_KIND", "base": "CLASS_REMOVED_BASE", "value": "ATTRIBUTE_CHANGED_VALUE",
         "return": "RETURN_CHANGED_TYPE"}


# --------------------------------------------------------------------------------------------------------------------
# package specs and rendering
# --------------------------------------------------------------------------------------------------------------------
class Mod:
    def __init__(self, name, pkg=False):
        self.name = name
        self.pkg = pkg
        self.defs = []      # list of dict
        self.all = None     # None | list[str]
        self.stubs = False  # ship a .pyi next to the .py declaring the module-level attributes (`x: int = ...` when the source gives a value)
        self.all_from = []  # [{"local": name the other module is bound to here, "style": star | plus | aug | extend}]: __all__ composed from <local>.__all__
        self.subs = []      # list[Mod]


def render_sig(sig):
    parts = []
    for i, (nm, k, d) in enumerate(sig):
        s = nm
        if k == "VP":
            s = "*" + nm
        if k == "VK":
            s = "**" + nm
        if d:
            s += f"={d}"
        if k == "KO" and not any(q[1] == "VP" for q in sig) and not any(q[1] == "KO" for q in sig[:i]):
            parts.append("*")
        parts.append(s)
        if k == "PO" and (i + 1 == len(sig) or sig[i + 1][1] != "PO"):
            parts.append("/")
    return ", ".join(parts)


def render_defs(defs, ind=""):
    out = []
    for d in defs:
        k = d["kind"]
        if k == "func":
            ret = f" -> {d['ret']}" if d.get("ret") else ""
            out.append(f"{ind}def {d['name']}({render_sig(d['sig'])}){ret}: pass")
        elif k == "attr":
            out.append(f"{ind}{d['name']} = {d['value']}" if d["value"] is not None else f"{ind}{d['name']}: int")
        elif k == "class":
            b = f"({', '.join(d['bases'])})" if d["bases"] else ""
            out.append(f"{ind}class {d['name']}{b}:")
            body = render_defs(d["body"], ind + "    ")
            out.extend(body if body else [ind + "    pass"])
        elif k == "import":
            a = f" as {d['asname']}" if d.get("asname") else ""
            out.append(f"{ind}from {d['frm']} import {d['name']}{a}")
    return out


def render_mod(m):
    lines = render_defs(m.defs)
    if m.all is not None or getattr(m, "all_from", None):
        lit = "[" + ", ".join(repr(x) for x in (m.all or [])) + "]"
        first, later = lit, []
        for a in getattr(m, "all_from", None) or []:
            other = a["local"] + ".__all__"
            if a["style"] == "star":
                first = first[:-1] + (", " if first[1:-1].strip() else "") + "*" + other + "]"
            elif a["style"] == "plus":
                first = first + " + " + other
            elif a["style"] == "aug":
                later.append("__all__ += " + other)
            else:
                later.append("__all__.extend(" + other + ")")
        lines.append("__all__ = " + first)
        lines.extend(later)
    return "\n".join(lines) + "\n"


def render_stubs(m):
    lines = [f"{d['name']}: int" + (" = ..." if d["value"] is not None else "") for d in m.defs if d["kind"] == "attr"]
    return "\n".join(lines) + "\n"


def files_of(m, prefix=""):
    out = {}
    if not m.name:
        for s in m.subs:
            out.update(files_of(s, prefix))
    elif m.pkg:
        out[f"{prefix}{m.name}/__init__.py"] = render_mod(m)
        if getattr(m, "stubs", False) and any(d["kind"] == "attr" for d in m.defs):
            out[f"{prefix}{m.name}/__init__.pyi"] = render_stubs(m)
        for s in m.subs:
            out.update(files_of(s, f"{prefix}{m.name}/"))
    else:
        out[f"{prefix}{m.name}.py"] = render_mod(m)
        if getattr(m, "stubs", False) and any(d["kind"] == "attr" for d in m.defs):
            out[f"{prefix}{m.name}.pyi"] = render_stubs(m)
    return out


def write_tree(root: Path, files: dict):
    if root.exists():
        shutil.rmtree(root)
    for p, s in files.items():
        fp = root / p
        fp.parent.mkdir(parents=True, exist_ok=True)
        fp.write_text(s)


def bound(d):
    return d.get("asname") or d["name"]


def iter_mods(m, path=None):
    """Modules with their dotted paths.  A Mod named "" is a virtual container of several top-level packages (not yielded)."""
    path = (path + "." if path else "") + m.name
    if m.name:
        yield m, path
    for s in m.subs:
        yield from iter_mods(s, path)


def iter_defs(m):
    """Yield (container_list, def, canonical_path, module, module_path) for every definition, recursively."""
    for mod, mp in iter_mods(m):
        stack = [(mod.defs, mp)]
        while stack:
            lst, p = stack.pop()
            for d in lst:
                yield lst, d, f"{p}.{bound(d)}", mod, mp
                if d["kind"] == "class":
                    stack.append((d["body"], f"{p}.{d['name']}"))


# --------------------------------------------------------------------------------------------------------------------
# generation
# --------------------------------------------------------------------------------------------------------------------
PUB_F = ["f", "g", "h", "run", "mk"]
PUB_C = ["K", "L", "M", "Base"]
PUB_A = ["x", "y", "z", "VERSION"]
PRIV = ["_f", "_g", "_K", "_x", "_y", "__p", "_s_", "__q_"]
SPEC = ["__call__", "__version__", "__d__"]
PNAMES = ["a", "b", "c", "z", "k", "w"]


def random_sig(rng, maxn=3):
    n = rng.randint(0, maxn)
    nm = rng.sample(PNAMES[:4], n)
    ks = sorted(rng.choice([0, 1, 1, 1, 2, 3, 4]) for _ in range(n))
    while ks.count(2) > 1:
        ks.remove(2)
    while ks.count(4) > 1:
        ks.remove(4)
    nm = nm[:len(ks)]
    out, seen_def = [], False
    for x, k in zip(nm, ks):
        d = 0
        if k in (0, 1):
            d = rng.choice([0, 0, 1, 2]) if not seen_def else rng.choice([1, 2])
            seen_def = seen_def or d > 0
        elif k == 3:
            d = rng.choice([0, 0, 1, 2])
        out.append((x, KN[k], d))
    return tuple(out)


def fresh(rng, used, pools):
    pool = [n for p in pools for n in p if n not in used]
    if not pool:
        k = 0
        while f"n{k}" in used:
            k += 1
        return f"n{k}"
    return rng.choice(pool)


def gen_def(rng, used, depth, kind=None, private=None, classes=()):
    kind = kind or rng.choice(["func", "func", "class", "class", "attr", "attr"] if depth < 2 else ["func", "attr"])
    private = rng.random() < 0.3 if private is None else private
    special = (not private) and rng.random() < 0.1
    pool = {"func": PUB_F, "class": PUB_C, "attr": PUB_A}[kind]
    name = fresh(rng, used, [PRIV] if private else ([SPEC] if special else [pool]))
    if private and kind == "class" and not name[1:2].isupper():
        pass
    used.add(name)
    if kind == "func":
        return {"kind": "func", "name": name, "sig": random_sig(rng), "ret": rng.choice([None, None, "int", "str"])}
    if kind == "attr":
        return {"kind": "attr", "name": name, "value": rng.choice([None, 1, 2, 3, 3, 0, 1, "(1, 2)", "[0, 1]", "{'a': 1}", "True"])}
    bases = [b for b in classes if rng.random() < 0.6][:2]
    body, bu = [], set()
    for _ in range(rng.randint(0, 3)):
        body.append(gen_def(rng, bu, depth + 1))
    return {"kind": "class", "name": name, "bases": bases, "body": body}


def gen_mod(rng, name, pkg=False):
    m = Mod(name, pkg)
    used = set()
    classes = []
    for _ in range(rng.randint(1, 5)):
        d = gen_def(rng, used, 0, classes=tuple(classes))
        m.defs.append(d)
        if d["kind"] == "class":
            classes.append(d["name"])
    return m


H_PUB = ["Top", "Leaf", "W", "Q", "K", "L", "M", "Base"]
H_PRIV = ["_Mid", "_Mix", "_B", "_K", "_Impl", "_Styled"]
H_NAMES = ["m", "n", "v", "w", "run", "x", "__call__", "_p", "size"]


def gen_hierarchy(rng, mods):
    """Insert a multi-level class hierarchy (chain of 3 / 4, diamond, two unrelated bases) whose classes share a small pool of member
    names, so that a name is usually defined by several ancestors; intermediate classes are mostly private (`_Mid`-style), root and
    leaf mostly public.  With some probability the non-leaf classes live in another module and the leaf's direct bases are imported."""
    m, mp = rng.choice(mods)
    others = [x for x in mods if x[0] is not m]
    m2, mp2 = rng.choice(others) if others and rng.random() < 0.4 else (m, mp)
    used = {bound(d) for d in m.defs} | {s.name for s in m.subs}
    used2 = used if m2 is m else {bound(d) for d in m2.defs} | {s.name for s in m2.subs}
    shape = rng.choice(["chain3", "chain3", "chain4", "diamond", "two-bases", "chain3-mixin"])
    pool = rng.sample(H_NAMES, rng.randint(2, 4))
    kinds = {n: rng.choice(["func", "attr", "attr"]) for n in pool}

    def body():
        out = []
        for n in rng.sample(pool, rng.randint(1, len(pool))):
            k = kinds[n] if rng.random() < 0.85 else rng.choice(["func", "attr"])
            if k == "func":
                out.append({"kind": "func", "name": n, "sig": random_sig(rng), "ret": rng.choice([None, None, "int"])})
            else:
                out.append({"kind": "attr", "name": n, "value": rng.choice([None, 1, 2, 3])})
        return out

    def mk(private, bases, us):
        nm = fresh(rng, us | used, [H_PRIV] if private else [H_PUB])
        us.add(nm)
        return {"kind": "class", "name": nm, "bases": list(bases), "body": body()}

    pm = lambda p: rng.random() < p
    if shape in ("chain3", "chain4"):
        a = mk(pm(0.3), [], used2)
        chain = [a]
        for _ in range(1 if shape == "chain3" else 2):
            chain.append(mk(pm(0.7), [chain[-1]["name"]], used2))
        upper, direct = chain, [chain[-1]["name"]]
    elif shape == "diamond":
        a = mk(pm(0.3), [], used2)
        b = mk(pm(0.7), [a["name"]], used2)
        c_ = mk(pm(0.7), [a["name"]], used2)
        upper, direct = [a, b, c_], [b["name"], c_["name"]]
    elif shape == "two-bases":
        a = mk(pm(0.5), [], used2)
        b = mk(pm(0.5), [], used2)
        upper, direct = [a, b], [a["name"], b["name"]]
    else:   # a private mixin ahead of a chain: Leaf(_Mix, _Mid) with _Mid(Top)
        a = mk(pm(0.3), [], used2)
        b = mk(pm(0.7), [a["name"]], used2)
        x = mk(True, [], used2)
        upper, direct = [a, b, x], [x["name"], b["name"]]
    m2.defs.extend(upper)
    used |= {u["name"] for u in upper}
    if m2 is not m:
        for n in direct:
            m.defs.append({"kind": "import", "frm": mp2, "name": n})
            used.add(n)
    if rng.random() < 0.3:      # a base named through a plain assignment: `Impl = _Mid` ... `class Leaf(Impl)`
        k = rng.randrange(len(direct))
        an = fresh(rng, used, [["Impl", "B2", "BaseAlias", "_Impl2"]])
        used.add(an)
        m.defs.append({"kind": "attr", "name": an, "value": direct[k]})
        direct = direct[:k] + [an] + direct[k + 1:]
        shape += "+assigned-base"
    leaf = mk(pm(0.15), direct, used)
    m.defs.append(leaf)
    return shape


def gen_composed_pkg(rng, wildcard=False):
    """An importable package whose facade composes its __all__ from another module's __all__:
    a private implementation module `pkg/_impl.py` (literal __all__) and a facade that imports the module, imports its names and says
    `__all__ = ["connect", *_impl.__all__]` / `[...] + _impl.__all__` / `__all__ += _impl.__all__` / `__all__.extend(_impl.__all__)`.
    Layouts: sub-package facade `pkg/api/__init__.py` (module files are traversed before sub-packages), sibling file listed after the
    implementation (`api.py`) or before it (`Facade.py`), optionally the root composing the same list too, optionally a second hop."""
    root = Mod("pkg", True)
    used = set()
    for _ in range(rng.randint(0, 2)):
        root.defs.append(gen_def(rng, used, 1, private=False))
    impl = Mod(rng.choice(["_impl", "_core"]))
    iu = used      # no name is defined on both sides: a local definition would shadow (or be shadowed by) the re-exported one
    for _ in range(rng.randint(2, 4)):
        impl.defs.append(gen_def(rng, iu, 0, private=False))
    if rng.random() < 0.5:
        impl.defs.append(gen_def(rng, iu, 1, private=True))
    names = [d["name"] for d in impl.defs if not d["name"].startswith("_")]
    impl.all = [n for n in names if rng.random() < 0.85] or names[:1]
    if wildcard:
        # a facade WITHOUT __all__ that re-exports by wildcard: `from pkg._impl import *` in the root __init__ or in a sub-package
        # __init__ / sibling module; the implementation module lists its public names in __all__ or has none (then: no underscore)
        if rng.random() < 0.4:
            impl.all = None
        star = {"kind": "import", "frm": f"pkg.{impl.name}", "name": "*"}
        where = rng.choice(["root", "root", "subpkg", "sibling"])
        if where == "root":
            root.defs.insert(rng.randint(0, len(root.defs)), star)
            root.subs = [impl]
        else:
            fac = Mod("api", where == "subpkg")
            fac.defs = [star, {"kind": "func", "name": "connect", "sig": random_sig(rng), "ret": None}]
            root.subs = [impl, fac]
        if rng.random() < 0.3:
            root.defs.append({"kind": "import", "frm": "os", "name": "sep"})       # an explicit import next to it stays private
        return root
    layout = rng.choice(["subpkg", "subpkg", "sibling-after", "sibling-before"])
    fac = Mod("api", True) if layout == "subpkg" else Mod("api" if layout == "sibling-after" else "Facade")
    style = rng.choice(["star", "plus", "aug", "extend"])

    def compose(m, via, via_path):
        m.defs.append({"kind": "import", "frm": via_path.rpartition(".")[0], "name": via_path.rpartition(".")[2]})
        for n in impl.all:
            if n not in {bound(d) for d in m.defs}:
                m.defs.append({"kind": "import", "frm": via_path, "name": n})
        m.all_from = [{"local": via, "style": rng.choice(["star", "plus", "aug", "extend"]) if m is not fac else style}]
    compose(fac, impl.name, f"pkg.{impl.name}")
    fac.defs.append({"kind": "func", "name": "connect", "sig": random_sig(rng), "ret": None})
    fac.all = ["connect"]
    root.subs = [impl, fac]
    if rng.random() < 0.3:        # the root composes the same list too (the implementation module is then "seen" before the facade)
        compose(root, impl.name, f"pkg.{impl.name}")
        root.all = [d["name"] for d in root.defs if d["kind"] != "import"]
    if rng.random() < 0.3:        # a second hop: pkg/zz.py takes the facade's list
        hop = Mod("zz")
        hop.defs.append({"kind": "import", "frm": "pkg", "name": fac.name})
        for n in impl.all + ["connect"]:
            hop.defs.append({"kind": "import", "frm": f"pkg.{fac.name}", "name": n})
        hop.all, hop.all_from = [], [{"local": fac.name, "style": rng.choice(["star", "plus", "aug"])}]
        root.subs.append(hop)
    return root


COMPOSED_EDITS = ["remove-def", "remove-def", "change-kind", "change-kind", "change-value", "change-value-coarse", "param", "drop-return",
                  "add-public", "add-optional-kwonly"]


def cpython_all(root_dir: Path):
    """CPython's real `__all__` of every module of `pkg` after import (None: no __all__); None when the package does not import."""
    code = ("import importlib, json, pkgutil, sys\nimport pkg\nout = {'pkg': getattr(pkg, '__all__', None)}\n"
            "for m in pkgutil.walk_packages(pkg.__path__, 'pkg.'):\n"
            "    out[m.name] = getattr(importlib.import_module(m.name), '__all__', None)\n"
            "star = {}\n"
            "for name in list(out):\n"
            "    ns = {}\n"
            "    exec('from ' + name + ' import *', ns)\n"
            "    star[name] = sorted(k for k in ns if k != '__builtins__')\n"
            "print(json.dumps({'all': {k: (None if v is None else list(v)) for k, v in out.items()}, 'star': star}))\n")
    env = {k: v for k, v in os.environ.items() if k != "PYTHONPATH"}
    p = subprocess.run([sys.executable, "-S", "-c", code], cwd=root_dir, capture_output=True, text=True, timeout=60,
                       env=dict(env, PYTHONPATH=str(root_dir), PYTHONDONTWRITEBYTECODE="1"))
    if p.returncode != 0:
        return None
    return json.loads(p.stdout.strip().splitlines()[-1])


def gen_pkg(rng, stream, facade=False):
    """A package `pkg`; with facade=True the layout Griffe itself uses: a private top-level package `_pkg` holding the code and a
    public top-level package `pkg` whose __init__ re-exports from it through __all__."""
    root = gen_mod(rng, "_pkg" if facade else "pkg", True)
    names = rng.sample(["a", "b", "c", "_impl", "_util", "sub"], rng.randint(1, 4))
    for n in names:
        if n == "sub":
            s = gen_mod(rng, "sub", True)
            for c in rng.sample(["u", "_v"], rng.randint(1, 2)):
                s.subs.append(gen_mod(rng, c))
            root.subs.append(s)
        else:
            root.subs.append(gen_mod(rng, n))
    mods = list(iter_mods(root))
    if stream == "hierarchy" or rng.random() < 0.2:
        for _ in range(rng.randint(1, 2)):
            gen_hierarchy(rng, mods)      # (shape names are observed through the class-view tallies)
    # imports / re-exports
    for m, mp in mods:
        for _ in range(rng.choice([0, 0, 1, 1, 2, 3])):
            used = {bound(d) for d in m.defs} | {s.name for s in m.subs}
            r = rng.random()
            others = [(o, op) for o, op in mods if o is not m and o.defs]
            if r < 0.08:
                imp = {"kind": "import", "frm": rng.choice(mods)[1], "name": "nope"}          # dangling
            elif r < 0.14:
                imp = {"kind": "import", "frm": "os", "name": "sep"}                             # external, not loaded
            elif r < 0.24 and len(mods) > 1:
                o, op = rng.choice([x for x in mods if x[0] is not root])                        # module import
                parent, _, leaf = op.rpartition(".")
                imp = {"kind": "import", "frm": parent, "name": leaf}
            elif others:
                o, op = rng.choice(others)
                d = rng.choice(o.defs)
                imp = {"kind": "import", "frm": op, "name": bound(d)}
            else:
                continue
            if imp["name"] in used or rng.random() < 0.2:
                imp["asname"] = fresh(rng, used, [PUB_F + PUB_C + PUB_A, PRIV])
            if bound(imp) in used:
                continue
            m.defs.insert(rng.randint(0, len(m.defs)), imp)
    # imported classes as bases
    for m, mp in mods:
        imps = [bound(d) for d in m.defs if d["kind"] == "import" and bound(d)[:1].isupper()]
        for d in m.defs:
            if d["kind"] == "class" and imps and rng.random() < 0.5:
                d["bases"] = (d["bases"] + [rng.choice(imps)])[:2]
    # __all__
    for m, mp in mods:
        r = rng.random()
        if r < 0.45:
            names_ = [bound(d) for d in m.defs]
            al = [n for d in m.defs for n in [bound(d)] if rng.random() < (0.85 if d["kind"] == "import" else 0.6)]
            if not al and names_:
                al = [rng.choice(names_)]
            m.all = al if al else None
        if stream == "empty-all" and rng.random() < 0.5:
            m.all = []
    if stream == "cyclic":
        cands = [x for x in mods if x[0] is not root]
        if len(cands) >= 2:
            (m1, p1), (m2, p2) = rng.sample(cands, 2)
            m1.defs.append({"kind": "import", "frm": p2, "name": "cyc"})
            m2.defs.append({"kind": "import", "frm": p1, "name": "cyc"})
            if rng.random() < 0.7:
                root.defs.append({"kind": "import", "frm": p1, "name": "cyc"})
                if root.all is not None:
                    root.all.append("cyc")
                else:
                    root.all = ["cyc"] + [bound(d) for d in root.defs if not bound(d).startswith("_") and d["kind"] != "import"]
            for m_ in (m1, m2):
                if m_.all is not None and rng.random() < 0.7:
                    m_.all.append("cyc")
        else:
            root.defs.append({"kind": "import", "frm": root.name, "name": "cyc"})
            root.all = (root.all or []) + ["cyc"]
    for m, mp in mods:
        if stream in ("incompatible", "mixed", "hierarchy", "incompatible+compatible") and rng.random() < 0.2:
            m.stubs = True
    if not facade:
        return root
    fac = Mod("pkg", True)
    used = set()
    for m, mp in mods:
        if mp.count(".") > 1:
            continue
        for d in m.defs:
            nm = bound(d)
            if nm in used or (nm.startswith("_") and rng.random() < 0.8) or rng.random() < 0.25:
                continue
            used.add(nm)
            fac.defs.append({"kind": "import", "frm": mp, "name": nm})
    fac.all = [bound(d) for d in fac.defs if rng.random() < 0.9] or None
    # a public class defined in the facade whose BASE lives in the private sibling package (loaded later, on demand, by alias resolution)
    if rng.random() < 0.7:
        cands = [(m, mp, d) for m, mp in mods if mp.count(".") <= 1 for d in m.defs if d["kind"] == "class"]
        if cands:
            m, mp, d = rng.choice(cands)
            local = next((bound(x) for x in fac.defs if x["frm"] == mp and x["name"] == d["name"]), None)
            if local is None:
                local = d["name"] if d["name"] not in used else fresh(rng, used, [["BaseImpl", "_Base0", "Core"]])
                used.add(local)
                imp = {"kind": "import", "frm": mp, "name": d["name"]}
                if local != d["name"]:
                    imp["asname"] = local
                fac.defs.append(imp)
            cn = fresh(rng, used, [["Client", "Widget", "Service"]])
            used.add(cn)
            fac.defs.append({"kind": "class", "name": cn, "bases": [local], "body": [gen_def(rng, {"__init__"}, 2)] if rng.random() < 0.4 else []})
            fac.all = (fac.all or []) + [cn]
    top = Mod("", True)
    top.subs = [fac, root]
    return top


# --------------------------------------------------------------------------------------------------------------------
# edit catalogue.  Each edit mutates a deep copy and returns a meta dict, or None when not applicable.
#   meta: {"edit", "class": compatible|incompatible|neutral, "path": canonical path of the touched object,
#          "expect": breakage kind expected when the object is publicly reachable, "touched": [paths]}
# --------------------------------------------------------------------------------------------------------------------
def containers(pkg):
    """(defs list, path, module, kind) of every module and class body."""
    out = []
    for mod, mp in iter_mods(pkg):
        out.append((mod.defs, mp, mod, "module"))
    for lst, d, p, mod, mp in iter_defs(pkg):
        if d["kind"] == "class":
            out.append((d["body"], p, mod, "class"))
    return out


def pick_def(rng, pkg, kinds, pred=lambda d: True):
    c = [(lst, d, p, mod, mp) for lst, d, p, mod, mp in iter_defs(pkg) if d["kind"] in kinds and pred(d)]
    if not c:
        return None
    priv = [x for x in c if any(part.startswith("_") and not part.endswith("__") for part in x[2].split("."))]
    pub = [x for x in c if x not in priv]
    pool = priv if (priv and (not pub or rng.random() < 0.4)) else pub
    return rng.choice(pool)


def drop_refs(pkg, modpath, name):
    """Cascade: remove `from modpath import name` everywhere (and the __all__ entries of the names they bound)."""
    touched = []
    for mod, mp in iter_mods(pkg):
        for d in list(mod.defs):
            if d["kind"] == "import" and d["frm"] == modpath and d["name"] == name:
                mod.defs.remove(d)
                touched.append(f"{mp}.{bound(d)}")
                if mod.all is not None and bound(d) in mod.all:
                    mod.all.remove(bound(d))
                touched += drop_refs(pkg, mp, bound(d))
    return touched


def e_add_def(rng, pkg, private):
    lst, p, mod, ck = rng.choice(containers(pkg))
    used = {bound(d) for d in lst} | ({s.name for s in mod.subs} if ck == "module" else set())
    for d0 in lst:        # ... nor a name that a wildcard import brings in
        if d0["kind"] == "import" and d0["name"] == "*":
            used |= {bound(x) for m0, mp0 in iter_mods(pkg) if mp0 == d0["frm"] for x in m0.defs}
    if ck == "module":    # ... nor, in a module that others import by wildcard, a name those importers bind themselves (it would rebind it there)
        for m0, mp0 in iter_mods(pkg):
            if any(d0["kind"] == "import" and d0["name"] == "*" and d0["frm"] == p for d0 in m0.defs):
                used |= {bound(x) for x in m0.defs} | {x.name for x in m0.subs}
    if ck == "class":     # a new class member must not shadow an inherited one: stay clear of every name bound in any class body
        used |= {bound(d) for l2, d, p2, m2, mp2 in iter_defs(pkg) if l2 is not m2.defs}
    d = gen_def(rng, used, 1, private=private)
    lst.insert(rng.randint(0, len(lst)), d)
    if ck == "module" and mod.all is not None and rng.random() < 0.5:
        mod.all.append(d["name"])
    return {"edit": "add-private" if private else "add-public", "class": "compatible", "path": f"{p}.{d['name']}", "touched": []}


def e_add_module(rng, pkg):
    pk = rng.choice([m for m, _ in iter_mods(pkg) if m.pkg])
    used = {s.name for s in pk.subs} | {bound(d) for d in pk.defs}
    name = fresh(rng, used, [["d", "e", "extra", "_hid"]])
    pk.subs.append(gen_mod(rng, name))
    return {"edit": "add-module", "class": "compatible", "path": name, "touched": []}


def e_add_kwonly(rng, pkg):
    t = pick_def(rng, pkg, {"func"})
    if not t:
        return None
    lst, d, p, mod, mp = t
    sig = list(d["sig"])
    nm = fresh(rng, {q[0] for q in sig}, [PNAMES])
    i = len(sig) - 1 if sig and sig[-1][1] == "VK" else len(sig)
    sig.insert(i, (nm, "KO", rng.choice([1, 2])))
    d["sig"] = tuple(sig)
    return {"edit": "add-optional-kwonly", "class": "compatible", "path": p, "touched": []}


def e_remove_def(rng, pkg):
    t = pick_def(rng, pkg, {"func", "class", "attr"})
    if not t:
        return None
    lst, d, p, mod, mp = t
    lst.remove(d)
    touched = []
    if lst is mod.defs:
        if mod.all is not None and d["name"] in mod.all:
            mod.all.remove(d["name"])
        touched = drop_refs(pkg, mp, d["name"])
    return {"edit": "remove-" + d["kind"], "class": "incompatible", "path": p, "expect": "OBJECT_REMOVED", "touched": touched}


def e_remove_reexport(rng, pkg):
    t = pick_def(rng, pkg, {"import"})
    if not t:
        return None
    lst, d, p, mod, mp = t
    lst.remove(d)
    if mod.all is not None and bound(d) in mod.all:
        mod.all.remove(bound(d))
    touched = drop_refs(pkg, mp, bound(d))
    return {"edit": "remove-reexport", "class": "incompatible", "path": p, "expect": "OBJECT_REMOVED", "touched": touched, "alias": True}


def e_remove_module(rng, pkg):
    c = [(m, mp, par) for par, _ in iter_mods(pkg) for m in par.subs for mp in [None]]
    if not c:
        return None
    paths = {id(m): mp for m, mp in iter_mods(pkg)}
    m, _, par = rng.choice(c)
    mp = paths[id(m)]
    par.subs.remove(m)
    touched = []
    for sm, smp in iter_mods(m, mp.rpartition(".")[0]):
        for d in sm.defs:
            touched += drop_refs(pkg, smp, bound(d))
    parent, _, leaf = mp.rpartition(".")
    touched += drop_refs(pkg, parent, leaf)
    # imports from the removed module (any name) would dangle: drop them too
    for mod, mq in iter_mods(pkg):
        for d in list(mod.defs):
            if d["kind"] == "import" and (d["frm"] == mp or d["frm"].startswith(mp + ".")):
                mod.defs.remove(d)
                touched.append(f"{mq}.{bound(d)}")
                if mod.all is not None and bound(d) in mod.all:
                    mod.all.remove(bound(d))
    return {"edit": "remove-module", "class": "incompatible", "path": mp, "expect": "OBJECT_REMOVED", "touched": touched}


def e_change_kind(rng, pkg):
    t = pick_def(rng, pkg, {"func", "class", "attr"})
    if not t:
        return None
    lst, d, p, mod, mp = t
    old = d["kind"]
    new = rng.choice([k for k in ("func", "class", "attr") if k != old])
    name = d["name"]
    d.clear()
    if new == "func":
        d.update({"kind": "func", "name": name, "sig": random_sig(rng), "ret": None})
    elif new == "attr":
        d.update({"kind": "attr", "name": name, "value": 1})
    else:
        d.update({"kind": "class", "name": name, "bases": [], "body": []})
    return {"edit": f"rekind-{old}-to-{new}", "class": "incompatible", "path": p, "expect": "OBJECT_CHANGED_KIND", "touched": []}


def e_remove_base(rng, pkg):
    t = pick_def(rng, pkg, {"class"}, lambda d: d["bases"])
    if not t:
        return None
    lst, d, p, mod, mp = t
    d["bases"].pop(rng.randrange(len(d["bases"])))
    return {"edit": "remove-base", "class": "incompatible", "path": p, "expect": "CLASS_REMOVED_BASE", "touched": []}


def e_class_combo(rng, pkg):
    """Two incompatible edits on the same class: a base is removed AND one of its own members is removed / re-kinded / revalued."""
    t = pick_def(rng, pkg, {"class"}, lambda d: d["bases"] and any(x["kind"] in ("func", "attr", "class") for x in d["body"]))
    if not t:
        return None
    lst, d, p, mod, mp = t
    d["bases"].pop(rng.randrange(len(d["bases"])))
    metas = [{"edit": "remove-base", "class": "incompatible", "path": p, "expect": "CLASS_REMOVED_BASE", "touched": []}]
    x = rng.choice(d["body"])
    ops = ["remove", "rekind"] + (["value", "value"] if x["kind"] == "attr" and x["value"] is not None else [])
    op = rng.choice(ops)
    xp = f"{p}.{x['name']}"
    if op == "remove":
        d["body"].remove(x)
        metas.append({"edit": "remove-" + x["kind"], "class": "incompatible", "path": xp, "expect": "OBJECT_REMOVED", "touched": []})
    elif op == "value":
        x["value"] = rng.choice([v for v in (None, 1, 2, 3, 7) if str(v) != str(x["value"])])
        metas.append({"edit": "change-value", "class": "incompatible", "path": xp, "expect": "ATTRIBUTE_CHANGED_VALUE", "touched": []})
    else:
        old = x["kind"]
        new = rng.choice([k for k in ("func", "attr") if k != old])
        name = x["name"]
        x.clear()
        x.update({"kind": "func", "name": name, "sig": (), "ret": None} if new == "func" else {"kind": "attr", "name": name, "value": 1})
        metas.append({"edit": f"rekind-{old}-to-{new}", "class": "incompatible", "path": xp, "expect": "OBJECT_CHANGED_KIND", "touched": []})
    return metas


def e_change_base(rng, pkg):
    """Replace a base by another class name, or reorder the bases (same number of bases: not a removed base)."""
    t = pick_def(rng, pkg, {"class"}, lambda d: d["bases"])
    if not t:
        return None
    lst, d, p, mod, mp = t
    names = [bound(x) for x in mod.defs if x is not d and (x["kind"] == "class" or (x["kind"] == "import" and bound(x)[:1].isupper()))]
    names = [n for n in names if n not in d["bases"]]
    if len(d["bases"]) > 1 and (not names or rng.random() < 0.4):
        d["bases"].reverse()
    elif names:
        d["bases"][rng.randrange(len(d["bases"]))] = rng.choice(names)
    else:
        return None
    return {"edit": "change-base", "class": "neutral", "path": p, "touched": []}


def e_change_value(rng, pkg):
    t = pick_def(rng, pkg, {"attr"}, lambda d: d["value"] is not None)
    if not t:
        return None
    lst, d, p, mod, mp = t
    d["value"] = rng.choice([v for v in (None, 1, 2, 3, 7) if str(v) != str(d["value"])])
    return {"edit": "change-value", "class": "incompatible", "path": p, "expect": "ATTRIBUTE_CHANGED_VALUE", "touched": []}


# literals that compare equal under Python's == and yet are different values for a user of the API (type / repr differ):
# 1 == 1.0 == True, 0 == 0.0 == False, also inside containers
COARSE = {"0": ["0.0", "False"], "1": ["1.0", "True"], "2": ["2.0"], "3": ["3.0"], "7": ["7.0"], "True": ["1", "1.0"],
          "(1, 2)": ["(1.0, 2)", "(True, 2)", "(1, 2.0)"], "[0, 1]": ["[False, 1]", "[0.0, 1]", "[0, True]"],
          "{'a': 1}": ["{'a': True}", "{'a': 1.0}"]}


def e_change_value_coarse(rng, pkg):
    """The value of an attribute becomes a literal that is ==-equal to the old one but of another type: still a changed value."""
    t = pick_def(rng, pkg, {"attr"}, lambda d: str(d["value"]) in COARSE)
    if not t:
        return None
    lst, d, p, mod, mp = t
    d["value"] = rng.choice(COARSE[str(d["value"])])
    return {"edit": "change-value-equal-under-==", "class": "incompatible", "path": p, "expect": "ATTRIBUTE_CHANGED_VALUE", "touched": []}


def e_param(rng, pkg):
    which = rng.choice(["remove", "add-required", "make-required"])
    if which == "remove":
        t = pick_def(rng, pkg, {"func"}, lambda d: d["sig"] and not any(q[1] in ("VP", "VK") for q in d["sig"]))
        if not t:
            return None
        lst, d, p, mod, mp = t
        sig = list(d["sig"])
        sig.pop(rng.randrange(len(sig)))
        # keep the signature valid: a positional parameter without default after one with default is a syntax error
        d["sig"] = tuple(sig)
        return {"edit": "param-remove", "class": "incompatible", "path": p, "expect": "PARAMETER_REMOVED", "touched": []}
    if which == "add-required":
        t = pick_def(rng, pkg, {"func"}, lambda d: not any(q[1] in ("PO", "PK") and q[2] for q in d["sig"]))
        if not t:
            return None
        lst, d, p, mod, mp = t
        sig = list(d["sig"])
        nm = fresh(rng, {q[0] for q in sig}, [PNAMES])
        i = len([q for q in sig if q[1] in ("PO", "PK")])
        sig.insert(i, (nm, "PK", 0))
        d["sig"] = tuple(sig)
        return {"edit": "param-add-required", "class": "incompatible", "path": p, "expect": "PARAMETER_ADDED_REQUIRED", "touched": []}
    t = pick_def(rng, pkg, {"func"}, lambda d: any(q[2] and q[1] not in ("VP", "VK") for q in d["sig"]))
    if not t:
        return None
    lst, d, p, mod, mp = t
    sig = list(d["sig"])
    idx = [i for i, q in enumerate(sig) if q[2] and q[1] not in ("VP", "VK")]
    i = idx[0] if sig[idx[0]][1] in ("PO", "PK") else rng.choice([j for j in idx if sig[j][1] == "KO"] or idx[:1])
    if sig[i][1] in ("PO", "PK"):
        i = idx[0]
    sig[i] = (sig[i][0], sig[i][1], 0)
    d["sig"] = tuple(sig)
    return {"edit": "param-make-required", "class": "incompatible", "path": p, "expect": "PARAMETER_CHANGED_REQUIRED", "touched": []}


def e_kwonly_to_positional(rng, pkg):
    """A keyword-only parameter becomes positional-or-keyword at a position old calls could already fill positionally (below the old
    number of positional parameters, or anywhere when old has *args): `f(1, 2, k=3)` now gives k two values.  Reported as a kind change
    by the old-side member of incompatible_kind (C10's collision rule, /repo 050d1a3)."""
    def ok(d):
        sig = d["sig"]
        pos = [q for q in sig if q[1] in ("PO", "PK")]
        i0 = len([q for q in pos if not q[2]])
        i = max(i0, len([q for q in pos if q[1] == "PO"]))
        return any(q[1] == "KO" for q in sig) and (i < len(pos) or any(q[1] == "VP" for q in sig))
    t = pick_def(rng, pkg, {"func"}, ok)
    if not t:
        return None
    lst, d, p, mod, mp = t
    sig = list(d["sig"])
    k = rng.choice([q for q in sig if q[1] == "KO"])
    sig.remove(k)
    pos = [q for q in sig if q[1] in ("PO", "PK")]
    i0 = len([q for q in pos if not q[2]])
    i = max(i0, len([q for q in pos if q[1] == "PO"]))
    dflt = k[2] or (1 if i > i0 else 0)
    sig.insert(i, (k[0], "PK", dflt))
    d["sig"] = tuple(sig)
    return {"edit": "param-kwonly-to-positional", "class": "incompatible", "path": p, "expect": "PARAMETER_CHANGED_KIND", "touched": []}


def e_drop_return(rng, pkg):
    t = pick_def(rng, pkg, {"func"}, lambda d: d.get("ret"))
    if not t:
        return None
    lst, d, p, mod, mp = t
    d["ret"] = None
    return {"edit": "drop-return-annotation", "class": "incompatible", "path": p, "expect": "RETURN_CHANGED_TYPE", "touched": []}


def e_retarget(rng, pkg):
    t = pick_def(rng, pkg, {"import"})
    if not t:
        return None
    lst, d, p, mod, mp = t
    src = [m for m, q in iter_mods(pkg) if q == d["frm"]]
    if not src:
        return None
    others = [bound(x) for x in src[0].defs if bound(x) != d["name"]]
    if not others:
        return None
    if not d.get("asname"):
        d["asname"] = d["name"]
    d["name"] = rng.choice(others)
    return {"edit": "retarget-reexport", "class": "neutral", "path": p, "touched": [p]}


def e_all(rng, pkg):
    mods = [m for m, _ in iter_mods(pkg)]
    m = rng.choice(mods)
    names = [bound(d) for d in m.defs]
    which = rng.choice(["drop-name", "add-all", "del-all", "add-name"])
    if which == "drop-name" and m.all and len(m.all) > 1:
        m.all.pop(rng.randrange(len(m.all)))
    elif which == "add-all" and m.all is None and names:
        m.all = [n for n in names if rng.random() < 0.5] or [names[0]]
    elif which == "del-all" and m.all is not None:
        m.all = None
    elif which == "add-name" and m.all is not None and [n for n in names if n not in m.all]:
        m.all.append(rng.choice([n for n in names if n not in m.all]))
    else:
        return None
    return {"edit": "all-" + which, "class": "neutral", "path": "", "touched": []}


def e_reorder(rng, pkg):
    lst, p, mod, ck = rng.choice(containers(pkg))
    if len(lst) < 2:
        return None
    rng.shuffle(lst)
    return {"edit": "reorder", "class": "neutral", "path": p, "touched": []}


def e_dangle(rng, pkg):
    """Remove a re-exported definition but keep the import: the re-export becomes unresolvable in new."""
    imps = [(d, mp) for lst, d, p, mod, mp in iter_defs(pkg) if d["kind"] == "import"]
    rng.shuffle(imps)
    for d, mp in imps:
        for mod, mq in iter_mods(pkg):
            if mq == d["frm"]:
                for x in mod.defs:
                    if bound(x) == d["name"]:
                        mod.defs.remove(x)
                        if mod.all is not None and bound(x) in mod.all:
                            mod.all.remove(bound(x))
                        return {"edit": "dangling-reexport", "class": "neutral", "path": f"{mq}.{bound(x)}", "touched": []}
    return None


def e_override_edit(rng, pkg):
    """An incompatible edit of a class member whose name is defined in several class bodies (a definition that overrides, or is
    overridden by, another one along some inheritance chain), preferably inside a private class."""
    by_name = {}
    for lst, d, p, mod, mp in iter_defs(pkg):
        if lst is not mod.defs and d["kind"] in ("func", "attr"):
            by_name.setdefault(d["name"], []).append((lst, d, p))
    c = [x for n, xs in by_name.items() if len(xs) > 1 for x in xs]
    if not c:
        return None
    priv = [x for x in c if x[2].split(".")[-2].startswith("_")]
    lst, d, p = rng.choice(priv if priv and rng.random() < 0.7 else c)
    ops = ["remove", "rekind"]
    if d["kind"] == "attr" and d["value"] is not None:
        ops += ["value", "value"]
    if d["kind"] == "func" and d["sig"] and not any(q[1] in ("VP", "VK") for q in d["sig"]):
        ops += ["param", "param"]
    op = rng.choice(ops)
    if op == "remove":
        lst.remove(d)
        return {"edit": "override-remove-" + d["kind"], "class": "incompatible", "path": p, "expect": "OBJECT_REMOVED", "touched": []}
    if op == "value":
        d["value"] = rng.choice([v for v in (None, 1, 2, 3, 7) if str(v) != str(d["value"])])
        return {"edit": "override-change-value", "class": "incompatible", "path": p, "expect": "ATTRIBUTE_CHANGED_VALUE", "touched": []}
    if op == "param":
        sig = list(d["sig"])
        sig.pop(rng.randrange(len(sig)))
        d["sig"] = tuple(sig)
        return {"edit": "override-param-remove", "class": "incompatible", "path": p, "expect": "PARAMETER_REMOVED", "touched": []}
    old, name = d["kind"], d["name"]
    d.clear()
    d.update({"kind": "func", "name": name, "sig": (), "ret": None} if old == "attr" else {"kind": "attr", "name": name, "value": 1})
    return {"edit": f"override-rekind-{old}", "class": "incompatible", "path": p, "expect": "OBJECT_CHANGED_KIND", "touched": []}


def e_facade_base_member(rng, pkg):
    """An incompatible edit of a public member that a class of the facade package only inherits from a base defined in another package."""
    world = {mp: m for m, mp in iter_mods(pkg)}
    cands = []
    for m, mp in iter_mods(pkg):
        for d in m.defs:
            if d["kind"] == "class" and d["bases"]:
                for b in d["bases"]:
                    imp = next((x for x in m.defs if x["kind"] == "import" and bound(x) == b), None)
                    if imp and imp["frm"] in world and imp["frm"].split(".")[0] != mp.split(".")[0]:
                        base = next((x for x in world[imp["frm"]].defs if x["kind"] == "class" and x["name"] == imp["name"]), None)
                        own = {bound(x) for x in d["body"]}
                        for x in (base["body"] if base else []):
                            if x["kind"] in ("func", "attr") and not name_is_private(x["name"]) and x["name"] not in own:
                                cands.append((base["body"], x, f"{imp['frm']}.{base['name']}.{x['name']}"))
    if not cands:
        return None
    lst, d, p = rng.choice(cands)
    if d["kind"] == "attr" and d["value"] is not None and rng.random() < 0.5:
        d["value"] = rng.choice([v for v in (1, 2, 3, 7) if str(v) != str(d["value"])])
        return {"edit": "facade-base-change-value", "class": "incompatible", "path": p, "expect": "ATTRIBUTE_CHANGED_VALUE", "touched": []}
    if rng.random() < 0.5:
        lst.remove(d)
        return {"edit": "facade-base-remove-" + d["kind"], "class": "incompatible", "path": p, "expect": "OBJECT_REMOVED", "touched": []}
    old, name = d["kind"], d["name"]
    d.clear()
    d.update({"kind": "func", "name": name, "sig": (), "ret": None} if old == "attr" else {"kind": "attr", "name": name, "value": 1})
    return {"edit": f"facade-base-rekind-{old}", "class": "incompatible", "path": p, "expect": "OBJECT_CHANGED_KIND", "touched": []}


EDITS = {
    "override": e_override_edit, "facade-base-member": e_facade_base_member,
    "add-public": lambda r, p: e_add_def(r, p, False), "add-private": lambda r, p: e_add_def(r, p, True),
    "add-module": e_add_module, "add-optional-kwonly": e_add_kwonly,
    "remove-def": e_remove_def, "remove-reexport": e_remove_reexport, "remove-module": e_remove_module,
    "change-kind": e_change_kind, "remove-base": e_remove_base, "change-value": e_change_value, "param": e_param,
    "drop-return": e_drop_return, "kwonly-to-positional": e_kwonly_to_positional, "change-value-coarse": e_change_value_coarse,
    "class-combo": e_class_combo, "change-base": e_change_base, "retarget": e_retarget, "all": e_all, "reorder": e_reorder, "dangle": e_dangle,
}
COMPAT = ["add-public", "add-private", "add-module", "add-optional-kwonly"]
INCOMPAT = ["remove-def", "remove-def", "remove-reexport", "remove-module", "change-kind", "change-kind", "remove-base", "change-value",
            "param", "param", "drop-return", "kwonly-to-positional", "change-value-coarse"]
NEUTRAL = ["retarget", "all", "reorder", "dangle", "change-base", "change-base"]


# --------------------------------------------------------------------------------------------------------------------
# loading, abstraction, reference semantics
# --------------------------------------------------------------------------------------------------------------------
class Interner:
    def __init__(self):
        self.vals = []

    def atom(self, v):
        for i, w in enumerate(self.vals):
            try:
                if type(w) is type(v) and w == v:
                    return i + 1
            except Exception:  # noqa: BLE001
                pass
        self.vals.append(v)
        return len(self.vals)


class Abstraction:
    """Loaded Griffe tree -> model store.  One index per object path."""

    def __init__(self, root, interner, pnames):
        from _griffe.exceptions import AliasResolutionError, CyclicAliasError
        self.ARE, self.CAE = AliasResolutionError, CyclicAliasError
        self.I = interner
        self.pnames = pnames
        self.index = {}
        self.paths = []
        self.objs = []
        self.nodes = []
        self.collisions = 0
        self.other_errors = []
        self.root = self.walk(root)

    def pn(self, name):
        if name not in self.pnames:
            self.pnames[name] = len(self.pnames)
        return self.pnames[name]

    def walk(self, obj):
        path = obj.path
        if path in self.index:
            if self.objs[self.index[path]] is not obj and not (obj.is_alias and getattr(obj, "inherited", False)):
                self.collisions += 1
            return self.index[path]
        i = len(self.nodes)
        self.index[path] = i
        self.paths.append(path)
        self.objs.append(obj)
        self.nodes.append(None)
        pub = [] if obj.public is None else [bool(obj.public)]
        if obj.is_alias:
            try:
                t = obj.target
                body = ["alias", ["res", self.walk(t)]]
            except self.ARE:
                body = ["alias", ["unres"]]
            except self.CAE:
                body = ["alias", ["cyc"]]
        else:
            k = obj.kind.value
            if k == "module":
                ex = [] if obj.exports is None else [[str(e) for e in obj.exports]]
                body = ["module", ex, list(obj.imports), [[n, self.walk(m)] for n, m in obj.members.items()]]
            elif k == "class":
                inh = [[n, self.walk(m)] for n, m in obj.inherited_members.items()]
                body = ["class", list(obj.imports), [self.I.atom(b) for b in obj.bases], inh,
                        [[n, self.walk(m)] for n, m in obj.members.items()]]
            elif k == "function":
                sg = [[self.pn(p.name), PARAM_KIND[p.kind.value], [] if p.default is None else [self.I.atom(p.default)]] for p in obj.parameters]
                body = ["function", sg, [] if obj.returns is None else [self.I.atom(obj.returns)]]
            else:
                body = ["attribute", [] if obj.value is None else [self.I.atom(obj.value)]]
        self.nodes[i] = [obj.name, pub, body]
        return i


class RawAbstraction:
    """Loaded Griffe collection -> raw store for the "ediff" model entry: declared structure only.  Aliases carry their target
    *path*, classes the canonical path of each base expression; `alias.target`, resolved bases, MRO and inherited members are NOT
    read here (the Coq elaboration computes them) -- `views()` reads them from Griffe separately, for the comparison."""

    def __init__(self, root, interner, pnames):
        self.I, self.pnames = interner, pnames
        self.index, self.paths, self.objs, self.nodes = {}, [], [], []
        self.collisions = 0
        coll = root.modules_collection.members
        self.coll = [[name, self.walk(m)] for name, m in coll.items()]
        self.root = self.index[root.path]

    def pn(self, name):
        if name not in self.pnames:
            self.pnames[name] = len(self.pnames)
        return self.pnames[name]

    def walk(self, obj):
        path = obj.path
        if path in self.index:
            if self.objs[self.index[path]] is not obj:
                self.collisions += 1
            return self.index[path]
        i = len(self.nodes)
        self.index[path] = i
        self.paths.append(path)
        self.objs.append(obj)
        self.nodes.append(None)
        pub = [] if obj.public is None else [bool(obj.public)]
        if obj.is_alias:
            body = ["alias", obj.target_path.split(".")]
        else:
            k = obj.kind.value
            if k == "module":
                ex = [] if obj.exports is None else [[str(e) for e in obj.exports]]
                body = ["module", ex, list(obj.imports), [[n, self.walk(m)] for n, m in obj.members.items()]]
            elif k == "class":
                bps = [(b if isinstance(b, str) else b.canonical_path).split(".") for b in obj.bases]
                body = ["class", list(obj.imports), [self.I.atom(b) for b in obj.bases], bps,
                        [[n, self.walk(m)] for n, m in obj.members.items()]]
            elif k == "function":
                sg = [[self.pn(p.name), PARAM_KIND[p.kind.value], [] if p.default is None else [self.I.atom(p.default)]] for p in obj.parameters]
                body = ["function", sg, [] if obj.returns is None else [self.I.atom(obj.returns)]]
            else:
                from _griffe.expressions import ExprAttribute, ExprName
                vp = [obj.value.canonical_path.split(".")] if isinstance(obj.value, (ExprName, ExprAttribute)) else []
                body = ["attribute", [] if obj.value is None else [self.I.atom(obj.value)], vp]
        self.nodes[i] = [obj.name, pub, body]
        return i

    def store(self):
        return [self.nodes, self.coll]

    def views(self):
        """What Griffe itself answers, per raw node, in the shape of the model's enc_views (indices -> paths)."""
        from _griffe.exceptions import AliasResolutionError, CyclicAliasError
        out = []
        for o in self.objs:
            if o.is_alias:
                try:
                    out.append(["alias", ["res", o.target.path]])
                except AliasResolutionError:
                    out.append(["alias", ["unres"]])
                except CyclicAliasError:
                    out.append(["alias", ["cyc"]])
            elif o.kind.value == "class":
                rb = [b.path for b in o.resolved_bases if b.is_class]
                try:
                    mro = ["ok", [k.path for k in o.mro()]]
                except ValueError as e:
                    mro = ["err", "cycle" if "cycle" in str(e) else "inconsistent"]
                out.append(["class", rb, mro, [[n, a.target.path] for n, a in o.inherited_members.items()]])
            else:
                out.append(["other"])
        return out

    def decode_views(self, vs):
        P = lambda i: self.paths[i] if i < len(self.paths) else f"#{i}"
        out = []
        for v in vs:
            if v[0] == "alias":
                out.append(["alias", ["res", P(v[1][1])] if v[1][0] == "res" else [v[1][0]]])
            elif v[0] == "class":
                mro = ["ok", [P(i) for i in v[2][1]]] if v[2][0] == "ok" else list(v[2])
                out.append(["class", [P(i) for i in v[1]], mro, [[n, P(m)] for n, m in v[3]]])
            else:
                out.append(["other"])
        return out

    def path_of(self, i, extra):
        if i < len(self.paths):
            return self.paths[i]
        c, n = extra[i - len(self.paths)]
        return f"{self.paths[c]}.{n}"


def doc_is_public(parent, m, exports_map=None, star_map=None):
    """The decision ladder as documented in the docstring of is_public (+ the documented module exception).
    exports_map (module path -> CPython's real __all__ after import, or None): used instead of Griffe's `exports` where given."""
    if m.public is not None:
        return bool(m.public)
    nm = m.name
    if not m.is_alias and m.kind.value == "module" and not nm.startswith("_"):
        return True
    if parent is not None and (not parent.is_alias) and parent.kind.value == "module":
        ex = exports_map[parent.path] if exports_map is not None and parent.path in exports_map else parent.exports
        if ex is not None:
            return nm in [str(e) for e in ex]
    special = nm.startswith("__") and nm.endswith("__")
    if nm.startswith("_") and not special:
        return False
    if parent is not None and star_map is not None and nm in star_map.get(parent.path, ()):
        return True      # bound by a wildcard import and exposed by CPython's `from <parent> import *`: not "imported" in the ladder's sense
    if parent is not None and nm in parent.imports:
        return False
    return True


def members_of(o):
    k = o.kind.value
    if k == "class":
        return {**o.inherited_members, **o.members}
    if k == "module":
        return dict(o.members)
    return {}


def reference_reach(old_root, new_root, exports_map=None, star_map=None):
    """Authority: which old objects / (old,new) pairs are reachable from the roots through documented-public members and
    resolvable alias targets.  No seen_paths cut: every route counts.  Returns (old paths, new paths of counterparts)."""
    from _griffe.exceptions import AliasResolutionError, CyclicAliasError
    old_paths, new_paths, seen = {old_root.path}, {new_root.path}, set()
    todo = [("members", old_root, new_root)]
    while todo:
        tag, o, n = todo.pop()
        key = (tag, o.path, n.path if n is not None else None)
        if key in seen:
            continue
        seen.add(key)
        if tag == "head":
            old_paths.add(o.path)
            if n is not None:
                new_paths.add(n.path)
            if o.is_alias or (n is not None and n.is_alias):
                try:
                    ot = o.target if o.is_alias else o
                    nt = None if n is None else (n.target if n.is_alias else n)
                except (AliasResolutionError, CyclicAliasError):
                    if o.is_alias:
                        try:
                            todo.append(("head", o.target, None))
                        except (AliasResolutionError, CyclicAliasError):
                            pass
                    continue
                todo.append(("head", ot, nt))
                continue
            if o.kind.value in ("module", "class") and (n is None or n.kind is o.kind):
                todo.append(("members", o, n))
            elif o.kind.value in ("module", "class"):
                todo.append(("members", o, None))
        else:
            nm_ = members_of(n) if n is not None and not n.is_alias else {}
            for name, m in members_of(o).items():
                if doc_is_public(o, m, exports_map, star_map):
                    todo.append(("head", m, nm_.get(name)))
    pairs = {(k[1], k[2]) for k in seen if k[0] == "members" and k[2] is not None}
    return old_paths, new_paths, pairs


# --------------------------------------------------------------------------------------------------------------------
# CPython's view of the generated classes, computed from the package *specs* (never from Griffe): every class statement of a
# spec becomes a real class (`type(name, bases, namespace)`), so the MRO is CPython's C3 and the provider of a name is CPython's
# lookup along `__mro__`.  Base names are resolved the way the interpreter would (module scope, `from m import n` chains).
# Declared-but-unassigned attributes (`x: int`) count as declared members (Griffe's object model; CPython would not bind them).
# --------------------------------------------------------------------------------------------------------------------
class SpecWorld:
    def __init__(self, spec):
        self.scope, self.order, self.class_at, self.cache = {}, {}, {}, {}
        for mod, mp in iter_mods(spec):
            sc = {s.name: ("module", f"{mp}.{s.name}") for s in mod.subs}
            for k, d in enumerate(mod.defs):
                sc[bound(d)] = ("import", d) if d["kind"] == "import" else ("def", d, f"{mp}.{d['name']}", mp)
                self.order[(mp, bound(d))] = k
            self.scope[mp] = sc
        for lst, d, p, mod, mp in iter_defs(spec):
            if d["kind"] == "class":
                self.class_at[p] = (d, mp, lst is mod.defs)

    def resolve(self, mp, name, seen=()):
        """What the interpreter binds `name` to in module `mp`: ('def', d, path, module) / ('module', path) / None (ImportError)."""
        b = self.scope.get(mp, {}).get(name)
        if b is None or b[0] != "import":
            return b
        d = b[1]
        if (mp, name) in seen or d["frm"] not in self.scope:
            return None
        return self.resolve(d["frm"], d["name"], seen + ((mp, name),))

    def build(self, path, stack=()):
        """The real class for the class statement at `path`: a type, or a string saying why CPython would not create it."""
        if path in self.cache:
            return self.cache[path]
        if path in stack:
            return "cycle"
        d, mp, toplevel = self.class_at[path]
        bases, why = [], None
        for b in d["bases"]:
            r = self.resolve(mp, b) if toplevel else None
            fwd = r is not None and self.order.get((mp, b), 10**6) > self.order.get((mp, d["name"]), -1)
            hops = 0
            while not fwd and r is not None and r[0] == "def" and r[1]["kind"] == "attr" and isinstance(r[1]["value"], str) and r[1]["value"].isidentifier() and r[1]["value"] not in ("True", "False", "None") and hops < 16:
                # `Base = Class`: the interpreter evaluates the name when the assignment runs, in the module of the assignment
                amp, aname, target = r[3], r[1]["name"], r[1]["value"]
                r = self.resolve(amp, target)
                fwd = r is not None and self.order.get((amp, target), 10**6) > self.order.get((amp, aname), -1)
                hops += 1
            if fwd:
                why = "forward-reference"
                break
            if r is None or r[0] != "def" or r[1]["kind"] != "class":
                why = "base-not-a-class"
                break
            t = self.build(r[2], stack + (path,))
            if isinstance(t, str):
                why = "base:" + t.split(":")[-1]
                break
            bases.append(t)
        if why is None:
            ns = {bound(x): ("member", x, f"{path}.{bound(x)}") for x in d["body"]}
            try:
                t = type(d["name"], tuple(bases), ns)
                t._spec_path = path
            except TypeError:
                t = "type-error"
        else:
            t = why
        self.cache[path] = t
        return t

    @staticmethod
    def names(t):
        out = []
        for k in t.__mro__[:-1]:
            for n, v in vars(k).items():
                if isinstance(v, tuple) and v[:1] == ("member",) and n not in out:
                    out.append(n)
        return out

    @staticmethod
    def lookup(t, n):
        """_PyType_Lookup: the first class of tp_mro whose __dict__ has the name -> (definition, defining class, depth)."""
        for depth, k in enumerate(t.__mro__[:-1]):
            v = vars(k).get(n)
            if isinstance(v, tuple) and v[:1] == ("member",):
                assert getattr(t, n) is v
                return v[1], k, depth
        return None


def mro_loaded(tree, t):
    """Are all classes of CPython's MRO of `t` present in the loaded collection?  (A package that no exported alias points at is not
    loaded by resolve_aliases(external=None, implicit=False): Griffe then cannot know what a base defined there provides.)"""
    for k in t.__mro__[:-1]:
        try:
            tree.modules_collection.get_member(k._spec_path)
        except Exception:  # noqa: BLE001
            return False
    return True


def name_is_private(n):
    return n.startswith("_") and not (n.startswith("__") and n.endswith("__"))


def class_view_expectations(wo, wn, po, pn):
    """What must be reported for the compared pair of classes (old `po`, new `pn`) according to CPython's view of each public name
    visible on the old class: -> (list of (why, kind, acceptable path, name, depth, overridden)), or a string (no oracle)."""
    to, tn = wo.build(po), wn.build(pn)
    if isinstance(to, str) or isinstance(tn, str):
        return "old:" + to if isinstance(to, str) else "new:" + tn
    out = []
    for n in SpecWorld.names(to):
        if name_is_private(n):
            continue
        xo, ko, depth = SpecWorld.lookup(to, n)
        definers = sum(1 for k in to.__mro__[:-1] if n in vars(k) and isinstance(vars(k)[n], tuple))
        tag = (n, depth, definers > 1)
        hit = SpecWorld.lookup(tn, n)
        if hit is None:
            out.append(("removed", "OBJECT_REMOVED", f"{po}.{n}") + tag)
            continue
        xn, kn, _ = hit
        at = f"{kn._spec_path}.{n}"
        if xo["kind"] != xn["kind"]:
            out.append(("kind", "OBJECT_CHANGED_KIND", at) + tag)
        elif xo["kind"] == "attr" and str(xo["value"]) != str(xn["value"]):
            out.append(("value", "ATTRIBUTE_CHANGED_VALUE", at) + tag)
        elif xo["kind"] == "func":
            newn = {q[0] for q in xn["sig"]}
            if not any(q[1] in ("VP", "VK") for q in xn["sig"]) and any(q[0] not in newn for q in xo["sig"]):
                out.append(("param", "PARAMETER_REMOVED", at) + tag)
            if xo.get("ret") and not xn.get("ret"):
                out.append(("return", "RETURN_CHANGED_TYPE", at) + tag)
        else:
            out.append(("same", None, at) + tag)
    return out


class Timeout(Exception):
    pass


def with_alarm(seconds, fn):
    def h(sig, frm):
        raise Timeout()
    prev = signal.signal(signal.SIGALRM, h)
    signal.alarm(seconds)
    try:
        return fn()
    finally:
        signal.alarm(0)
        signal.signal(signal.SIGALRM, prev)


def load_pkg(root: Path):
    import griffe
    return griffe.load("pkg", search_paths=[str(root)], resolve_aliases=True, resolve_external=None)


def impl_diff(old, new):
    """(status, sorted list of (kind, path, param)) from the implementation."""
    import griffe
    from _griffe.exceptions import CyclicAliasError
    out, unsound = [], []
    try:
        for b in with_alarm(20, lambda: list(griffe.find_breaking_changes(old, new))):
            k = b.kind.name
            prm = ""
            if k.startswith("PARAMETER_"):
                prm = (b.new_value if k == "PARAMETER_ADDED_REQUIRED" else b.old_value).name
            out.append([k, b.obj.path, prm])
            for st in griffe.ExplanationStyle:
                b.explain(st)
            # the report must be backed by the values it carries (soundness of the report kind)
            if k == "CLASS_REMOVED_BASE" and not len(b.new_value) < len(b.old_value):
                unsound.append([k, b.obj.path, "bases not fewer"])
            if k == "ATTRIBUTE_CHANGED_VALUE" and b.old_value == (None if b.new_value == "unset" else b.new_value):
                unsound.append([k, b.obj.path, "same value"])
            if k == "OBJECT_CHANGED_KIND" and b.old_value == b.new_value:
                unsound.append([k, b.obj.path, "same kind"])
            if k == "RETURN_CHANGED_TYPE" and not (b.old_value is not None and b.new_value is None):
                unsound.append([k, b.obj.path, "return annotation not lost"])
        if unsound:
            return "unsound:" + repr(unsound[:3]), sorted(out)
        return "ok", sorted(out)
    except CyclicAliasError:
        return "cyclic", []
    except Timeout:
        return "timeout", []
    except RecursionError:
        return "recursion", []
    except Exception as e:  # noqa: BLE001
        return "exception:" + type(e).__name__, []


def model_case(ao, an):
    return ["diff", ao.nodes, an.nodes, ao.root, an.root]


def decode_model(res, ao, an, pnames_rev):
    status, bs, flags, log = res
    out = []
    for b in bs:
        tag, side, i = b[0], b[1], b[2]
        path = (ao if side == "old" else an).paths[i]
        if tag == "param":
            out.append([PKMAP[b[3][0]], path, pnames_rev[b[3][1]]])
        else:
            out.append([BKMAP[tag], path, ""])
    return status, sorted(out), flags, log


# --------------------------------------------------------------------------------------------------------------------
# one case: two specs -> files -> load -> implementation, model, reference
# --------------------------------------------------------------------------------------------------------------------
class Case:
    def __init__(self, ctx, old_spec, new_spec, metas, stream, overrides=()):
        self.ctx, self.old_spec, self.new_spec, self.metas, self.stream, self.overrides = ctx, old_spec, new_spec, metas, stream, overrides
        self.fo, self.fn = files_of(old_spec), files_of(new_spec)
        self.json = {"stream": stream, "old": self.fo, "new": self.fn, "edits": [m["edit"] for m in metas], "overrides": list(overrides)}

    @classmethod
    def from_files(cls, ctx, old_files, new_files, stream):
        c = cls.__new__(cls)
        c.ctx, c.old_spec, c.new_spec, c.metas, c.stream, c.overrides = ctx, None, None, [], stream, ()
        c.fo, c.fn = dict(old_files), dict(new_files)
        c.json = {"stream": stream, "old": c.fo, "new": c.fn, "edits": [], "overrides": []}
        return c

    def load(self, k):
        d = self.ctx.scratch / f"case{k % 8}"
        write_tree(d / "old", self.fo)
        write_tree(d / "new", self.fn)
        self.old, self.new = load_pkg(d / "old"), load_pkg(d / "new")
        self.cpy_all = (cpython_all(d / "old"), cpython_all(d / "new")) if self.stream in ("composed-all", "wildcard-facade") else None
        for path, val in self.overrides:
            for t in (self.old, self.new):
                try:
                    t.modules_collection.get_member(path).public = val
                except Exception:  # noqa: BLE001
                    pass


def run_cases(ctx, cases, tally):
    """Evaluate a batch of cases: implementation first, then abstraction, one model call for the batch."""
    rows = []
    for k, c in enumerate(cases):
        try:
            with_alarm(30, lambda: c.load(k))
        except Exception as e:  # noqa: BLE001
            ctx.observe("load", "failed:" + type(e).__name__)
            # `griffe check` starts by loading both versions with alias resolution: a generated package (plain defs, classes, imports)
            # that cannot even be loaded means no comparison at all -- a failing input, not a harness problem
            ctx.property_failure(c.json, {"the comparison cannot start: griffe.load(resolve_aliases=True) raised": repr(e)[:300]})
            continue
        status, ibs = impl_diff(c.old, c.new)
        c.result = (status, ibs)
        I, pn = Interner(), {}
        try:
            ao, an = Abstraction(c.old, I, pn), Abstraction(c.new, I, pn)
        except Exception as e:  # noqa: BLE001
            ctx.tie_failure("harness", "abstraction failed", repr(e)[:300], c.json)
            continue
        if ao.collisions or an.collisions:
            ctx.observe("abstraction", "path-collision")
            ctx.tie_failure("harness", "two distinct objects share a path", [ao.collisions, an.collisions], c.json)
            continue
        try:
            c.raw = (RawAbstraction(c.old, I, pn), RawAbstraction(c.new, I, pn))
        except Exception as e:  # noqa: BLE001
            ctx.tie_failure("harness", "raw abstraction failed", repr(e)[:300], c.json)
            continue
        rows.append((c, status, ibs, ao, an, {v: k_ for k_, v in pn.items()}))
    res = ctx.model([model_case(ao, an) for _, _, _, ao, an, _ in rows])
    eres = ctx.model([["ediff", c.raw[0].store(), c.raw[1].store(), c.raw[0].root, c.raw[1].root] for c, *_ in rows])
    pubq, pubmeta = [], []
    for (c, status, ibs, ao, an, pr), r, er in zip(rows, res, eres):
        mstatus, mbs, flags, log = decode_model(r, ao, an, pr)
        wf, exitc = flags
        evaluate_elab(ctx, c, status, ibs, er, pr)
        evaluate(ctx, c, status, ibs, mstatus, mbs, wf, exitc, ao, an, log, tally)
        # per-member is_public: model vs implementation vs documented ladder
        for ab in (ao, an):
            for i, o in enumerate(ab.objs):
                if not o.is_alias and o.kind.value in ("module", "class"):
                    ms = list(members_of(o).values())
                    if ms:
                        pubq.append(["public", ab.nodes[i], [ab.nodes[ab.index[m.path]] for m in ms]])
                        pubmeta.append((c, o, ms))
    if pubq:
        for (c, o, ms), r in zip(pubmeta, ctx.model(pubq)):
            for m, (mp, md) in zip(ms, r):
                ctx.count("is_public_compared")
                ip = bool(m.is_public)
                if bool(mp) != ip:
                    ctx.tie_failure("correspondence", "is_public(model) vs Object.is_public", {"path": m.path, "model": mp, "impl": ip}, c.json)
                dp = doc_is_public(o, m)
                if bool(md) != dp:
                    ctx.tie_failure("oracle", "is_public_doc(model) vs documented ladder", {"path": m.path, "model": md, "doc": dp}, c.json)
                ctx.observe("is_public", f"impl={int(ip)} doc={int(dp)}")
    return rows


def evaluate_elab(ctx, c, status, ibs, er, pnames_rev):
    """(C) for the elaboration layer: alias.target outcomes, resolved bases, MRO and inherited members computed in Coq from the
    declared structure vs what Griffe answers; then the breakages computed from the elaborated stores vs find_breaking_changes."""
    ro, rn = c.raw
    estatus, ebs, (rwf, wf, exitc), (vo, vn, xo, xn) = er
    if ro.collisions or rn.collisions:
        ctx.tie_failure("harness", "two distinct declared objects share a path", [ro.collisions, rn.collisions], c.json)
        return
    if not rwf:
        ctx.observe("elab", "not-modelled:target-path-walks-through-an-alias-or-ill-formed")
        return
    ctx.observe("elab", "modelled")
    if not wf:
        ctx.tie_failure("correspondence", "elaboration of a well-formed raw store is not a well-formed store", None, c.json)
    for side, ra, v in (("old", ro, vo), ("new", rn, vn)):
        mv, gv = ra.decode_views(v), ra.views()
        for path, a, b in zip(ra.paths, mv, gv):
            ctx.observe("elab_view", a[0] + (":" + a[1][0] if a[0] == "alias" else ":mro-" + a[2][0] + f"-inh{min(len(a[3]), 4)}" if a[0] == "class" else ""))
            if a != b:
                what = {"alias": "Alias.target outcome", "class": "resolved bases / mro / inherited_members"}.get(a[0], "node kind")
                ctx.tie_failure("correspondence", f"elaboration(model) vs Griffe: {what}", {"side": side, "path": path, "model": a, "impl": b}, c.json)
                return
    # (O) the inherited view computed by the model vs CPython's (real classes built from the specs), where CPython can create the class
    if c.old_spec is not None and not c.overrides:
        for spec, ra, v in ((c.old_spec, ro, vo), (c.new_spec, rn, vn)):
            W = SpecWorld(spec)
            for path, a in zip(ra.paths, ra.decode_views(v)):
                if a[0] != "class" or path not in W.class_at:
                    continue
                t = W.build(path)
                if isinstance(t, str) or not mro_loaded(ra.objs[0], t):
                    continue
                want = {}
                for n in SpecWorld.names(t):
                    x, k, depth = SpecWorld.lookup(t, n)
                    if depth >= 1:
                        want[n] = f"{k._spec_path}.{n}"
                ctx.count("inherited_view_vs_cpython")
                if dict(a[3]) != want:
                    ctx.tie_failure("oracle", "inherited view (elaborated model) vs CPython lookup along __mro__",
                                    {"class": path, "model": a[3], "cpython": want}, c.json)
    out = []
    for b in ebs:
        tag, sd, i = b[0], b[1], b[2]
        path = ro.path_of(i, xo) if sd == "old" else rn.path_of(i, xn)
        out.append([PKMAP[b[3][0]], path, pnames_rev[b[3][1]]] if tag == "param" else [BKMAP[tag], path, ""])
    out.sort()
    if estatus != status or (status == "ok" and out != ibs):
        ctx.tie_failure("correspondence", "breakages(elaborated model) vs find_breaking_changes",
                        {"model": [estatus, out[:12]], "impl": [status, ibs[:12]]}, c.json)
    if (exitc != 0) != (status != "ok" or bool(ibs)):
        ctx.tie_failure("correspondence", "check_exit(elaborated model) vs breakages", {"model_exit": exitc, "impl": [status, len(ibs)]}, c.json)


def evaluate(ctx, c, status, ibs, mstatus, mbs, wf, exitc, ao, an, log, tally):
    metas = c.metas
    classes = {m["class"] for m in metas}
    nontrivial = bool(metas) or any(n[2][0] == "alias" for n in ao.nodes)
    ctx.case(c.json, nontrivial)
    ctx.observe("stream", c.stream)
    ctx.observe("impl_status", status)
    ctx.observe("model_status", mstatus)
    ctx.observe("n_breakages", min(len(ibs), 8))
    ctx.observe("store_size", 10 * (len(ao.nodes) // 10))
    for m in metas:
        ctx.observe("edit", m["edit"])
    for b in ibs:
        ctx.observe("breakage", b[0])
    for e in log:
        ctx.observe("model_event", e[0])
    for ab in (ao, an):
        for n in ab.nodes:
            ctx.observe("node", n[2][0] + (":" + n[2][1][0] if n[2][0] == "alias" else ""))
    if not wf:
        ctx.tie_failure("harness", "abstraction produced a store the model calls ill-formed", None, c.json)
    # ---- (C) correspondence
    want = status
    if mstatus != want or (status == "ok" and mbs != ibs):
        ctx.tie_failure("correspondence", "breakages(model) vs find_breaking_changes",
                        {"model": [mstatus, mbs[:12]], "impl": [status, ibs[:12]]}, c.json)
    if (exitc != 0) != (status != "ok" or bool(ibs)):
        ctx.tie_failure("correspondence", "check_exit(model) vs breakages", {"model_exit": exitc, "impl": [status, len(ibs)]}, c.json)
    # ---- direct evaluation of the property on the implementation
    if status == "cyclic":
        ctx.property_failure(c.json, "find_breaking_changes raised CyclicAliasError instead of skipping the cyclic re-export")
        return
    if status != "ok":
        ctx.property_failure(c.json, f"find_breaking_changes did not complete, or a report is not backed by its own values: {status}")
        return
    if any(n[2] == ["alias", ["unres"]] for n in ao.nodes + an.nodes):
        tally["unresolvable_survived"] += 1
    if any(n[2] == ["alias", ["cyc"]] for n in ao.nodes + an.nodes):
        tally["cyclic_survived"] += 1
    exports_old = star_old = None
    if getattr(c, "cpy_all", None) and not c.overrides:
        # the public frontier according to CPython: the real __all__ of every module after import, and what `from m import *` binds
        stars = []
        for tree, real, side, spec in ((c.old, c.cpy_all[0], "old", c.old_spec), (c.new, c.cpy_all[1], "new", c.new_spec)):
            stars.append(None)
            if real is None:
                ctx.observe("frontier", "package-does-not-import")
                continue
            # names a module binds through a wildcard import only (spec) and that CPython's star-import of the module exposes
            wild = {}
            for mod_, mp_ in iter_mods(spec):
                if any(d["kind"] == "import" and d["name"] == "*" for d in mod_.defs):
                    own = {bound(d) for d in mod_.defs if not (d["kind"] == "import" and d["name"] == "*")} | {x.name for x in mod_.subs}
                    wild[mp_] = {n for n in real["star"].get(mp_, []) if n not in own} if mod_.all is None and not mod_.all_from else set()
            stars[-1] = wild
            for mpath, names in real["all"].items():
                try:
                    mod = tree.modules_collection.get_member(mpath)
                except Exception:  # noqa: BLE001
                    continue
                ctx.observe("frontier", f"{side} __all__={'none' if names is None else 'composed' if len(names) > 1 else 'short'}{' wildcard' if wild.get(mpath) else ''}")
                for n in wild.get(mpath, ()):
                    if n not in mod.members:
                        ctx.property_failure(c.json, {"a name CPython's `from m import *` re-exports through a wildcard import is no member of the loaded module": f"{mpath}.{n}", "side": side})
                for m in mod.members.values():
                    tally["frontier_members_checked"] += 1
                    if m.name in wild.get(mpath, ()):
                        tally["frontier_wildcard_members_checked"] += 1
                    if bool(m.is_public) != doc_is_public(mod, m, real["all"], wild):
                        ctx.property_failure(c.json, {"is_public deviates from the documented ladder applied to CPython's real __all__ / star-import": m.path,
                                                      "is_public": bool(m.is_public), "module": mpath, "cpython __all__": names,
                                                      "cpython `from m import *`": real["star"].get(mpath), "imports": dict(mod.imports),
                                                      "griffe exports": None if mod.exports is None else [str(e) for e in mod.exports], "side": side})
        if c.cpy_all[0] is not None:
            exports_old, star_old = c.cpy_all[0]["all"], stars[0]
    reach_old, reach_new, reach_pairs = reference_reach(c.old, c.new, exports_old, star_old)
    view_explained, view_unknown = class_view_oracle(ctx, c, ibs, reach_pairs, tally)
    # every reported object is publicly reachable by the documented ladder
    for k, path, prm in ibs:
        if path not in (reach_old if k == "OBJECT_REMOVED" else reach_new):
            ctx.property_failure(c.json, {"reported object is not publicly reachable": [k, path]})
    if c.fo == c.fn and not c.overrides and ibs:
        ctx.property_failure(c.json, {"identical copy reported": ibs[:5]})
    if not metas:
        return
    # acceptable paths of an edited object: itself, aliases / inherited aliases that finally resolve to it
    alias_names = {}
    for i, o in enumerate(ao.objs):
        if o.is_alias:
            try:      # every link of the chain counts: pkg.sub.h -> pkg.g -> pkg.a.z makes pkg.sub.h a name of pkg.g and of pkg.a.z
                t, hops = o.target, 0
                while hops < 64:
                    alias_names.setdefault(t.path, set()).add(ao.paths[i])
                    if not t.is_alias:
                        break
                    t, hops = t.target, hops + 1
            except Exception:  # noqa: BLE001
                pass

    def names_of(path):
        return {path} | alias_names.get(path, set())

    def routes(paths):
        """Every path on which one of the objects, or an object enclosing it, can be reached (itself, its aliases, enclosing objects, their aliases)."""
        out = set()
        for a in paths:
            parts = a.split(".")
            for k in range(1, len(parts) + 1):
                out |= names_of(".".join(parts[:k]))
        return out

    def subtree(path):
        return [p for p in ao.index if p == path or p.startswith(path + ".")]

    if classes == {"compatible"}:
        tally["compatible_scripts"] += 1
        unexplained = [b for b in ibs if b[1] in (reach_old if b[0] == "OBJECT_REMOVED" else reach_new)]
        if unexplained:      # reports on objects outside the documented-public part are judged (and classified) above
            ctx.property_failure(c.json, {"compatible edit script reported": unexplained[:5]})
        return
    all_private = True
    base_names = {b for _, d, _, _, _ in iter_defs(c.old_spec) if d["kind"] == "class" for b in d["bases"]}
    own_members = {p: {bound(x) for x in d["body"]} for _, d, p, _, _ in iter_defs(c.old_spec) if d["kind"] == "class"}

    def still_provided(path):
        """After removing a class's own member: does the new class still have the name (inherited from a remaining base)?"""
        parent, _, leaf = path.rpartition(".")
        try:
            po = c.new.modules_collection.get_member(parent)
            return po.kind.value == "class" and leaf in po.all_members
        except Exception:  # noqa: BLE001
            return False

    def interferes(m, acc):
        """Does another edit of the script take away the route on which edit m would be observed?
        - a neutral edit (retarget, __all__, dangling re-export, base swap) may change what is public or what is compared;
        - an edit of the very same object (e.g. a parameter added then removed);
        - a removal / re-kinding of the object itself, of an enclosing object or of a re-export leading to it (then only that is reported);
        - a removed / re-kinded name that is used as a base class somewhere (inherited routes change);
        - a base removal on a class, for objects seen only through that class's inherited members (own members are unaffected);
        - a base removal anywhere, for objects that some class shows through inheritance (the MRO of subclasses may be reordered)."""
        inherited_route = any(getattr(ao.objs[ao.index[a]], "inherited", False) for a in acc if a in ao.index)
        for x in metas:
            if x is m:
                continue
            if x["class"] == "neutral":
                return True
            if x.get("expect") == "CLASS_REMOVED_BASE" and inherited_route:
                return True      # a removed base anywhere may reorder the MRO of the classes that show this object through inheritance
                                 # (what they show afterwards is judged by the class-view oracle, state by state)
            destructive = x.get("expect") in ("OBJECT_REMOVED", "OBJECT_CHANGED_KIND")
            if destructive and x["path"].rpartition(".")[2] in base_names:
                return True
            rts = routes(acc)
            for q in [x.get("path", "")] + x.get("touched", []):
                if not q:
                    continue
                if q in acc:
                    return True
                for r in rts:
                    if destructive and (r == q or r.startswith(q + ".")):
                        return True
                    if x.get("expect") == "CLASS_REMOVED_BASE" and r.startswith(q + ".") and \
                            r[len(q) + 1:].split(".")[0] not in own_members.get(q, ()):
                        return True
        return False

    for m in metas:
        gone = [m["path"]] + m.get("touched", []) + (subtree(m["path"]) if m["class"] == "incompatible" else [])
        if m["class"] == "incompatible" and any(q.rpartition(".")[2] in base_names for q in gone):
            all_private = False      # an edited / removed / cascaded name is used as a base class somewhere: inherited members of other classes may change
        if m["class"] != "incompatible":
            if m["class"] == "neutral":
                all_private = False
            continue
        acc = set()
        for p in [m["path"]] + m.get("touched", []):
            acc |= names_of(p)
        public = bool(names_of(m["path"]) & reach_old)
        # does the edit touch anything publicly reachable (the object, its members, cascaded re-exports)?
        touched_public = any(q in reach_old or (names_of(q) & reach_old) for p in [m["path"]] + m.get("touched", []) for q in subtree(p))
        if touched_public:
            all_private = False
        ctx.observe("edit_location", ("public:" if public else "private:") + m["expect"])
        if not public:
            continue
        tally["public_incompatible_edits"] += 1
        # Every incompatible edit of a script carries its own expectation, unless another edit of the script interferes with it:
        if interferes(m, acc):
            tally["edit_expectation_skipped"] += 1
            continue
        tally["edit_expectations"] += 1
        if len(metas) > 1:
            tally["edit_expectations_in_multi_edit_scripts"] += 1
        hit = [b for b in ibs if b[0] == m["expect"] and b[1] in acc]
        if m["expect"] == "PARAMETER_REMOVED":
            hit = [b for b in ibs if b[0].startswith("PARAMETER_") and b[1] in acc]
        if not hit and m["expect"] == "OBJECT_REMOVED" and any(still_provided(a) for a in acc):
            tally["removed_but_still_inherited"] += 1      # on some route the removed class member is still provided by another base class
            continue
        if not hit:
            ctx.property_failure(c.json, {"public incompatible edit not reported": m, "reported": ibs[:6], "acceptable_paths": sorted(acc)[:6]})
        else:
            tally["public_incompatible_reported"] += 1
    if all_private and classes <= {"compatible", "incompatible"} and not view_unknown:
        # private definitions are publicly reachable through inheritance: what CPython's view of a compared public class lost or
        # changed (class_view_oracle) is a legitimate report even when every edit sits below a private object
        tally["private_only_scripts"] += 1
        unexplained = [b for b in ibs if b[1] in (reach_old if b[0] == "OBJECT_REMOVED" else reach_new) and (b[0], b[1]) not in view_explained]
        if unexplained:      # reports on objects outside the documented-public part are judged (and classified) above
            ctx.property_failure(c.json, {"edits below private objects only, yet reported": unexplained[:5]})


def class_view_oracle(ctx, c, ibs, pairs, tally):
    """Direct evaluation, independent of Griffe's inherited_members / MRO: for every compared pair of classes, what CPython's
    attribute lookup along __mro__ says each public name of the old class is, before and after, must be reflected in the reports."""
    explained, unknown = set(), False
    if c.old_spec is None or c.overrides:
        return explained, True
    wo, wn = SpecWorld(c.old_spec), SpecWorld(c.new_spec)
    for po, pn in sorted(pairs):
        if po not in wo.class_at or pn not in wn.class_at:
            continue
        exp = class_view_expectations(wo, wn, po, pn)
        if not isinstance(exp, str) and not (mro_loaded(c.old, wo.build(po)) and mro_loaded(c.new, wn.build(pn))):
            exp = "base-in-a-package-that-was-not-loaded"
        if isinstance(exp, str):
            ctx.observe("class_view", "no-oracle:" + exp)
            unknown = True
            continue
        for why, kind, at, n, depth, overridden in exp:
            ctx.observe("class_view", f"{why} depth={min(depth, 3)}{' overridden' if overridden else ''}")
            if kind is None:
                continue
            tally["class_view_expectations"] += 1
            explained.add((kind, at))
            if depth >= 1 and overridden:
                tally["class_view_expectations_overridden_inherited"] += 1
            if not any(b[0] == kind and b[1] == at for b in ibs):
                ctx.property_failure(c.json, {"CPython's view of a public class changed incompatibly, not reported": [why, kind, at],
                                              "class pair": [po, pn], "name": n, "defining class depth in old __mro__": depth,
                                              "reported": ibs[:6]})
    return explained, unknown


# --------------------------------------------------------------------------------------------------------------------
# exhaustive ladder check on synthetic objects
# --------------------------------------------------------------------------------------------------------------------
def ladder_check(ctx):
    import griffe
    names = ["f", "_f", "__f", "__f__", "_", "__", "___", "_f_", "__f_", "f__", "_f__", "F"]
    r = ctx.model([["names", names]])[0]
    for nm, (mp, ms) in zip(names, r):
        o = griffe.Function(nm)
        if bool(mp) != bool(o.is_private) or bool(ms) != bool(o.is_special):
            ctx.tie_failure("correspondence", "is_private/is_special(model) vs mixins", {"name": nm, "model": [mp, ms], "impl": [o.is_private, o.is_special]})
    q, meta = [], []
    for pk in ("module", "class"):
        for exports in (None, [], ["f", "_f", "m"], ["zz"]):
            if pk == "class" and exports is not None:
                continue
            for imported in (False, True):
                for mk in ("function", "attribute", "class", "module", "alias"):
                    for nm in ("f", "_f", "__f__", "__f", "m", "_m"):
                        for pub in (None, True, False):
                            parent = griffe.Module("p") if pk == "module" else griffe.Class("p")
                            if pk == "class":      # half of the class parents sit in a module that itself imports the member's name
                                holder = griffe.Module("holder")
                                holder.set_member("p", parent)
                                if (len(q) // 3) % 2:
                                    holder.imports[nm] = "y." + nm
                            parent.exports = exports if pk == "module" else None
                            if imported:
                                parent.imports[nm] = "x." + nm
                            m = {"function": griffe.Function, "attribute": griffe.Attribute, "class": griffe.Class, "module": griffe.Module}.get(mk)
                            m = m(nm) if m else griffe.Alias(nm, "x." + nm)
                            parent.set_member(nm, m)
                            m.public = pub
                            pnode = ["p", [], ["module", [] if exports is None else [exports], list(parent.imports), [[nm, 1]]] if pk == "module"
                                     else ["class", list(parent.imports), [], [], [[nm, 1]]]]
                            body = {"function": ["function", [], []], "attribute": ["attribute", []], "class": ["class", [], [], [], []],
                                    "module": ["module", [], [], []], "alias": ["alias", ["unres"]]}[mk]
                            q.append(["public", pnode, [[nm, [] if pub is None else [pub], body]]])
                            meta.append((parent, m, pk, exports, imported, mk, nm, pub))
    for (parent, m, *desc), r in zip(meta, ctx.model(q)):
        mp, md = r[0]
        ctx.count("ladder_cases")
        try:
            ip = bool(m.is_public)
        except Exception as e:  # noqa: BLE001
            ctx.property_failure({"ladder": [str(x) for x in desc]}, f"is_public raised {type(e).__name__}: {e}")
            continue
        if bool(mp) != ip:
            ctx.tie_failure("correspondence", "is_public(model) vs mixins.is_public on the exhaustive ladder", {"case": desc, "model": mp, "impl": ip})
        if bool(md) != doc_is_public(parent, m):
            ctx.tie_failure("oracle", "is_public_doc(model) vs documented ladder", {"case": desc, "model": md})
        if ip != doc_is_public(parent, m):
            ctx.property_failure({"ladder": [str(x) for x in desc]}, "is_public deviates from its documented ladder")


# --------------------------------------------------------------------------------------------------------------------
# the witnesses of the repaired findings F1, F2, F3: they must now pass (direct evaluation; also part of corpus/C11)
# --------------------------------------------------------------------------------------------------------------------
W_F1 = ({"pkg/__init__.py": "from pkg.a import x\n__all__ = ['x']\n", "pkg/a.py": "from pkg.b import x\n", "pkg/b.py": "from pkg.a import x\n"},) * 2
W_F2 = ({"pkg/__init__.py": "from pkg.a import f\nfrom pkg.a import f as g\n__all__ = ['f', 'g']\n", "pkg/a.py": "def f(x): pass\nclass K: pass\n"},
        {"pkg/__init__.py": "from pkg.a import f\nfrom pkg.a import K as g\n__all__ = ['f', 'g']\n", "pkg/a.py": "def f(x): pass\nclass K: pass\n"})
W_F3 = ({"pkg/__init__.py": "__all__ = []\ndef f(): pass\n"}, {"pkg/__init__.py": "__all__ = []\n"})


def witness_diff(ctx, name, files):
    d = ctx.scratch / name
    write_tree(d / "old", files[0])
    write_tree(d / "new", files[1])
    return impl_diff(load_pkg(d / "old"), load_pkg(d / "new"))


def regressions(ctx):
    s, b = witness_diff(ctx, "w1", W_F1)
    if not (s == "ok" and not b):
        ctx.property_failure({"old": W_F1[0], "new": W_F1[1], "edits": [], "stream": "regression"},
                             {"a cyclic re-export must be skipped, not abort the comparison of a package with itself": [s, b]})
    s, b = witness_diff(ctx, "w2", W_F2)
    if not (s == "ok" and any(k == "OBJECT_CHANGED_KIND" for k, _, _ in b)):
        ctx.property_failure({"old": W_F2[0], "new": W_F2[1], "edits": ["retarget-reexport"], "stream": "regression"},
                             {"public re-export pkg.g changed from a function to a class: must be reported": [s, b]})
    s, b = witness_diff(ctx, "w3", W_F3)
    if not (s == "ok" and not b):
        ctx.property_failure({"old": W_F3[0], "new": W_F3[1], "edits": ["remove-func"], "stream": "regression"},
                             {"pkg.f is not exported by the empty __all__: its removal must not be reported": [s, b]})
    # the old-side member of incompatible_kind (C10's collision rule, landed in /repo as 050d1a3) seen through the whole-package diff
    W = ({"pkg/__init__.py": "def f(a, *args, k=1): pass\ndef g(a, b=2, *, k): pass\n"},
         {"pkg/__init__.py": "def f(a, k=1, *args): pass\ndef g(a, k=1, b=2): pass\n"})
    s, b = witness_diff(ctx, "w4", W)
    if not (s == "ok" and ["PARAMETER_CHANGED_KIND", "pkg.f", "k"] in b and ["PARAMETER_CHANGED_KIND", "pkg.g", "k"] in b):
        ctx.property_failure({"old": W[0], "new": W[1], "edits": ["param-kwonly-to-positional"], "stream": "regression"},
                             {"f(1, 2, k=3) / g(1, 2, k=3) bound before and give k two values now: must be reported": [s, b]})
    ctx.count("regression_witnesses", 4)


# --------------------------------------------------------------------------------------------------------------------
# scripted two-version histories (hand-written specs + the metas the edit functions would return): run through the full evaluation
# --------------------------------------------------------------------------------------------------------------------
def _mod(name, defs, pkg=False, all_=None, subs=()):
    m = Mod(name, pkg)
    m.defs, m.all, m.subs = list(defs), all_, list(subs)
    return m


def _cls(name, bases=(), body=()):
    return {"kind": "class", "name": name, "bases": list(bases), "body": list(body)}


def _fn(name, sig=(), ret=None):
    return {"kind": "func", "name": name, "sig": tuple(sig), "ret": ret}


def _at(name, value):
    return {"kind": "attr", "name": name, "value": value}


def _imp(frm, name, asname=None):
    d = {"kind": "import", "frm": frm, "name": name}
    if asname:
        d["asname"] = asname
    return d


def scripted_cases(ctx):
    out = []
    # (1) thorough-tier alarm of the first round: a PRIVATE module holding a base class of public classes is removed and a bare
    # class of the same name is added: the public classes lose inherited public members -- reports are legitimate.
    old = _mod("pkg", [_cls("K", (), [_fn("g"), _at("_s_", 1)])], True, subs=[
        _mod("_util", [_imp("pkg", "K", "Base"), _cls("K", ("Base",), [_at("_y", 3)])], all_=["Base", "K"]),
        _mod("b", [_imp("pkg._util", "K"), _cls("_x"), _cls("M", ("_x", "K")), _cls("L", ("M", "K"))])])
    new = _mod("pkg", [_cls("K", (), [_fn("g"), _at("_s_", 1)])], True, subs=[
        _mod("b", [_cls("K"), _cls("_x"), _cls("M", ("_x", "K")), _cls("L", ("M", "K"))])])
    metas = [{"edit": "remove-module", "class": "incompatible", "path": "pkg._util", "expect": "OBJECT_REMOVED", "touched": ["pkg.b.K"]},
             {"edit": "add-public", "class": "compatible", "path": "pkg.b.K", "touched": []}]
    out.append(Case(ctx, old, new, metas, "scripted"))
    # (2) the shape of seeded change m5: only the private intermediate class is edited (value, kind, signature)
    base = _cls("Base", (), [_at("color", 1), _at("size", 1), _fn("render", [("x", "PK", 0)]), _fn("reset")])
    mid_o = _cls("_Styled", ("Base",), [_at("color", 2), _at("size", 2), _fn("render", [("x", "PK", 0), ("y", "PK", 1)])])
    mid_n = _cls("_Styled", ("Base",), [_at("color", 3), _fn("size"), _fn("render", [("x", "PK", 0)])])
    leaf = _cls("Widget", ("_Styled",), [_fn("show")])
    metas = [{"edit": "override-change-value", "class": "incompatible", "path": "pkg._Styled.color", "expect": "ATTRIBUTE_CHANGED_VALUE", "touched": []},
             {"edit": "override-rekind-attr", "class": "incompatible", "path": "pkg._Styled.size", "expect": "OBJECT_CHANGED_KIND", "touched": []},
             {"edit": "override-param-remove", "class": "incompatible", "path": "pkg._Styled.render", "expect": "PARAMETER_REMOVED", "touched": []}]
    out.append(Case(ctx, _mod("pkg", [base, mid_o, leaf], True), _mod("pkg", [copy.deepcopy(base), mid_n, copy.deepcopy(leaf)], True), metas, "scripted"))
    # (3) same through the facade layout and a diamond: pkg re-exports Leaf from _pkg; the override sits in the first private branch
    top = _cls("Top", (), [_at("v", 1), _fn("m", [("a", "PK", 0)])])
    b1o, b1n = _cls("_B", ("Top",), [_at("v", 2)]), _cls("_B", ("Top",), [_at("v", 7)])
    b2 = _cls("_C", ("Top",), [_at("v", 3), _fn("m", [("a", "PK", 0)])])
    lf = _cls("Leaf", ("_B", "_C"))
    fac = lambda b1: _mod("", [], True, subs=[_mod("pkg", [_imp("_pkg.core", "Leaf")], True, all_=["Leaf"]),
                                             _mod("_pkg", [], True, subs=[_mod("core", [copy.deepcopy(top), b1, copy.deepcopy(b2), copy.deepcopy(lf)])])])
    metas = [{"edit": "override-change-value", "class": "incompatible", "path": "_pkg.core._B.v", "expect": "ATTRIBUTE_CHANGED_VALUE", "touched": []}]
    out.append(Case(ctx, fac(b1o), fac(b1n), metas, "scripted"))
    # (4) thorough-tier alarm of the extension round: a removed base of a private mixin reorders the MRO of the public subclass, so the
    # re-kinding of the mixin's member is no longer what the public class shows (Top.w is, with another value): judged state by state
    top = _cls("Top", (), [_at("w", 2)])
    m_ = _cls("M", ("Top",), [_at("size", 1)])
    leaf = _cls("Base", ("M", "_Mix"))
    metas = [{"edit": "remove-base", "class": "incompatible", "path": "pkg._Mix", "expect": "CLASS_REMOVED_BASE", "touched": []},
             {"edit": "rekind-attr-to-func", "class": "incompatible", "path": "pkg._Mix.w", "expect": "OBJECT_CHANGED_KIND", "touched": []}]
    out.append(Case(ctx, _mod("pkg", [top, m_, _cls("_Mix", ("Top",), [_at("w", None)]), leaf], True),
                    _mod("pkg", [copy.deepcopy(top), copy.deepcopy(m_), _cls("_Mix", (), [_fn("w")]), copy.deepcopy(leaf)], True), metas, "scripted"))
    return out


# --------------------------------------------------------------------------------------------------------------------
# CLI exit code on throw-away git repositories
# --------------------------------------------------------------------------------------------------------------------
def git(cwd, *args):
    return subprocess.run(["git", "-c", "user.name=t", "-c", "user.email=t@t", "-c", "commit.gpgsign=false", "-c", "init.defaultBranch=main", *args],
                          cwd=cwd, capture_output=True, text=True, timeout=60)


def cli_case(ctx, k, c):
    repo = ctx.scratch / f"repo{k}"
    write_tree(repo / "src", c.fo)
    git(repo, "init", "-q")
    git(repo, "add", "-A")
    r = git(repo, "commit", "-q", "-m", "old")
    if r.returncode != 0:
        ctx.tie_failure("harness", "git commit failed", r.stderr[-300:])
        return
    git(repo, "tag", "v0")
    shutil.rmtree(repo / "src")
    write_tree(repo / "src", c.fn)
    args = ["-a", "v0"]
    if k % 2:        # compare two committed revisions (-b) instead of the working tree
        git(repo, "add", "-A")
        git(repo, "commit", "-q", "--allow-empty", "-m", "new")
        git(repo, "tag", "v1")
        args += ["-b", "v1"]
    env = dict(os.environ, PYTHONPATH=os.environ.get("GRIFFE_REPO", "/repo") + "/src", PYTHONHASHSEED="0", NO_COLOR="1")
    env.pop("FORCE_COLOR", None)
    p = subprocess.run([sys.executable, "-m", "griffe", "check", "pkg", *args, "-s", "src"], cwd=repo, capture_output=True, text=True,
                       timeout=120, env=env)
    write_tree(ctx.scratch / f"cli{k}" / "old", c.fo)
    write_tree(ctx.scratch / f"cli{k}" / "new", c.fn)
    status, ibs = impl_diff(load_pkg(ctx.scratch / f"cli{k}" / "old"), load_pkg(ctx.scratch / f"cli{k}" / "new"))
    ctx.count("cli_runs")
    reported = [l for l in p.stderr.split("\n") if l.strip() and ": " in l and not l.startswith(("Traceback", " ", "\t"))]
    ctx.observe("cli", f"rc={p.returncode} api={'nonempty' if ibs else 'empty'}/{status} {'facade' if c.stream.startswith('facade') else 'single'} {' '.join(args[2:3]) or 'worktree'}")
    if status == "ok":
        if (p.returncode != 0) != bool(ibs) or p.returncode not in (0, 1):
            ctx.property_failure(dict(c.json, cli=True), {"exit code": p.returncode, "find_breaking_changes": ibs[:5], "stderr": p.stderr[-400:]})
        if bool(ibs) and len(reported) != len(ibs):
            ctx.tie_failure("correspondence", "CLI printed a different number of breakages than find_breaking_changes",
                            {"stderr_lines": len(reported), "api": len(ibs), "stderr": p.stderr[-300:]}, dict(c.json, cli=True))
    else:
        ctx.property_failure(dict(c.json, cli=True), {"find_breaking_changes did not complete": status})


DATACLASS_MODULES = [
    "from dataclasses import dataclass\n\n\n@dataclass\nclass Config:\n    host: str\n    port: int = 80\n\n\n@dataclass\nclass _Hidden:\n    x: int = 0\n",
    "import dataclasses\n\n\n@dataclasses.dataclass\nclass Point:\n    x: int\n    y: int = 0\n\n\n@dataclasses.dataclass\nclass Point3(Point):\n    z: int = 0\n\n\ndef origin() -> Point: pass\n",
]


def make_history(ctx, stream, force_v2=False, compat_only=False):
    """Three versions of one package: v0 -> v1 by the stream's edit script, v1 -> v2 by one or two further edits (or none)."""
    rng = ctx.rng
    c = make_case(ctx, stream)
    v2 = copy.deepcopy(c.new_spec)
    names = []
    if force_v2 or rng.random() < 0.75:
        for _ in range(rng.randint(1, 2) + (2 if force_v2 else 0)):
            name = rng.choice(COMPAT if compat_only else ["override", "override"] + INCOMPAT + COMPAT + COMPAT)
            m = EDITS[name](rng, v2)
            if m:
                names += [x["edit"] for x in (m if isinstance(m, list) else [m])]
    if force_v2:      # flat-layout histories: stub files next to some implementations (merged by the loader; checked through the lines collection)
        for spec in (c.old_spec, c.new_spec, v2):
            for k_, (m_, mp_) in enumerate(iter_mods(spec)):
                if k_ % 2 == 0:
                    m_.stubs = True
    versions = [files_of(c.old_spec), files_of(c.new_spec), files_of(v2)]
    # every version carries the same module of @dataclass classes without an explicit __init__ (the built-in extension synthesises it at
    # load time; `griffe check` hands the SAME extension instances to the load of the old and of the new version); in half of the
    # histories the working tree adds an optional field at the end (compatible)
    dc = rng.choice(DATACLASS_MODULES)
    for i, v in enumerate(versions):
        v["pkg/conf.py"] = dc + ("" if i < 2 or rng.random() < 0.5 else "\n\n@dataclass\nclass Extra:\n    n: int = 1\n" if "import dataclass\n" in dc
                                else "\n\n@dataclasses.dataclass\nclass Extra:\n    n: int = 1\n")
    return {"stream": stream, "versions": versions, "edits": [[m["edit"] for m in c.metas], names]}


def load_git_sources(ctx, k, h, repo, prefix, layout):
    """`griffe.load_git("pkg", ref=...)` must load the sources of the requested reference, whatever the current directory and whatever
    the working tree holds: every module's source is compared with `git show <ref>:<path>`.  Called from the repository root (where a
    flat-layout `pkg/` is reachable under its name), from a subdirectory and from an unrelated directory."""
    import griffe
    here = os.getcwd()
    spots = [(repo, ".", "repository root"), (repo / "docs", "..", "subdirectory"), (ctx.scratch, str(repo), "elsewhere")]
    try:
        for ref in ("v0", "v1"):
            for cwd, rp, label in spots:
                os.chdir(cwd)
                ctx.count("load_git_runs")
                case = {"stream": h["stream"], "old": h["versions"][int(ref[1])], "new": h["versions"][2], "edits": h["edits"], "overrides": [],
                        "load_git": {"ref": ref, "cwd": label, "layout": layout}, "working_tree": h["versions"][2]}
                try:
                    tree = with_alarm(60, lambda: griffe.load_git("pkg", ref=ref, repo=rp, search_paths=[prefix or "."], resolve_aliases=True,
                                                                  resolve_external=None))
                except Exception as e:  # noqa: BLE001
                    ctx.property_failure(case, {"load_git raised": repr(e)[:300]})
                    continue
                bad = []
                for f in h["versions"][int(ref[1])]:
                    stem = f.rsplit(".", 1)[0]
                    mpath = stem.replace("/", ".")
                    mpath = mpath[:-9] if mpath.endswith(".__init__") else mpath
                    if not mpath.startswith("pkg"):
                        continue
                    want = git(repo, "show", f"{ref}:{prefix}{f}").stdout
                    try:
                        if f.endswith(".pyi"):
                            # a stub next to its implementation is merged into the .py module (no loaded object has it as filepath):
                            # what was read for it is in the lines collection, keyed by the file's path inside the temporary worktree
                            hits = [ls for k_, ls in tree.lines_collection.items() if str(k_).replace(os.sep, "/").endswith("/" + prefix + f)]
                            got = "\n".join(hits[0]) if len(hits) == 1 else f"<{len(hits)} entries in the lines collection>"
                        else:
                            got = tree.modules_collection.get_member(mpath).source
                    except Exception as e:  # noqa: BLE001
                        got = f"<{type(e).__name__}>"
                    if got.rstrip("\n") != want.rstrip("\n"):
                        bad.append([f, got[:200], want[:200]])
                ctx.observe("load_git", f"{label} {layout} {'same' if not bad else 'DIFFERENT'}")
                if bad:
                    ctx.property_failure(case, {"load_git did not load the sources of the requested reference (file, loaded, git show)": bad[:3]})
    finally:
        os.chdir(here)


def cli_history(ctx, k, h):
    """`griffe check` end to end on a small git history: v0 and v1 committed and tagged, v2 in the working tree; compared pairs
    (v0, v1) with -a/-b, (v1, v2) and (v0, v2) against the working tree, one of them addressed by commit hash.  Exit code and
    number of printed breakages vs find_breaking_changes on the loaded versions, and vs the exit code of the elaborated model."""
    repo = ctx.scratch / f"hist{k}"
    vs = h["versions"]
    # layouts: flat (pkg/ at the repository root, checked by name from the root, no -s), src (src/pkg, -s src), flat with `-s .`
    layout = ["flat", "src", "flat-s"][k % 3]
    prefix = "src/" if layout == "src" else ""
    sargs = {"flat": [], "src": ["-s", "src"], "flat-s": ["-s", "."]}[layout]

    def put(files):
        for top in {f.split("/")[0] for f in files} | {"pkg", "_pkg"}:
            if (repo / prefix / top).exists():
                shutil.rmtree(repo / prefix / top)
        for f, text in files.items():
            fp = repo / prefix / f
            fp.parent.mkdir(parents=True, exist_ok=True)
            fp.write_text(text)
    repo.mkdir(parents=True, exist_ok=True)
    (repo / "docs").mkdir(exist_ok=True)
    (repo / "docs" / "index.md").write_text("docs\n")
    hashes = []
    for i in (0, 1):
        put(vs[i])
        if i == 0:
            git(repo, "init", "-q")
        git(repo, "add", "-A")
        r = git(repo, "commit", "-q", "--allow-empty", "-m", f"v{i}")
        if r.returncode != 0:
            ctx.tie_failure("harness", "git commit failed", r.stderr[-300:])
            return
        git(repo, "tag", f"v{i}")
        hashes.append(git(repo, "rev-parse", "HEAD").stdout.strip())
    put(vs[2])
    load_git_sources(ctx, k, h, repo, prefix, layout)
    env = dict(os.environ, PYTHONPATH=os.environ.get("GRIFFE_REPO", "/repo") + "/src", PYTHONHASHSEED="0", NO_COLOR="1")
    env.pop("FORCE_COLOR", None)
    loaded = []
    for i in range(3):
        write_tree(ctx.scratch / f"histload{k}" / str(i), vs[i])
        loaded.append(load_pkg(ctx.scratch / f"histload{k}" / str(i)))
    runs = [(0, 1, ["-a", "v0", "-b", "v1"]), (1, 2, ["-a", hashes[1] if k % 2 else "v1"]), (0, 2, ["-a", "v0"])]
    q = []
    for a, b, args in runs:
        I, pn = Interner(), {}
        q.append(["ediff", RawAbstraction(loaded[a], I, pn).store(), RawAbstraction(loaded[b], I, pn).store(),
                  RawAbstraction(loaded[a], I, pn).root, RawAbstraction(loaded[b], I, pn).root])
    mres = ctx.model(q)
    for (a, b, args), er in zip(runs, mres):
        p = subprocess.run([sys.executable, "-m", "griffe", "check", "pkg", *args, *sargs], cwd=repo, capture_output=True, text=True,
                           timeout=120, env=env)
        status, ibs = impl_diff(loaded[a], loaded[b])
        case = {"stream": h["stream"], "old": vs[a], "new": vs[b], "edits": h["edits"], "overrides": [], "cli": True, "args": args + sargs,
                "layout": layout, "cwd": "repository root", "working_tree": vs[2]}
        ctx.count("cli_runs")
        ctx.count("cli_history_runs")
        reported = [l for l in p.stderr.split("\n") if l.strip() and ": " in l and not l.startswith(("Traceback", " ", "\t"))]
        ctx.observe("cli_history", f"v{a}->v{b} rc={p.returncode} api={'nonempty' if ibs else 'empty'}/{status} {'facade' if h['stream'].startswith('facade') else 'single'} {layout}")
        if status != "ok":
            ctx.property_failure(case, {"find_breaking_changes did not complete": status})
            continue
        if (p.returncode != 0) != bool(ibs) or p.returncode not in (0, 1):
            ctx.property_failure(case, {"exit code": p.returncode, "find_breaking_changes": ibs[:5], "stderr": p.stderr[-400:]})
        if bool(ibs) and len(reported) != len(ibs):
            ctx.tie_failure("correspondence", "CLI printed a different number of breakages than find_breaking_changes",
                            {"stderr_lines": len(reported), "api": len(ibs), "stderr": p.stderr[-300:]}, case)
        rwf, exitc = er[2][0], er[2][2]
        if rwf and er[0] == "ok" and exitc != p.returncode:
            ctx.tie_failure("correspondence", "check_exit(elaborated model) vs the exit code of `griffe check`",
                            {"model": exitc, "cli": p.returncode, "stderr": p.stderr[-300:]}, case)
        if a == 0 and b == 2:
            # the same comparison through the Python entry point griffe.check(), in this process (one load_extensions() for both loads)
            import contextlib
            import io
            import griffe
            here, err = os.getcwd(), io.StringIO()
            try:
                os.chdir(repo)
                with contextlib.redirect_stderr(err), contextlib.redirect_stdout(io.StringIO()):
                    rc = with_alarm(60, lambda: griffe.check("pkg", against="v0", search_paths=sargs[1:] or ["."]))
            except Exception as e:  # noqa: BLE001
                rc = "raised " + repr(e)[:200]
            finally:
                os.chdir(here)
            ctx.count("check_api_runs")
            if rc != (1 if ibs else 0):
                ctx.property_failure(dict(case, entry="griffe.check()"), {"griffe.check() returned": rc, "find_breaking_changes": ibs[:5], "stderr": err.getvalue()[-400:]})


# --------------------------------------------------------------------------------------------------------------------
def make_case(ctx, stream):
    rng = ctx.rng
    label = stream
    facade = stream.startswith("facade:")
    if facade:
        stream = stream.split(":", 1)[1]
    old = gen_composed_pkg(rng, wildcard=(stream == "wildcard-facade")) if stream in ("composed-all", "wildcard-facade") else gen_pkg(rng, stream, facade=facade)
    new = copy.deepcopy(old)
    metas = []
    if stream == "identical" or stream == "cyclic" and rng.random() < 0.5:
        pass
    elif stream in ("composed-all", "wildcard-facade"):
        for k in range(rng.choice([1, 1, 2])):
            m = EDITS[rng.choice(COMPOSED_EDITS)](rng, new)
            if m:
                metas += m if isinstance(m, list) else [m]
    elif stream == "class-combo":
        metas = e_class_combo(rng, new) or []
        if rng.random() < 0.3:
            m = EDITS[rng.choice(COMPAT + INCOMPAT)](rng, new)
            if m:
                metas.append(m)
    elif stream == "hierarchy":
        for k in range(rng.choice([1, 1, 2])):
            m = EDITS[rng.choice(["override", "override", "override", "override"] + INCOMPAT + COMPAT[:2])](rng, new)
            if m:
                metas += m if isinstance(m, list) else [m]
    elif stream == "incompatible-multi":
        for k in range(rng.randint(2, 3)):
            m = EDITS[rng.choice(INCOMPAT + ["class-combo"])](rng, new)
            if m:
                metas += m if isinstance(m, list) else [m]
    else:
        if stream == "compatible":
            pool, n = COMPAT, rng.randint(1, 3)
        elif stream == "incompatible":
            pool, n = INCOMPAT, 1
        elif stream == "incompatible+compatible":
            pool, n = None, rng.randint(2, 3)
        else:
            pool, n = COMPAT + INCOMPAT + NEUTRAL + NEUTRAL, rng.randint(1, 3)
        for k in range(n):
            name = rng.choice(pool) if pool else (rng.choice(INCOMPAT) if k == 0 else rng.choice(COMPAT))
            m = EDITS[name](rng, new)
            if m:
                metas += m if isinstance(m, list) else [m]
    if facade and stream not in ("compatible", "identical") and rng.random() < 0.5:
        m = e_facade_base_member(rng, new)
        if m:
            metas.append(m)
    overrides = []
    if rng.random() < 0.15:
        defs = [p for _, d, p, _, _ in iter_defs(old)]
        for p in rng.sample(defs, min(len(defs), rng.randint(1, 2))):
            overrides.append((p, rng.choice([True, False])))
    return Case(ctx, old, new, metas, label, tuple(overrides))


STREAMS = ["identical", "compatible", "compatible", "incompatible", "incompatible", "incompatible", "incompatible+compatible", "mixed", "mixed",
           "empty-all", "cyclic", "class-combo", "incompatible-multi", "facade:incompatible", "facade:compatible", "facade:mixed",
           "hierarchy", "hierarchy", "facade:hierarchy", "composed-all", "composed-all", "wildcard-facade", "wildcard-facade"]


def explore(ctx):
    from collections import Counter
    import logging
    logging.getLogger("griffe").setLevel(logging.CRITICAL)
    tally = Counter()
    regressions(ctx)
    ladder_check(ctx)
    corpus = []
    for f in sorted((Path(__file__).resolve().parents[2] / "corpus" / "C11").glob("*.json")):
        d = json.loads(f.read_text())
        corpus.append(Case.from_files(ctx, d["old"], d["new"], "corpus"))
    run_cases(ctx, corpus, tally)
    before = (tally["class_view_expectations"], tally["public_incompatible_reported"])
    run_cases(ctx, scripted_cases(ctx), tally)
    if tally["class_view_expectations"] - before[0] < 6 or tally["public_incompatible_reported"] - before[1] < 4:
        ctx.tie_failure("harness", "scripted histories no longer exercise the class-view oracle / edit expectations", dict(tally))
    n = ctx.budget(1100, 12000)
    cases = [make_case(ctx, STREAMS[k % len(STREAMS)]) for k in range(n)]
    first = None
    for i in range(0, len(cases), 60):
        rows = run_cases(ctx, cases[i:i + 60], tally)
        if first is None:
            first = rows
    for k, v in tally.items():
        ctx.count(k, v)
    # the direct checks must not be vacuous
    for key in ("compatible_scripts", "public_incompatible_reported", "private_only_scripts", "unresolvable_survived", "cyclic_survived",
                "edit_expectations_in_multi_edit_scripts", "class_view_expectations_overridden_inherited", "frontier_members_checked", "frontier_wildcard_members_checked"):
        if not tally[key]:
            ctx.tie_failure("harness", f"degenerate generation: no case exercised `{key}`", dict(tally))
    # CLI exit code
    # (half of the runs on the facade layout pkg -> _pkg with breakages inside re-exported objects; both working-tree and -b modes)
    nhist = ctx.budget(3, 14)
    for k in range(nhist):
        # flat-layout histories (k % 3 == 0) always have an incompatible v0 -> v1 script and a working tree that differs from both tags
        stream = ["facade:incompatible", "hierarchy", "facade:hierarchy", "incompatible", "mixed", "facade:compatible", "incompatible-multi", "cyclic",
                  "identical"][k % 9]
        # src-layout histories (k % 3 == 1) hold compatible edits only: all three comparisons must be silent
        if k % 3 == 1:
            stream = ["compatible", "facade:compatible", "identical"][(k // 3) % 3]
        cli_history(ctx, k, make_history(ctx, stream, force_v2=(k % 3 == 0), compat_only=(k % 3 == 1)))
    ncli = ctx.budget(4, 24)
    ok = [c for c in cases if not c.overrides and getattr(c, "result", ("", []))[0] == "ok"]
    broken = lambda c: bool(c.result[1])
    fac_bad = [c for c in ok if c.stream.startswith("facade") and broken(c)]
    fac_good = [c for c in ok if c.stream == "facade:compatible" and not broken(c)]
    one_bad = [c for c in ok if c.stream in ("incompatible", "mixed", "class-combo") and broken(c)]
    one_good = [c for c in ok if c.stream in ("identical", "compatible") and not broken(c)]
    if not fac_bad:
        ctx.tie_failure("harness", "degenerate generation: no facade-layout case with a reported breakage for the CLI check", None)
    q = max(1, ncli // 8)
    pick = fac_bad[:3 * q] + fac_good[:q] + one_bad[:3 * q] + one_good[:q]
    if ctx.quick:
        pick = fac_bad[:2] + one_bad[:1] + one_good[:1]
    for k, c in enumerate(pick[:ncli]):
        cli_case(ctx, k, c)
    if not ctx.quick and first:
        ctx.cross_check_extraction([model_case(ao, an) for _, _, _, ao, an, _ in first[:25]], n=25)


def search(ctx):
    """Implementation vs authority only (no model): identical / compatible scripts must be silent, single public incompatible edits reported,
    reported objects publicly reachable."""
    import logging
    from collections import Counter
    logging.getLogger("griffe").setLevel(logging.CRITICAL)
    tally = Counter()
    for k in range(3000):
        if ctx.elapsed() > 900 or ctx.prop_failures:
            return
        c = make_case(ctx, STREAMS[k % len(STREAMS)])
        try:
            c.load(k)
        except Exception:  # noqa: BLE001
            continue
        status, ibs = impl_diff(c.old, c.new)
        I, pn = Interner(), {}
        ao, an = Abstraction(c.old, I, pn), Abstraction(c.new, I, pn)
        evaluate_nomodel(ctx, c, status, ibs, ao, an, tally)


def evaluate_nomodel(ctx, c, status, ibs, ao, an, tally):
    evaluate(ctx, c, status, ibs, status, ibs, 1, int(status != "ok" or bool(ibs)), ao, an, [], tally)


def replay(ctx, data):
    case = data.get("failing_input") or {}
    if "old" not in case:
        case = next((t["case"] for t in data.get("broken_ties", []) if isinstance(t.get("case"), dict) and "old" in t["case"]), {})
    if "old" not in case:
        print("replay names no input:", sorted(set(data.get("no_longer_checks") or [])))
        return 0
    ctx.scratch.mkdir(parents=True, exist_ok=True)
    d = ctx.scratch / "replay"
    write_tree(d / "old", case["old"])
    write_tree(d / "new", case["new"])
    old, new = load_pkg(d / "old"), load_pkg(d / "new")
    for path, val in case.get("overrides", []):
        for t in (old, new):
            try:
                t.modules_collection.get_member(path).public = val
            except Exception:  # noqa: BLE001
                pass
    print("edits:", case.get("edits"))
    for side in ("old", "new"):
        for p, s in case[side].items():
            print(f"--- {side}/{p}\n{s}", end="")
    print("find_breaking_changes:", impl_diff(old, new))
    if ctx.driver is not None:
        I, pn = Interner(), {}
        ao, an = Abstraction(old, I, pn), Abstraction(new, I, pn)
        r = ctx.model([model_case(ao, an)])[0]
        print("model:", decode_model(r, ao, an, {v: k for k, v in pn.items()})[:3])
    shutil.rmtree(ctx.scratch, ignore_errors=True)
    return 0
