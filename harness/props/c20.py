"""C20 — Loading from Git leaves repository and filesystem untouched on every path.

(C) model load_git / check (Model/C20_git.v)   vs  griffe.load_git / _griffe.cli.check on generated repositories, with a
    fault injected on the git calls as seen from _griffe.git, on loader stages and on extension hooks
(O) model of git (wt_add / wt_remove / wt_prune / branch_D ...) vs real git on random step sequences
direct evaluation: repository state before == after (HEAD, branches, tags, index, status, stash, worktree list),
    no griffe-worktree-* directory left, returned objects usable after cleanup, exit codes of `python -m griffe check`
"""
from __future__ import annotations

import ast
import contextlib
import hashlib
import io
import json
import logging
import os
import random
import shutil
import signal
import subprocess
import sys
import tempfile
import textwrap
from pathlib import Path

ID = "C20"
LEVEL_TEXT = ("Theorems for every repository state, reference, package content, sequence of loader stages / extension hooks and every "
              "placement of faults on the git calls (fail or raise, before or after taking effect): load_git restores the repository "
              "EXACTLY WHEN the placement is benign (iff), no temp dir / checkout is left and HEAD/index/status/tags are untouched for "
              "every placement whatsoever, check() and arbitrary histories of operations restore likewise, exit code 0 only after a "
              "comparison without breaking change; the checkout name is a non-empty single path component; Breakage._location strips the worktree prefix; "
              "returned objects read their lines from the collection only. Model tied to the code by fault-injected differential runs on "
              "generated repositories and to git by an oracle correspondence on random git step sequences.")
LEVEL_NOTE = ("Modelled, not verified: git itself (worktree add/remove/prune, branch -D: tied to real git 2.39 by (O)), the file system, "
              "TemporaryDirectory, the loader (abstracted to a sequence of stages that may write into the checkout or raise); wt_add is "
              "modelled for an unoccupied path only (real git creates the branch before failing on an occupied one). Excluded by "
              "hypothesis (no implementation can restore): a cleanup call itself fails or is interrupted. Known finding carried as a "
              "hypothesis: F2 (`worktree add` takes effect then reports failure). Repaired and now regression cases: --force, F3 (global "
              "`worktree prune`), F4 (reference normalising to the empty string). Non-ASCII references are outside the normalize model "
              "(checked directly against the spec only). All 16 theorems are closed under the global context.")
MODEL = ("Model.C20_git", "run_C20")
COQ_TARGETS = ["Proofs/C20_git.vo"]
RULE = ("seeded repositories (5-8 commits; package present / absent / top-level syntax error / broken submodule; lightweight and annotated "
        "tags; branches with slashes; HEAD on main, on a slash branch or detached; dirty main worktree with untracked, modified, staged "
        "files and a stash; foreign worktrees healthy / locked-stale); per repository: every reference of a pool (tags, slash branches, "
        "HEAD, @, HEAD~1, full and abbreviated sha, unknown, ambiguous, existing griffe-<ref> branch) without fault; every single-fault "
        "placement (4 git calls x fail/raise x before/after, mkdtemp) with clean and dirty body; every loader stage / hook index x "
        "{Exception, KeyboardInterrupt, write a file}; random multi-fault schedules; check() with faults on both loads, latest-tag "
        "default and working-tree side; `python -m griffe check` end to end; random git step sequences for the oracle. "
        "non-trivial = a fault, an event, a non-package content or a non-plain reference; distinct by canonical case value")
TRUSTED = ["abstraction: harness reads `git for-each-ref / worktree list --porcelain / status / stash list / ls-files -s` and the TMPDIR "
           "listing into the model's repo record (commits -> indices, directories -> path ids)",
           "fault injector: a proxy object bound to the name `subprocess` inside _griffe.git, wrappers on GriffeLoader._post_load / "
           "resolve_aliases and a catch-all Extension",
           "git 2.39.5 as the authority for the git model"]
ASSUMPTIONS = ["a git call either takes effect completely or not at all (no torn writes); faults are: non-zero exit or exception, before or after the effect",
               "mkdtemp returns a name that is fresh with respect to existing temp dirs, checkout dirs and worktree registrations",
               "every checked-out branch exists (wf) — what git itself maintains",
               "TemporaryDirectory cleanup itself does not fail"]

PKG = "c20pkg"
ABSENT_PKG = "c20absentpkg"
GIT_ID = ["-c", "user.name=t", "-c", "user.email=t@t"]
_real_run = subprocess.run


class Injected(Exception):
    pass


class HarnessTimeout(Exception):
    pass


# --------------------------------------------------------------------------------------------- environment

class Env:
    """Scratch layout and process environment for one run; everything is restored on exit."""

    def __init__(self, ctx):
        self.root = Path(ctx.scratch) / "c20"
        self.tmp = self.root / "tmp"
        self.saved_env = {}
        self.cwd = None

    def __enter__(self):
        self.root.mkdir(parents=True, exist_ok=True)
        self.tmp.mkdir(exist_ok=True)
        self.cwd = os.getcwd()
        for k, v in {"TMPDIR": str(self.tmp), "GIT_CEILING_DIRECTORIES": str(self.root), "GIT_CONFIG_GLOBAL": "/dev/null",
                     "GIT_CONFIG_NOSYSTEM": "1", "GIT_TERMINAL_PROMPT": "0", "GIT_ADVICE": "0"}.items():
            self.saved_env[k] = os.environ.get(k)
            os.environ[k] = v
        self.saved_tempdir = tempfile.tempdir
        tempfile.tempdir = None
        assert tempfile.gettempdir() == str(self.tmp), tempfile.gettempdir()
        self.log_disable = logging.root.manager.disable
        logging.disable(logging.CRITICAL)
        return self

    def __exit__(self, *exc):
        os.chdir(self.cwd)
        for k, v in self.saved_env.items():
            if v is None:
                os.environ.pop(k, None)
            else:
                os.environ[k] = v
        tempfile.tempdir = self.saved_tempdir
        logging.disable(self.log_disable)
        return False

    def tmp_listing(self):
        return sorted(os.listdir(self.tmp))


def git(cwd, *args, check=True, env=None):
    p = _real_run(["git", *GIT_ID, "-C", str(cwd), *args], capture_output=True, text=True, env=env)
    if check and p.returncode != 0:
        raise RuntimeError(f"git {' '.join(args)} failed in {cwd}: {p.stderr.strip()[:300]}")
    return p


@contextlib.contextmanager
def watchdog(seconds):
    def handler(signum, frame):
        raise HarnessTimeout(f"implementation did not return within {seconds}s")
    old = signal.signal(signal.SIGALRM, handler)
    signal.alarm(seconds)
    try:
        yield
    finally:
        signal.alarm(0)
        signal.signal(signal.SIGALRM, old)


# --------------------------------------------------------------------------------------------- repository generation

PARAMS = ["a", "b", "c", "d"]


def render_init(k, api):
    out = [f'"""version {k}"""', ""]
    for name in sorted(api):
        out += [f"def {name}({', '.join(api[name])}):", f'    """Doc of {name} at {k}."""', f"    return ({', '.join(api[name])},)", ""]
    return "\n".join(out) + "\n"


def breaking_api(old, new):
    """By construction of the generated family: a function is gone or its parameter list differs."""
    return any(f not in new or new[f] != old[f] for f in old)


def breaking_commits(old, new):
    """... or the submodule is gone (a submodule that no longer parses is not loaded, hence reported as removed)."""
    return breaking_api(old["api"], new["api"]) or (not old["sub_broken"] and new["sub_broken"])


def mutate_api(rng, api, counter):
    api = {k: list(v) for k, v in api.items()}
    op = rng.choice(["add_func", "add_func", "remove_func", "remove_param", "add_param", "none"])
    if op == "add_func" or not api:
        counter[0] += 1
        api[f"f{counter[0]}"] = rng.sample(PARAMS, rng.randint(1, 3))
        return api, "add_func"
    name = rng.choice(sorted(api))
    if op == "remove_func" and len(api) > 1:
        del api[name]
    elif op == "remove_param" and len(api[name]) > 1:
        api[name].pop(rng.randrange(len(api[name])))
    elif op == "add_param":
        free = [p for p in PARAMS if p not in api[name]]
        if free:
            api[name].append(rng.choice(free))
        else:
            op = "none"
    else:
        op = "none"
    return api, op


class Repo:
    """A generated repository plus everything the abstraction needs to know about it."""

    def __init__(self, seed, idx, env, profile=None):
        self.seed, self.idx = seed, idx
        self.env = env
        self.rng = random.Random(f"c20-{seed}-{idx}")
        self.name = f"repo{idx}"
        self.path = env.root / self.name
        self.pristine = env.root / f"{self.name}.pristine"
        self.foreign_root = env.root / f"{self.name}.foreign"
        self.profile = profile or {}
        self.commits = []          # dicts: sha, kind, api, sub_broken, init_text
        self.tags = {}             # name -> commit idx
        self.base_branches = {}    # name -> commit idx
        self.pathids = {}          # directory path (str) -> path id
        self.next_pid = 10
        self.generate()

    # -- generation
    def spec(self):
        return {"seed": self.seed, "idx": self.idx, "profile": self.profile}

    def generate(self):
        rng = self.rng
        for d in (self.path, self.pristine, self.foreign_root):
            shutil.rmtree(d, ignore_errors=True)
        self.path.mkdir(parents=True)
        self.layout = self.profile.get("layout", rng.choice(["src", "."]))
        pkgdir = self.path / self.layout / PKG if self.layout != "." else self.path / PKG
        git(self.path, "init", "-q", "-b", "main", ".")
        n = rng.randint(5, 8)
        kinds = ["package"] * n
        kinds[0] = "absent"
        bad = rng.randrange(1, n - 2)
        kinds[bad] = "syntax-error"
        if n > 6 and rng.random() < 0.5:
            j = rng.randrange(1, n - 2)
            if j != bad:
                kinds[j] = "absent"
        kinds[-1] = "package"
        if kinds.count("package") < 3:
            kinds[-2] = "package"
        counter = [1]
        api = {"f0": ["a", "b"], "f1": ["a"]}
        for k in range(n):
            kind = kinds[k]
            (self.path / "README").write_text(f"commit {k}\n")
            sub_broken = False
            init_text = None
            if kind == "absent":
                shutil.rmtree(pkgdir, ignore_errors=True)
            else:
                pkgdir.mkdir(parents=True, exist_ok=True)
                if kind == "syntax-error":
                    init_text = f'"""version {k}"""\ndef broken(:\n'
                else:
                    api, _ = mutate_api(rng, api, counter)
                    init_text = render_init(k, api)
                    sub_broken = rng.random() < 0.2
                (pkgdir / "__init__.py").write_text(init_text)
                (pkgdir / "sub.py").write_text("def helper(:\n" if sub_broken else f'"""sub {k}"""\n\ndef helper(x):\n    return x\n')
            date = f"2020-01-{k + 1:02d}T00:00:00 +0000"
            env = dict(os.environ, GIT_AUTHOR_DATE=date, GIT_COMMITTER_DATE=date)
            git(self.path, "add", "-A", env=env)
            git(self.path, "commit", "-q", "-m", f"c{k}", env=env)
            sha = git(self.path, "rev-parse", "HEAD").stdout.strip()
            self.commits.append({"sha": sha, "kind": kind, "api": {a: list(b) for a, b in api.items()} if kind == "package" else None,
                                 "sub_broken": sub_broken, "init_text": init_text})
        # tags: at most one per commit; one annotated; the syntax error commit is always tagged
        tag_names = ["v0", "v1.0", "v1.1", "rel/2.0", "old", "1.x", "broken"]
        rng.shuffle(tag_names)
        chosen = set(rng.sample(range(n), min(n, rng.randint(3, 5)))) | {bad}
        for k in sorted(chosen):
            name = "broken" if k == bad else next(t for t in tag_names if t != "broken" and t not in self.tags)
            date = f"2020-02-{k + 1:02d}T00:00:00 +0000"
            env = dict(os.environ, GIT_COMMITTER_DATE=date)
            if rng.random() < 0.25:
                git(self.path, "tag", "-a", "-m", "annotated", name, self.commits[k]["sha"], env=env)
            else:
                git(self.path, "tag", name, self.commits[k]["sha"])
            self.tags[name] = k
        # branches
        self.base_branches["main"] = n - 1
        for name in rng.sample(["feat/x", "release/1.x", "dev", "fix/a-b/c"], rng.randint(2, 3)):
            k = rng.randrange(n)
            git(self.path, "branch", name, self.commits[k]["sha"])
            self.base_branches[name] = k
        if self.profile.get("ambiguous"):
            tname = next(t for t in self.tags if "/" not in t)
            k = (self.tags[tname] + 1) % n
            git(self.path, "branch", tname, self.commits[k]["sha"])
            self.base_branches[tname] = k
            self.ambiguous = tname
        else:
            self.ambiguous = None
        if self.profile.get("existing_tmp_branch"):
            # the user happens to own a branch called griffe-<normref of some tag>
            tname = next(t for t in sorted(self.tags) if t != self.ambiguous)
            self.existing_for = tname
            bname = "griffe-" + py_checkout_name(tname)
            git(self.path, "branch", bname, self.commits[0]["sha"])
            self.base_branches[bname] = 0
        else:
            self.existing_for = None
        # dirty main worktree + stash
        head_mode = self.profile.get("head", rng.choice(["main", "main", "branch", "detached"]))
        if head_mode == "branch":
            b = next(x for x in sorted(self.base_branches) if "/" in x)
            git(self.path, "checkout", "-q", b)
        elif head_mode == "detached":
            git(self.path, "checkout", "-q", "--detach", self.commits[rng.randrange(1, n)]["sha"])
        self.head_mode = head_mode
        if self.profile.get("dirty", rng.random() < 0.7):
            (self.path / "README").write_text("stashed change\n")
            git(self.path, "stash", "-q")
            (self.path / "README").write_text("modified, unstaged\n")
            (self.path / "notes.txt").write_text("untracked\n")
            (self.path / "staged.txt").write_text("staged\n")
            git(self.path, "add", "staged.txt")
        # foreign worktrees
        self.foreign = []
        fw = self.profile.get("foreign", rng.choice([[], ["healthy"], ["healthy", "locked-stale"]]))
        for j, kind in enumerate(fw):
            d = self.foreign_root / f"wt{j}"
            d.parent.mkdir(parents=True, exist_ok=True)
            bname = f"user/wt{j}"
            git(self.path, "worktree", "add", "-q", "-b", bname, str(d), self.commits[rng.randrange(n)]["sha"])
            self.base_branches[bname] = None
            if kind == "locked-stale":
                git(self.path, "worktree", "lock", str(d))
                shutil.rmtree(d)
            elif kind == "stale":
                shutil.rmtree(d)
            self.foreign.append((str(d), kind))
            self.pathids[str(d)] = 4 + j
        self.head_sha = git(self.path, "rev-parse", "HEAD").stdout.strip()
        self.head_idx = self.commit_idx(self.head_sha)
        self.work = self.commits[self.head_idx]
        self.sha_idx = {c["sha"]: i for i, c in enumerate(self.commits)}
        listed = git(self.path, "tag", "-l", "--sort=-creatordate").stdout.split("\n")
        self.latest_tag = listed[0] if listed and listed[0] else None
        shutil.copytree(self.path, self.pristine, symlinks=True)

    def commit_idx(self, sha):
        for i, c in enumerate(self.commits):
            if c["sha"] == sha:
                return i
        raise KeyError(sha)

    def restore(self):
        """Put the repository back to its generated state (after a run that was expected to leave residue)."""
        shutil.rmtree(self.path)
        shutil.copytree(self.pristine, self.path, symlinks=True)
        for name in os.listdir(self.env.tmp):
            shutil.rmtree(self.env.tmp / name, ignore_errors=True)

    # -- references
    def loadable(self, ref):
        """Commit index `git worktree add -b griffe-<normref> <dir> ref` checks out, or None when it must refuse."""
        if ref is None or ref == self.ambiguous or ("griffe-" + py_checkout_name(ref)) in self.base_branches:
            return None
        names = self.names()
        if ref in names:
            return names[ref]
        return self.base_branches.get(ref)

    def ref_pool(self):
        """(ref, expected commit idx or None when `worktree add` must refuse it)."""
        pool = []
        for t in self.tags:
            pool.append((t, self.loadable(t)))
        for b, k in self.base_branches.items():
            if k is not None and b != self.ambiguous and not b.startswith("griffe-"):
                pool.append((b, self.loadable(b)))
        pool.append(("HEAD", self.head_idx))
        pool.append(("@", self.head_idx))
        if self.head_idx > 0:
            pool.append(("HEAD~1", self.head_idx - 1))
            pool.append(("@~1", self.head_idx - 1))
        k = self.rng.randrange(len(self.commits))
        pool.append((self.commits[k]["sha"], k))
        pool.append((self.commits[k]["sha"][:8], k))
        pool.append(("nope", None))
        pool.append(("v9/none", None))
        return pool

    def names(self):
        """Immutable resolvable names for the model: tags, HEAD forms, shas (pre-resolved by the abstraction)."""
        out = dict(self.tags)
        out["HEAD"] = out["@"] = self.head_idx
        if self.head_idx > 0:
            out["HEAD~1"] = out["@~1"] = self.head_idx - 1
        for i, c in enumerate(self.commits):
            out[c["sha"]] = i
            out[c["sha"][:8]] = i
        return out

    def tree(self, package):
        if package != PKG:
            return [[i, "absent"] for i in range(len(self.commits))]
        return [[i, c["kind"]] for i, c in enumerate(self.commits)]

    def breaking_table(self):
        out = []
        for i, a in enumerate(self.commits):
            for j, b in enumerate(self.commits):
                if a["kind"] == "package" and b["kind"] == "package" and breaking_commits(a, b):
                    out.append([i, j])
        return out

    def pid_for(self, path):
        """Path id of a worktree directory: foreign ones are fixed, temp checkouts are keyed by their temp dir name."""
        path = str(path)
        if path in self.pathids:
            return self.pathids[path]
        rel = os.path.relpath(path, self.env.tmp)
        top = rel.split(os.sep)[0]
        key = "tmp:" + top
        if key not in self.pathids:
            self.pathids[key] = self.next_pid
            self.next_pid += 1
        return self.pathids[key]

    def fresh_pid(self):
        self.next_pid += 1
        return self.next_pid - 1

    def bind_tmp(self, name, pid):
        self.pathids["tmp:" + name] = pid


# --------------------------------------------------------------------------------------------- observation and abstraction

_status_intern = {}


def observe(repo: Repo):
    """Everything the property talks about, as raw text (direct evaluation) — no interpretation."""
    p = repo.path
    obs = {
        "head": git(p, "rev-parse", "HEAD", check=False).stdout.strip(),
        "symbolic_head": git(p, "symbolic-ref", "-q", "HEAD", check=False).stdout.strip(),
        "refs": git(p, "for-each-ref", "--format=%(refname) %(objectname)", "refs/heads", "refs/tags", "refs/stash").stdout,
        "status": git(p, "status", "--porcelain", "--untracked-files=all").stdout,
        "stash": git(p, "stash", "list").stdout,
        "index": hashlib.sha1(git(p, "ls-files", "-s").stdout.encode()).hexdigest(),
        "worktrees": git(p, "worktree", "list", "--porcelain").stdout,
        "tmp": repo.env.tmp_listing(),
    }
    return obs


MAIN_KEYS = ("head", "symbolic_head", "status", "stash", "index")


def parse_worktrees(text):
    out = []
    for block in text.strip().split("\n\n"):
        d = {"locked": False, "prunable": False, "branch": None}
        for line in block.split("\n"):
            if line.startswith("worktree "):
                d["path"] = line[9:]
            elif line.startswith("branch "):
                d["branch"] = line[7:].replace("refs/heads/", "", 1)
            elif line.startswith("locked"):
                d["locked"] = True
            elif line.startswith("prunable"):
                d["prunable"] = True
        if "path" in d:
            out.append(d)
    return out


def dir_dirty(path):
    p = _real_run(["git", "-C", path, "status", "--porcelain", "--untracked-files=all", "--ignored"], capture_output=True, text=True)
    return p.returncode == 0 and bool(p.stdout.strip())


def abstract(repo: Repo, obs):
    """raw observation -> the model's repo record (python value of the s-expression), canonically ordered."""
    branches, tagsnow = [], {}
    for line in obs["refs"].splitlines():
        ref, sha = line.split(" ")
        if ref.startswith("refs/heads/"):
            branches.append([ref[11:], repo.sha_idx.get(sha, 999)])
    sym = obs["symbolic_head"]
    hb = [sym.replace("refs/heads/", "", 1)] if sym else []
    key = obs["status"] + "\0" + obs["stash"] + "\0" + obs["index"]
    st = _status_intern.setdefault(key, len(_status_intern))
    wts = parse_worktrees(obs["worktrees"])[1:]
    regs, dirs = [], []
    seen = set()
    for w in wts:
        pid = repo.pid_for(w["path"])
        regs.append([pid, [w["branch"]] if w["branch"] else [], w["locked"]])
        if os.path.isdir(w["path"]):
            dirs.append([pid, dir_dirty(w["path"])])
            seen.add(pid)
    for path, _kind in repo.foreign:
        pid = repo.pathids[path]
        if pid not in seen and os.path.isdir(path):
            dirs.append([pid, False])
    tmps = []
    for name in obs["tmp"]:
        if name.startswith("griffe-worktree-"):
            pid = repo.pid_for(repo.env.tmp / name)
            tmps.append(pid)
            # an unregistered checkout that still exists inside the temp dir
            if pid not in seen and any((repo.env.tmp / name).iterdir()):
                dirs.append([pid, False])
    names = sorted([k, v] for k, v in repo.names().items())
    return [hb, repo.sha_idx.get(obs["head"], 999), st, sorted(branches), names, sorted(regs, key=lambda r: r[0]), sorted(dirs), sorted(tmps)]


FIELDS = ["head_branch", "head_commit", "main_status", "branches", "names", "regs", "dirs", "tmps"]


def state_diff(model, impl):
    return {FIELDS[i]: {"model": a, "impl": b} for i, (a, b) in enumerate(zip(model, impl)) if a != b}


def canon_state(s):
    hb, hc, st, br, nm, rg, ds, tm = s
    return [hb, hc, st, sorted(br), sorted(nm), sorted(rg, key=lambda r: r[0]), sorted(ds), sorted(tm)]


# --------------------------------------------------------------------------------------------- python mirrors (used by search() without the model)

def py_normalize(ref: str) -> str:
    """Independent mirror of the model's normalize for ASCII input."""
    out = []
    prev_dash = True
    for ch in ref:
        if ch.isascii() and (ch.isalnum() or ch == "_"):
            out.append(ch)
            prev_dash = False
        elif not prev_dash:
            out.append("-")
            prev_dash = True
    if out and out[-1] == "-":
        out.pop()
    return "".join(out)


def py_checkout_name(ref: str) -> str:
    """Mirror of the model's checkout_name: `_normalize(ref) or "ref"`."""
    return py_normalize(ref) or "ref"


def py_resolve(state, ref):
    names, branches = dict(map(tuple, state[4])), dict(map(tuple, state[3]))
    if (ref in names) == (ref in branches):
        return None
    return names.get(ref, branches.get(ref))


def py_classify(state, ref, F, isrepo):
    """Mirror of Model.classify."""
    f_assert, f_mk, f_add, f_rm, f_bd = F
    reaches_add = f_assert == ["ok"] and isrepo and not f_mk
    add_possible = py_resolve(state, ref) is not None and ("griffe-" + py_checkout_name(ref)) not in dict(map(tuple, state[3]))
    if reaches_add and add_possible and f_add[0] in ("fail-after", "raise-after"):
        return "gap-add-after"
    reaches_cleanup = reaches_add and add_possible and f_add == ["ok"]
    benign = f_rm[0] in ("ok", "fail-after") and f_bd[0] in ("ok", "fail-after", "raise-after")
    if reaches_cleanup and not benign:
        return "excluded-cleanup-fault"
    return "benign"


# --------------------------------------------------------------------------------------------- fault injection

OK = ["ok"]
NO_FAULTS = [OK, False, OK, OK, OK]
STEP_INDEX = {"assert": 0, "add": 2, "remove": 3, "branchD": 4}


def classify_git_args(args):
    a = [str(x) for x in args]
    if a and a[0] == "git":
        a = a[1:]
    while len(a) >= 2 and a[0] in ("-C", "-c"):
        a = a[2:]
    if a[:2] == ["rev-parse", "--is-inside-work-tree"]:
        return "assert"
    if a[:2] == ["rev-parse", "--show-toplevel"]:
        return "root"
    if a[:2] == ["worktree", "add"]:
        return "add"
    if a[:2] == ["worktree", "remove"]:
        return "remove"
    if a[:2] == ["branch", "-D"]:
        return "branchD"
    if a[:2] == ["tag", "-l"]:
        return "tag"
    return "unknown:" + " ".join(a[:3])


def make_exc(name):
    return KeyboardInterrupt("injected") if name == "KeyboardInterrupt" else Injected("injected")


class Control:
    """Shared by the git proxy, the extension and the stage wrappers during one implementation run."""

    def __init__(self, env, git_plans, event_plans, mkdtemp_plans):
        self.env = env
        self.git_plans = git_plans          # {phase: {step: fault}}, phase 1 = first load_git, 2 = second
        self.event_plans = event_plans      # {phase: {point index: action}}
        self.mkdtemp_plans = mkdtemp_plans  # {phase: bool}
        self.phase = 0
        self.in_git_load = False
        self.points = {}                    # phase -> list of point names hit
        self.calls = []                     # (phase, step, fault applied)
        self.locations = {}                 # phase -> checkout location
        self.tmp_names = {}                 # phase -> temp dir name
        self.remove_forced = {}
        self.dirty_at_remove = {}
        self.unknown = []
        self.wrote = 0

    # hooks and loader stages
    def point(self, name):
        phase = self.phase if self.in_git_load else self.phase + 1   # hooks outside a git load belong to the working-tree load
        lst = self.points.setdefault(phase, [])
        idx = len(lst)
        lst.append(name)
        action = self.event_plans.get(phase, {}).get(idx)
        if not action or action[0] == "step":
            return
        if action[0] == "write":
            loc = self.locations.get(phase)
            if loc and os.path.isdir(loc):
                Path(loc, f"c20_written_{idx}.txt").write_text("left by an extension\n")
                self.wrote += 1
            return
        raise make_exc(action[1])

    # git calls
    def git_call(self, kind, args, kwargs, real):
        step = classify_git_args(args)
        if step == "assert":
            self.phase += 1
            self.in_git_load = True
        if step.startswith("unknown"):
            self.unknown.append(step)
        if step == "add":
            loc = next((str(a) for a in args if str(a).startswith(str(self.env.tmp))), None)
            self.locations[self.phase] = loc
            if loc:
                self.tmp_names[self.phase] = os.path.relpath(loc, self.env.tmp).split(os.sep)[0]
        if step == "remove":
            self.remove_forced[self.phase] = "--force" in [str(a) for a in args] or "-f" in [str(a) for a in args]
            loc = self.locations.get(self.phase)
            self.dirty_at_remove[self.phase] = bool(loc and os.path.isdir(loc) and dir_dirty(loc))
        if kind == "run" and "stderr" not in kwargs and not kwargs.get("capture_output"):
            kwargs = dict(kwargs, stderr=subprocess.DEVNULL)    # keep git's complaints about injected faults off the console
        if step in ("tag", "root"):
            fault = self.git_plans.get(0, {}).get(step, OK)
        else:
            fault = self.git_plans.get(self.phase, {}).get(step, OK)
        self.calls.append((self.phase, step, fault[0]))
        try:
            return self._apply(kind, fault, args, kwargs, real)
        finally:
            if step == "branchD":
                self.in_git_load = False

    def _apply(self, kind, fault, args, kwargs, real):
        f = fault[0]
        if f == "ok":
            return real(args, **kwargs)
        if f == "raise-before":
            raise make_exc(fault[1])
        if f == "fail-before":
            return self._failed(kind, args, kwargs, None)
        kw = dict(kwargs)
        if kind == "run":
            kw["check"] = False
        try:
            res = real(args, **kw)
        except subprocess.CalledProcessError:
            res = None
        if f == "raise-after":
            raise make_exc(fault[1])
        return self._failed(kind, args, kwargs, res)

    @staticmethod
    def _failed(kind, args, kwargs, res):
        if kind == "check_output" or kwargs.get("check"):
            raise subprocess.CalledProcessError(1, args, output=b"", stderr=b"injected failure")
        captured = kwargs.get("capture_output") or kwargs.get("stdout") == subprocess.PIPE
        text = kwargs.get("text") or kwargs.get("universal_newlines")
        empty = "" if text else b""
        err = "injected failure" if text else b"injected failure"
        return subprocess.CompletedProcess(args, 1, stdout=empty if captured else None,
                                           stderr=err if kwargs.get("capture_output") else None)


class SubprocessProxy:
    """Stands in for the module `subprocess` inside _griffe.git only."""

    def __init__(self, ctrl):
        self._ctrl = ctrl

    def __getattr__(self, name):
        return getattr(subprocess, name)

    def run(self, args, **kwargs):
        return self._ctrl.git_call("run", args, kwargs, subprocess.run)

    def check_output(self, args, **kwargs):
        return self._ctrl.git_call("check_output", args, kwargs, subprocess.check_output)

    def check_call(self, args, **kwargs):
        return self._ctrl.git_call("run", args, dict(kwargs, check=True), subprocess.run)


@contextlib.contextmanager
def injected(ctrl):
    import _griffe.git as gg
    import _griffe.loader as gl
    if not hasattr(gg, "subprocess") or not hasattr(gg, "TemporaryDirectory"):
        raise RuntimeError("_griffe.git no longer exposes `subprocess` / `TemporaryDirectory`: the injection seam is gone")
    saved = (gg.subprocess, gg.TemporaryDirectory, gl.GriffeLoader._post_load, gl.GriffeLoader.resolve_aliases)
    real_td = gg.TemporaryDirectory

    def temporary_directory(*a, **k):
        if ctrl.mkdtemp_plans.get(ctrl.phase):
            raise OSError(28, "injected: no space left on device")
        return real_td(*a, **k)

    def post_load(self, *a, **k):
        ctrl.point("stage:post_load")
        return saved[2](self, *a, **k)

    def resolve_aliases(self, *a, **k):
        ctrl.point("stage:resolve_aliases")
        return saved[3](self, *a, **k)

    gg.subprocess = SubprocessProxy(ctrl)
    gg.TemporaryDirectory = temporary_directory
    gl.GriffeLoader._post_load = post_load
    gl.GriffeLoader.resolve_aliases = resolve_aliases
    try:
        yield
    finally:
        gg.subprocess, gg.TemporaryDirectory, gl.GriffeLoader._post_load, gl.GriffeLoader.resolve_aliases = saved


def make_extension(ctrl):
    import griffe

    class C20Extension(griffe.Extension):
        def __getattribute__(self, name):
            if name.startswith("on_"):
                return lambda *a, **k: ctrl.point("hook:" + name)
            return object.__getattribute__(self, name)

    return C20Extension()


def exc_name(e):
    import _griffe.exceptions as gx
    if isinstance(e, HarnessTimeout):
        return "HarnessTimeout"
    if isinstance(e, Injected):
        return "Injected"
    if isinstance(e, KeyboardInterrupt):
        return "KeyboardInterrupt"
    if isinstance(e, subprocess.CalledProcessError):
        return "CalledProcessError"
    if isinstance(e, gx.LoadingError):
        return "LoadingError"
    if isinstance(e, ImportError):
        return "ImportError"
    if isinstance(e, RuntimeError):
        return "RuntimeError"
    if isinstance(e, OSError):
        return "OSError"
    return type(e).__name__


def version_of(obj):
    doc = obj.docstring.value if obj.docstring else ""
    if doc.startswith("version "):
        return int(doc.split()[1])
    return 998


# --------------------------------------------------------------------------------------------- one load_git case

def events_for_model(plan, n_points):
    """Planned actions by point index -> the model's event list (points without a plan are plain steps)."""
    size = n_points if n_points else max([0] + [i + 1 for i in plan])
    return [plan.get(i, ["step"]) for i in range(size)]


def check_returned_object(repo, obj, ref_idx, env):
    """The returned object must be usable after the checkout is gone. Returns a list of problems."""
    problems = []
    c = repo.commits[ref_idx]
    text = c["init_text"]
    fp = obj.filepath
    if not str(fp).startswith(str(env.tmp)):
        problems.append(f"filepath {fp} not under the temporary directory")
    if os.path.exists(fp):
        problems.append(f"checkout file {fp} still exists after return")
    if str(obj.relative_package_filepath) != f"{PKG}/__init__.py":
        problems.append(f"relative_package_filepath={obj.relative_package_filepath}")
    lines = text.split("\n")
    if lines and lines[-1] == "":
        lines = lines[:-1]
    if list(obj.lines) != lines:
        problems.append({"module lines": list(obj.lines)[:5], "expected": lines[:5]})
    if obj.source != textwrap.dedent("\n".join(lines)):
        problems.append("module source differs from the file at that reference")
    tree = ast.parse(text)
    for node in tree.body:
        if isinstance(node, ast.FunctionDef):
            if node.name not in obj.members:
                problems.append(f"function {node.name} missing")
                continue
            f = obj.members[node.name]
            want = textwrap.dedent("\n".join(lines[node.lineno - 1:node.end_lineno]))
            if f.source != want:
                problems.append({"function": node.name, "source": f.source, "expected": want})
            if f.lineno != node.lineno or f.endlineno != node.end_lineno:
                problems.append({"function": node.name, "lineno": [f.lineno, f.endlineno], "expected": [node.lineno, node.end_lineno]})
            if [p.name for p in f.parameters] != c["api"][node.name]:
                problems.append({"function": node.name, "parameters": [p.name for p in f.parameters]})
    if ("sub" in obj.members) == c["sub_broken"]:
        problems.append(f"submodule presence {('sub' in obj.members)} with sub_broken={c['sub_broken']}")
    elif not c["sub_broken"] and "helper" in obj.members["sub"].members:
        if obj.members["sub"].members["helper"].source != "def helper(x):\n    return x":
            problems.append("submodule function source differs")
    return problems


def run_load_case(env, repo: Repo, case):
    """Runs griffe.load_git once under the case's fault plan. Returns the record used by all comparisons."""
    import griffe
    ref, package = case["ref"], case["package"]
    F = case["faults"]
    git_plan = {step: F[i] for step, i in STEP_INDEX.items()}
    ctrl = Control(env, {1: git_plan}, {1: {int(k): v for k, v in case["events"].items()}}, {1: F[1]})
    before = observe(repo)
    before_abs = abstract(repo, before)
    os.chdir(repo.path)
    repo_arg = "." if case.get("repo_arg") == "." else str(repo.path)
    ext = make_extension(ctrl)
    obj = None
    inspect_mode = bool(case.get("inspect"))
    with injected(ctrl):
        try:
            if inspect_mode:
                sys.dont_write_bytecode = False     # what a user without PYTHONDONTWRITEBYTECODE gets: __pycache__ inside the checkout
            with watchdog(60):
                obj = griffe.load_git(package, ref=ref, repo=repo_arg, search_paths=[repo.layout],
                                      extensions=griffe.load_extensions(ext), resolve_aliases=True, force_inspection=inspect_mode)
            outcome = ["returned", case["expect"] if inspect_mode else version_of(obj)]
        except BaseException as e:  # noqa: BLE001 - KeyboardInterrupt is part of the fault alphabet
            outcome = ["raised", exc_name(e)]
        finally:
            if inspect_mode:
                sys.dont_write_bytecode = True
                for name in [m for m in sys.modules if m == PKG or m.startswith(PKG + ".")]:
                    del sys.modules[name]
    os.chdir(env.cwd)
    pid = repo.fresh_pid()
    if ctrl.tmp_names.get(1):
        repo.bind_tmp(ctrl.tmp_names[1], pid)
    after = observe(repo)
    after_abs = abstract(repo, after)
    rec = {"case": case, "before": before, "after": after, "before_abs": before_abs, "after_abs": after_abs, "outcome": outcome,
           "pid": pid, "ctrl": ctrl, "obj_problems": [], "n_points": len(ctrl.points.get(1, []))}
    if obj is not None and package == PKG and outcome[1] < len(repo.commits) and not inspect_mode:
        try:
            rec["obj_problems"] = check_returned_object(repo, obj, outcome[1], env)
        except Exception as e:  # noqa: BLE001
            rec["obj_problems"] = [f"{type(e).__name__}: {e}"]
    return rec


def model_input_load(repo, rec, isrepo=True):
    case = rec["case"]
    plan = {int(k): v for k, v in case["events"].items()}
    n = case.get("n_points", 0)
    return ["load_git", True, isrepo, rec["before_abs"], case["faults"], rec["pid"], case["ref"], repo.tree(case["package"]),
            events_for_model(plan, n)]


def diff_obs(a, b):
    return {k: {"before": a[k], "after": b[k]} for k in a if a[k] != b[k]}


def judge_load(ctx, repo, rec, mout, label):
    """Correspondence (model vs implementation) and direct evaluation of the property for one load_git run."""
    case = rec["case"]
    cj = dict(case, repo=repo.spec(), kind="load_git")
    ctrl = rec["ctrl"]
    nontrivial = case["faults"] != NO_FAULTS or bool(case["events"]) or case["package"] != PKG or any(ch in case["ref"] for ch in "/@~") \
        or rec["outcome"][0] == "raised"
    ctx.case(cj, nontrivial)
    ctx.observe("load.stream", label)
    ctx.observe("load.outcome", ":".join(map(str, rec["outcome"])) if rec["outcome"][0] == "raised" else "returned")
    for step, i in STEP_INDEX.items():
        if case["faults"][i] != OK:
            ctx.observe("load.fault", f"{step}:{case['faults'][i][0]}")
    if case["faults"][1]:
        ctx.observe("load.fault", "mkdtemp")
    for a in case["events"].values():
        ctx.observe("load.event", a[0] + (":" + a[1] if len(a) > 1 else ""))
    if ctrl.unknown:
        ctx.tie_failure("correspondence", "git call not in the modelled protocol", ctrl.unknown[:5], cj)
    late = [p for ph, pts in ctrl.points.items() if ph != 1 for p in pts]
    if late:
        ctx.tie_failure("correspondence", "loader stage outside the temporary worktree",
                        {"what": "the model runs every loader stage inside `with tmp_worktree`; these ran after the cleanup", "stages": late[:5]}, cj)
    if ctrl.locations.get(1):
        relloc = os.path.relpath(ctrl.locations[1], repo.env.tmp).split(os.sep)
        if len(relloc) != 2 or not relloc[0].startswith("griffe-worktree-") or relloc[1] != py_checkout_name(case["ref"]):
            ctx.tie_failure("correspondence", "checkout location vs checkout_parts / checkout_name (model)",
                            {"impl": relloc, "expected": ["griffe-worktree-*", py_checkout_name(case["ref"])]}, cj)
    if case.get("inspect") and rec["outcome"][0] == "returned" and not ctrl.dirty_at_remove.get(1):
        ctx.tie_failure("harness", "inspection scenario", "forced inspection left no __pycache__ in the checkout: scenario not exercised", cj)
    wrote_planned = any(a[0] == "write" for i, a in case["events"].items() if int(i) < rec["n_points"]) and rec["outcome"][0] == "returned"
    if wrote_planned and 1 in ctrl.dirty_at_remove and not ctrl.dirty_at_remove[1]:
        ctx.tie_failure("harness", "write event", "a planned write did not dirty the checkout", cj)
    changed = diff_obs(rec["before"], rec["after"])
    # ---- direct evaluation (no model needed except for the classification, mirrored in python)
    pycls = py_classify(rec["before_abs"], case["ref"], case["faults"], True)
    cls = pycls
    if mout is not None:
        mstate, mres, mcls, mwf, mfresh = mout
        cls = mcls
        ctx.observe("load.class", mcls)
        if mcls != pycls:
            ctx.tie_failure("harness", "classify mirror", {"model": mcls, "python": pycls}, cj)
        if not mwf or not mfresh:
            ctx.tie_failure("harness", "generated state violates wf/fresh", {"wf": mwf, "fresh": mfresh}, cj)
        if canon_state(mstate) != rec["after_abs"]:
            ctx.tie_failure("correspondence", "load_git final state (model) vs repository after griffe.load_git",
                            {"diff": state_diff(canon_state(mstate), rec["after_abs"]), "outcome": rec["outcome"]}, cj)
        if mres != rec["outcome"]:
            ctx.tie_failure("correspondence", "load_git outcome (model) vs griffe.load_git", {"model": mres, "impl": rec["outcome"]}, cj)
    if rec["after"]["tmp"] != rec["before"]["tmp"]:
        ctx.property_failure(cj, {"what": "temporary directory left behind", "tmp": rec["after"]["tmp"]})
    main_changed = {k: v for k, v in changed.items() if k in MAIN_KEYS}
    if main_changed:
        ctx.property_failure(cj, {"what": "main worktree touched", "diff": main_changed})
    if changed and not main_changed and rec["after"]["tmp"] == rec["before"]["tmp"]:
        if cls == "benign":
            ctx.property_failure(cj, {"what": "repository not restored", "diff": changed, "outcome": rec["outcome"]})
        elif cls == "gap-add-after":
            ctx.property_failure(cj, {"what": "repository not restored", "diff": changed}, finding="C20-F2")
        else:
            ctx.count("excluded_cleanup_fault_residue")
    if rec["obj_problems"]:
        ctx.property_failure(cj, {"what": "returned object not self-contained after cleanup", "problems": rec["obj_problems"][:4]})
    if rec["outcome"] == ["raised", "HarnessTimeout"]:
        ctx.tie_failure("harness", "watchdog", "load_git did not return", cj)
    ctx.count("load_cases")
    return bool(changed)


def run_load_batch(ctx, env, repo, cases, label):
    recs = []
    for case in cases:
        rec = run_load_case(env, repo, case)
        recs.append(rec)
        if diff_obs(rec["before"], rec["after"]):
            repo.restore()
    try:
        mouts = ctx.model([model_input_load(repo, r) for r in recs])
    except Exception as e:  # model unavailable: direct evaluation only
        if type(e).__name__ != "ModelUnavailable":
            raise
        mouts = [None] * len(recs)
    for rec, mo in zip(recs, mouts):
        if mo == ["bad-input"]:
            ctx.tie_failure("harness", "model rejected the input", model_input_load(repo, rec)[4:7], rec["case"])
            mo = None
        judge_load(ctx, repo, rec, mo, label)
    return recs


def load_case(ref, package=PKG, faults=None, events=None, n_points=0, **kw):
    return dict({"ref": ref, "package": package, "faults": faults or [list(x) if isinstance(x, list) else x for x in NO_FAULTS],
                 "events": {str(k): v for k, v in (events or {}).items()}, "n_points": n_points}, **kw)


FAULT_KINDS = [["fail-before"], ["fail-after"], ["raise-before", "Injected"], ["raise-before", "KeyboardInterrupt"],
               ["raise-after", "Injected"], ["raise-after", "KeyboardInterrupt"]]


def fault_kinds(i, full):
    if full:
        return FAULT_KINDS
    e1, e2 = ("Injected", "KeyboardInterrupt") if i % 2 else ("KeyboardInterrupt", "Injected")
    return [["fail-before"], ["fail-after"], ["raise-before", e1], ["raise-after", e2]]


def single_fault_cases(ref, n_points, rng, full):
    """Every single-fault placement on the git calls, with a clean and with a dirty body."""
    out = []
    for step, i in STEP_INDEX.items():
        for fk in fault_kinds(i, full):
            for dirty in (False, True):
                F = [OK, False, OK, OK, OK]
                F[i] = fk
                ev = {rng.randrange(n_points): ["write"]} if dirty and n_points else {}
                out.append(load_case(ref, faults=F, events=ev, n_points=n_points))
    out.append(load_case(ref, faults=[OK, True, OK, OK, OK], n_points=n_points))
    return out


def event_cases(ref, n_points, indices):
    out = []
    for i in indices:
        for action in (["raise", "Injected"], ["raise", "KeyboardInterrupt"], ["write"]):
            out.append(load_case(ref, events={i: action}, n_points=n_points))
        if i + 1 < n_points:
            out.append(load_case(ref, events={i: ["write"], i + 1: ["raise", "Injected"]}, n_points=n_points))
    return out


def random_fault(rng, p=0.25):
    if rng.random() > p:
        return OK
    return list(rng.choice(FAULT_KINDS))


def random_load_case(rng, repo, n_points_by_commit):
    ref, k = rng.choice(repo.ref_pool())
    package = PKG if rng.random() < 0.9 else ABSENT_PKG
    F = [random_fault(rng, 0.1), rng.random() < 0.05, random_fault(rng, 0.2), random_fault(rng), random_fault(rng)]
    n = n_points_by_commit.get(k, 0) if package == PKG else 0
    ev = {}
    for _ in range(rng.choice([0, 0, 1, 1, 2, 3])):
        idx = rng.randrange(max(n, 4))
        ev[idx] = rng.choice([["write"], ["write"], ["raise", "Injected"], ["raise", "KeyboardInterrupt"], ["step"]])
    return load_case(ref, package=package, faults=F, events=ev, n_points=n, repo_arg=rng.choice(["abs", "."]))


# --------------------------------------------------------------------------------------------- check()

def run_check_case(env, repo: Repo, case):
    import _griffe.cli as cli
    F1, F2 = case["F1"], case["F2"]
    plans = {0: {"tag": case["f_tag"], "root": case["f_root"]},
             1: {step: F1[i] for step, i in STEP_INDEX.items()}, 2: {step: F2[i] for step, i in STEP_INDEX.items()}}
    ctrl = Control(env, plans, {1: {int(k): v for k, v in case["events1"].items()}, 2: {int(k): v for k, v in case["events2"].items()}},
                   {1: F1[1], 2: F2[1]})
    before = observe(repo)
    before_abs = abstract(repo, before)
    os.chdir(repo.path)
    ext = make_extension(ctrl)
    err = io.StringIO()
    saved_streams = (sys.stdout, sys.stderr)
    with injected(ctrl):
        try:
            sys.stderr = err
            with watchdog(90):
                rc = cli.check(PKG, case["against"], base_ref=case["base"], search_paths=[repo.layout], extensions=[ext], color=False)
            outcome = ["returned", rc]
        except BaseException as e:  # noqa: BLE001
            outcome = ["raised", exc_name(e)]
        finally:
            try:
                import colorama.initialise as ci
                ci.deinit()
                ci.orig_stdout = ci.orig_stderr = ci.wrapped_stdout = ci.wrapped_stderr = None   # do not let the next init() resurrect this run's streams
            except Exception:  # noqa: BLE001
                pass
            sys.stdout, sys.stderr = saved_streams
    os.chdir(env.cwd)
    p1, p2 = repo.fresh_pid(), repo.fresh_pid()
    if ctrl.tmp_names.get(1):
        repo.bind_tmp(ctrl.tmp_names[1], p1)
    if ctrl.tmp_names.get(2):
        repo.bind_tmp(ctrl.tmp_names[2], p2)
    after = observe(repo)
    return {"case": case, "before": before, "after": after, "before_abs": before_abs, "after_abs": abstract(repo, after),
            "outcome": outcome, "p1": p1, "p2": p2, "ctrl": ctrl, "stderr": err.getvalue()}


def model_input_check(repo, rec):
    c = rec["case"]
    ev1 = events_for_model({int(k): v for k, v in c["events1"].items()}, c.get("n1", 0))
    ev2 = events_for_model({int(k): v for k, v in c["events2"].items()}, c.get("n2", 0))
    args = [[c["against"]] if c["against"] else [], [repo.latest_tag] if repo.latest_tag else [], [c["base"]] if c["base"] else [],
            repo.work["kind"], repo.head_idx, c["f_tag"], c["f_root"], False, c["F1"], c["F2"], rec["p1"], rec["p2"], ev1, ev2]
    return ["check", True, True, rec["before_abs"], args, repo.tree(PKG), repo.breaking_table()]


def expected_locations(repo):
    """Repository-relative paths of the files of the generated package."""
    pre = "" if repo.layout == "." else repo.layout + "/"
    return [f"{pre}{PKG}/__init__.py", f"{pre}{PKG}/sub.py"]


def judge_check(ctx, repo, rec, mout):
    c = rec["case"]
    cj = dict(c, repo=repo.spec(), kind="check")
    faulted = c["F1"] != NO_FAULTS or c["F2"] != NO_FAULTS or c["f_tag"] != OK or c["f_root"] != OK or c["events1"] or c["events2"]
    ctx.case(cj, True)
    ctx.observe("check.outcome", ":".join(map(str, rec["outcome"])))
    ctx.observe("check.sides", ("latest-tag" if not c["against"] else "against") + "/" + ("base-ref" if c["base"] else "working-tree"))
    if rec["ctrl"].unknown:
        ctx.tie_failure("correspondence", "git call not in the modelled protocol", rec["ctrl"].unknown[:5], cj)
    changed = diff_obs(rec["before"], rec["after"])
    against = c["against"] or repo.latest_tag
    cls1 = py_classify(rec["before_abs"], against, c["F1"], True) if against else "benign"
    cls2 = py_classify(rec["before_abs"], c["base"], c["F2"], True) if c["base"] else "benign"
    if mout is not None:
        mstate, mres = mout
        if canon_state(mstate) != rec["after_abs"]:
            ctx.tie_failure("correspondence", "check final state (model) vs repository after _griffe.cli.check",
                            {"diff": state_diff(canon_state(mstate), rec["after_abs"]), "outcome": rec["outcome"]}, cj)
        if mres != rec["outcome"]:
            ctx.tie_failure("correspondence", "check outcome (model) vs _griffe.cli.check", {"model": mres, "impl": rec["outcome"], "stderr": rec["stderr"][-300:]}, cj)
    if rec["after"]["tmp"] != rec["before"]["tmp"]:
        ctx.property_failure(cj, {"what": "temporary directory left behind by check", "tmp": rec["after"]["tmp"]})
    elif changed:
        if any(k in MAIN_KEYS for k in changed):
            ctx.property_failure(cj, {"what": "main worktree touched by check", "diff": changed})
        elif cls1 == "benign" and cls2 == "benign":
            ctx.property_failure(cj, {"what": "repository not restored by check", "diff": changed, "outcome": rec["outcome"]})
        elif "gap-add-after" in (cls1, cls2) and "excluded-cleanup-fault" not in (cls1, cls2):
            ctx.property_failure(cj, {"what": "repository not restored by check", "diff": changed}, finding="C20-F2")
    # exit code against the construction oracle, when nothing was injected
    if not faulted and against:
        ko = repo.loadable(against)
        kn = repo.head_idx if not c["base"] else repo.loadable(c["base"])
        if ko is not None and kn is not None and repo.commits[ko]["kind"] == "package" and repo.commits[kn]["kind"] == "package":
            want = 1 if breaking_commits(repo.commits[ko], repo.commits[kn]) else 0
            ctx.observe("check.oracle_exit", want)
            if rec["outcome"] != ["returned", want]:
                ctx.property_failure(cj, {"what": "exit code", "griffe": rec["outcome"], "expected": want, "stderr": rec["stderr"][-400:]})
            # reported locations are repository-relative
            exp = expected_locations(repo)
            for line in rec["stderr"].splitlines():
                if ": " in line and line.split(":")[0].endswith(".py"):
                    loc = line.split(":")[0]
                    ctx.count("check_locations_seen")
                    if loc not in exp:
                        ctx.property_failure(cj, {"what": "breakage location", "griffe": loc, "expected": exp})
    ctx.count("check_cases")


def random_check_case(rng, repo, n_points_by_commit, faulty):
    pool = [(r, k) for r, k in repo.ref_pool()]
    good = [(r, k) for r, k in pool if k is not None and repo.commits[k]["kind"] == "package"]
    pick = (lambda: rng.choice(good)) if rng.random() < 0.75 and good else (lambda: rng.choice(pool))
    against, ka = pick() if rng.random() < 0.75 else (None, repo.loadable(repo.latest_tag))
    base, kb = pick() if rng.random() < 0.75 else (None, repo.head_idx)
    fz = lambda p: random_fault(rng, p) if faulty else OK  # noqa: E731
    F1 = [fz(0.05), faulty and rng.random() < 0.03, fz(0.12), fz(0.15), fz(0.15)]
    F2 = [fz(0.05), faulty and rng.random() < 0.03, fz(0.12), fz(0.15), fz(0.15)]
    n1, n2 = n_points_by_commit.get(ka, 0), n_points_by_commit.get(kb, 0)
    ev1, ev2 = {}, {}
    if faulty:
        for ev, n, allow_write in ((ev1, n1, True), (ev2, n2, base is not None)):
            for _ in range(rng.choice([0, 0, 0, 1, 2])):
                acts = [["raise", "Injected"], ["raise", "KeyboardInterrupt"]] + ([["write"], ["write"]] if allow_write else [])
                ev[str(rng.randrange(max(n, 3)))] = rng.choice(acts)
    return {"against": against, "base": base, "F1": F1, "F2": F2, "f_tag": fz(0.2) if against is None else OK, "f_root": fz(0.05),
            "events1": ev1, "events2": ev2, "n1": n1, "n2": n2}


def run_check_batch(ctx, env, repo, cases):
    recs = []
    for case in cases:
        rec = run_check_case(env, repo, case)
        recs.append(rec)
        if diff_obs(rec["before"], rec["after"]):
            repo.restore()
    try:
        mouts = ctx.model([model_input_check(repo, r) for r in recs])
    except Exception as e:
        if type(e).__name__ != "ModelUnavailable":
            raise
        mouts = [None] * len(recs)
    for rec, mo in zip(recs, mouts):
        if mo == ["bad-input"]:
            ctx.tie_failure("harness", "model rejected the check input", None, rec["case"])
            mo = None
        judge_check(ctx, repo, rec, mo)


# --------------------------------------------------------------------------------------------- end-to-end CLI

def run_cli(ctx, env, repo, against, base):
    before = observe(repo)
    cmd = [sys.executable, "-m", "griffe", "check", PKG, "-s", repo.layout]
    if against:
        cmd += ["-a", against]
    if base:
        cmd += ["-b", base]
    p = _real_run(cmd, cwd=repo.path, capture_output=True, text=True, timeout=120, env=dict(os.environ, NO_COLOR="1"))
    after = observe(repo)
    cj = {"kind": "cli", "repo": repo.spec(), "against": against, "base": base}
    ctx.case(cj, True)
    ko = repo.loadable(against or repo.latest_tag)
    kn = repo.head_idx if not base else repo.loadable(base)
    changed = diff_obs(before, after)
    if changed:
        ctx.property_failure(cj, {"what": "python -m griffe check changed the repository or left a temp dir", "diff": changed})
    if ko is None or kn is None or repo.commits[ko]["kind"] != "package" or repo.commits[kn]["kind"] != "package":
        ctx.observe("cli.exit", f"error-path:{p.returncode}")
        if p.returncode == 0:
            ctx.property_failure(cj, {"what": "exit code 0 although a side could not be loaded", "stderr": p.stderr[-300:]})
    else:
        want = 1 if breaking_commits(repo.commits[ko], repo.commits[kn]) else 0
        ctx.observe("cli.exit", f"{want}")
        if p.returncode != want:
            ctx.property_failure(cj, {"what": "exit code of python -m griffe check", "got": p.returncode, "expected": want, "stderr": p.stderr[-400:]})
        locs = [l.split(":")[0] for l in p.stderr.splitlines() if ": " in l and l.split(":")[0].endswith(".py")]
        if want and (not locs or any(l not in expected_locations(repo) for l in locs)):
            ctx.property_failure(cj, {"what": "breakage location not repository-relative", "stderr": p.stderr[-400:]})
    ctx.count("cli_cases")


# --------------------------------------------------------------------------------------------- (O) the model of git vs git

def oracle_sequences(ctx, env, repo, n_seq, length):
    rng = ctx.rng
    work = env.root / "oracle"
    tmp = env.root / "oracle-tmp"
    for s in range(n_seq):
        shutil.rmtree(work, ignore_errors=True)
        shutil.rmtree(tmp, ignore_errors=True)
        shutil.copytree(repo.pristine, work, symlinks=True)
        tmp.mkdir()
        o = OracleRepo(repo, work, tmp)
        refs = [r for r, _ in repo.ref_pool()]
        bnames = ["griffe-a", "griffe-b", "user/wt0", "main"] + [b for b in repo.base_branches if "/" in b][:1]
        steps, real = [], []
        s0 = o.abstract()
        for _ in range(length):
            p = rng.randint(1, 3)
            k = rng.random()
            st = None
            live = [q for q in (1, 2, 3) if o.loc(q).exists()]
            if live and rng.random() < 0.7 and k >= 0.42:
                p = rng.choice(live)                 # aim remove / touch / lock / rmtree at a worktree that exists
            if k < 0.12:
                if not o.tdir(p).exists():          # mkdtemp never returns a name in use
                    st = ["mkdtemp", p]
            elif k < 0.42:
                # wt_add is modelled for an unoccupied path only, the only way tmp_worktree calls it (a fresh mkdtemp
                # directory); on an occupied path real git creates the branch first and then fails
                if not o.loc(p).exists() and not o.registered(p):
                    st = ["add", rng.choice(bnames[:3]), p, rng.choice(refs)]
            elif k < 0.58:
                st = ["remove", rng.random() < 0.5, p]
            elif k < 0.68:
                st = ["prune"]
            elif k < 0.82:
                st = ["branch-D", rng.choice(bnames[:2] if rng.random() < 0.6 else bnames)]
            elif k < 0.90:
                st = ["rmtree", p]
            elif k < 0.97:
                st = ["touch", p]
            else:
                st = ["lock", p]
            if st is None:
                continue
            steps.append(st)
            ok = o.apply(st)
            real.append([ok, o.abstract()])
        try:
            mo = ctx.model([["steps", s0, steps]])[0]
        except Exception as e:
            if type(e).__name__ != "ModelUnavailable":
                raise
            return
        ctx.case({"kind": "git-steps", "repo": repo.spec(), "steps": steps}, True)
        for i, (st, r, m) in enumerate(zip(steps, real, mo)):
            ctx.observe("oracle.step", f"{st[0]}:{'ok' if r[0] else 'refused'}")
            if [bool(m[0]), canon_state(m[1])] != [r[0], r[1]]:
                ctx.tie_failure("oracle", "git model vs git", {"step": i, "cmd": st, "accepted": {"model": bool(m[0]), "git": r[0]},
                                                                "diff": state_diff(canon_state(m[1]), r[1])},
                                {"kind": "git-steps", "repo": repo.spec(), "steps": steps[:i + 1]})
                break
        ctx.count("oracle_sequences")


class OracleRepo:
    """A copy of a generated repository on which raw git steps are executed; path id p <-> <tmp>/griffe-worktree-o<p>/wt."""

    def __init__(self, repo, work, tmp):
        self.repo, self.work, self.tmp = repo, work, tmp
        self.touched = set()

    def tdir(self, p):
        return self.tmp / f"griffe-worktree-o{p}"

    def loc(self, p):
        return self.tdir(p) / "wt"

    def registered(self, p):
        out = git(self.work, "worktree", "list", "--porcelain").stdout
        return any(w["path"] == str(self.loc(p)) for w in parse_worktrees(out))

    def apply(self, st):
        k = st[0]
        if k == "mkdtemp":
            self.tdir(st[1]).mkdir(exist_ok=True)
            return True
        if k == "add":
            return git(self.work, "worktree", "add", "-b", st[1], str(self.loc(st[2])), st[3], check=False).returncode == 0
        if k == "remove":
            a = ["worktree", "remove"] + (["--force"] if st[1] else []) + [str(self.loc(st[2]))]
            return git(self.work, *a, check=False).returncode == 0
        if k == "prune":
            return git(self.work, "worktree", "prune", check=False).returncode == 0
        if k == "branch-D":
            return git(self.work, "branch", "-D", st[1], check=False).returncode == 0
        if k == "rmtree":
            shutil.rmtree(self.tdir(st[1]), ignore_errors=True)
            return True
        if k == "touch":
            if self.loc(st[1]).is_dir():
                (self.loc(st[1]) / "untracked.txt").write_text("x\n")
            return True
        if k == "lock":
            return git(self.work, "worktree", "lock", str(self.loc(st[1])), check=False).returncode == 0
        raise ValueError(k)

    def abstract(self):
        repo = self.repo
        refs = git(self.work, "for-each-ref", "--format=%(refname) %(objectname)", "refs/heads").stdout
        branches = sorted([l.split(" ")[0][11:], repo.sha_idx.get(l.split(" ")[1], 999)] for l in refs.splitlines())
        sym = git(self.work, "symbolic-ref", "-q", "HEAD", check=False).stdout.strip()
        hb = [sym.replace("refs/heads/", "", 1)] if sym else []
        regs, dirs, tmps = [], [], []
        pid_of = {str(self.loc(p)): p for p in (1, 2, 3)}
        for path, _ in repo.foreign:
            pid_of[path] = repo.pathids[path]
        for w in parse_worktrees(git(self.work, "worktree", "list", "--porcelain").stdout)[1:]:
            pid = pid_of.get(w["path"], 777)
            regs.append([pid, [w["branch"]] if w["branch"] else [], w["locked"]])
        for path, pid in pid_of.items():
            if os.path.isdir(path):
                dirs.append([pid, dir_dirty(path) if pid < 4 else False])
        for p in (1, 2, 3):
            if self.tdir(p).is_dir():
                tmps.append(p)
        names = sorted([k, v] for k, v in repo.names().items())
        return [hb, repo.head_idx, 0, branches, names, sorted(regs, key=lambda r: r[0]), sorted(dirs), sorted(tmps)]


# --------------------------------------------------------------------------------------------- _normalize and Breakage._location

REF_ALPHABET = "abzAZ09_-/.@~^{}: +\\"


def check_normalize(ctx, n):
    from _griffe.git import _normalize
    rng = ctx.rng
    refs = ["HEAD", "@", "@~1", "feat/x", "release/1.x", "v1.0", "a//b", "-a-", "--", "", "a b", "refs/heads/main", "fix/a-b/c", "@{-1}", "..", "a\\b"]
    refs += ["".join(rng.choice(REF_ALPHABET) for _ in range(rng.randint(0, 12))) for _ in range(n)]
    outs = ctx.model([["normalize", r] for r in refs])
    for r, m in zip(refs, ctx.model([["checkout-name", r] for r in refs])):
        if m != py_checkout_name(r) or not m or "/" in m:
            ctx.tie_failure("harness", "py_checkout_name mirror", {"model": m, "python": py_checkout_name(r)}, {"ref": r})
    for r, m in zip(refs, outs):
        impl = _normalize(r)
        ctx.case({"kind": "normalize", "ref": r}, bool(r) and impl != r)
        if m != impl:
            ctx.tie_failure("correspondence", "normalize(model) vs _griffe.git._normalize", {"model": m, "impl": impl}, {"ref": r})
        if py_normalize(r) != impl:
            ctx.tie_failure("harness", "py_normalize mirror", {"python": py_normalize(r), "impl": impl}, {"ref": r})
        ctx.count("normalize_cases")
    # outside the ASCII model: the spec alone (the checkout directory must be a single path component)
    for _ in range(n // 2):
        r = "".join(rng.choice(["é", "ü", "日", "ﬁ", "²", "/", "-", "a", " ", "　", "़", "​", "."]) for _ in range(rng.randint(1, 8)))
        v = _normalize(r)
        ctx.observe("normalize.stream", "non-ascii")
        if any(ch in v for ch in "/\\ .") or v.startswith("-") or v.endswith("-") or os.path.basename(v) != v:
            ctx.property_failure({"kind": "normalize", "ref": r}, {"what": "normalised reference is not a single safe path component", "value": v})


class _FakeObj:
    is_alias = False

    def __init__(self, rel):
        self.relative_filepath = rel


def check_location(ctx, n):
    from _griffe.diff import ObjectRemovedBreakage
    rng = ctx.rng
    comps = ["src", "pkg", "a.py", "griffe-worktree-x", "griffe", "tmp", "v1", "lib", "griffe-worktree-"]
    cases = []
    for i in range(n):
        root = ["/"] + [rng.choice(["tmp", "var", "build", "t"]) for _ in range(rng.randint(0, 3))]
        normref = rng.choice(["v1", "feat-x", "HEAD", "ref", "1", "griffe-worktree-y"])   # checkout_name is never empty
        rel = [rng.choice(comps) for _ in range(rng.randint(0, 4))]
        kind = rng.random()
        if kind < 0.6:
            parts = root + ["griffe-worktree-repo-" + normref + "-abc", normref] + rel
            is_abs = True
        elif kind < 0.8:
            parts = rel or ["x.py"]
            is_abs = False
        else:
            parts = root + rel
            is_abs = True
        cases.append((is_abs, parts, root, normref, rel, kind < 0.6))
    outs = ctx.model([["location", a, p] for a, p, *_ in cases])
    for (is_abs, parts, root, normref, rel, in_wt), m in zip(cases, outs):
        path = Path(*parts)
        impl = list(ObjectRemovedBreakage(_FakeObj(path), None, None)._location.parts)
        ctx.case({"kind": "location", "parts": parts}, in_wt)
        ctx.observe("location.kind", "worktree" if in_wt else ("relative" if not is_abs else "absolute-other"))
        if impl != m:
            ctx.tie_failure("correspondence", "location(model) vs Breakage._location", {"model": m, "impl": impl}, {"parts": parts})
        if in_wt and not any(c.startswith("griffe-worktree-") for c in root):
            if impl != rel:
                ctx.property_failure({"kind": "location", "parts": parts}, {"what": "worktree prefix not stripped", "griffe": impl, "expected": rel})
        ctx.count("location_cases")


# --------------------------------------------------------------------------------------------- facade + private sibling layout

FAC, IMPL = "c20fac", "_c20fac"
FAC_VERSIONS = [
    # (tag, parameters of func, extra exported function?)
    ("f1", ["a", "b"], False),
    ("f2", ["a"], False),          # breaking with respect to f1: parameter b removed from the re-exported func
    ("f3", ["a"], True),           # not breaking with respect to f2: a function is added
]


def facade_files(k):
    tag, params, extra = FAC_VERSIONS[k]
    names = ["Klass", "func"] + (["added"] if extra else [])
    public = f'"""Public API {tag}."""\n\nfrom {IMPL} import {", ".join(names)}\nfrom {IMPL}.util import helper\n\n__all__ = {names + ["helper"]!r}\n'
    impl = [f'"""Private implementation {tag}."""', "", "", f"def func({', '.join(params)}):", f'    """Func at {tag}."""',
            f"    total = ({', '.join(params)},)", "    return total", "", "", "class Klass:", f'    """Klass at {tag}."""', "",
            "    def method(self, x):", "        return x"]
    if extra:
        impl += ["", "", "def added(z):", "    return z"]
    util = f'"""Util {tag}."""\n\n\ndef helper(x):\n    """Helper at {tag}."""\n    return [x]\n'
    return {f"src/{FAC}/__init__.py": public, f"src/{IMPL}/__init__.py": "\n".join(impl) + "\n", f"src/{IMPL}/util.py": util}


class FacadeRepo:
    """`c20fac` re-exports its API from the private sibling `_c20fac` living in the same checkout (Griffe's own layout)."""

    def __init__(self, env):
        self.env = env
        self.path = env.root / "facade"
        shutil.rmtree(self.path, ignore_errors=True)
        self.path.mkdir(parents=True)
        git(self.path, "init", "-q", "-b", "main", ".")
        for k, (tag, _p, _e) in enumerate(FAC_VERSIONS):
            for rel, text in facade_files(k).items():
                f = self.path / rel
                f.parent.mkdir(parents=True, exist_ok=True)
                f.write_text(text)
            date = f"2021-01-{k + 1:02d}T00:00:00 +0000"
            e = dict(os.environ, GIT_AUTHOR_DATE=date, GIT_COMMITTER_DATE=date)
            git(self.path, "add", "-A", env=e)
            git(self.path, "commit", "-q", "-m", tag, env=e)
            git(self.path, "tag", tag)
        git(self.path, "branch", "feat/fac", "f2")

    def spec(self):
        return {"facade": True}

    def version_of_ref(self, ref):
        return {"f1": 0, "f2": 1, "f3": 2, "feat/fac": 1, "HEAD": 2, "main": 2}[ref]


def facade_member_problems(repo, obj, ref, env):
    """Every public member, through its alias, must give the lines git holds for that reference — after cleanup."""
    problems = []
    k = repo.version_of_ref(ref)
    for name in obj.exports or []:
        name = str(name)
        try:
            m = obj.members[name]
            rel = f"src/{IMPL}/util.py" if name == "helper" else f"src/{IMPL}/__init__.py"
            shown = git(repo.path, "show", f"{ref}:{rel}").stdout
            if shown != facade_files(k)[rel]:
                problems.append(f"generator: git show {ref}:{rel} differs from the generated text")
            lines = shown.split("\n")
            node = next(n for n in ast.parse(shown).body if getattr(n, "name", None) == name)
            want_lines = lines[node.lineno - 1:node.end_lineno]
            if not m.is_alias:
                problems.append(f"{name}: not an alias")
            got_lines = list(m.lines)
            if got_lines != want_lines:
                problems.append({"member": name, "lines": got_lines[:3], "expected": want_lines[:3]})
            if m.source != textwrap.dedent("\n".join(want_lines)):
                problems.append({"member": name, "source": m.source[:80]})
            if (m.lineno, m.endlineno) != (node.lineno, node.end_lineno):
                problems.append({"member": name, "lineno": [m.lineno, m.endlineno], "expected": [node.lineno, node.end_lineno]})
            fp = str(m.filepath)
            if not fp.startswith(str(env.tmp)) or os.path.exists(fp):
                problems.append({"member": name, "filepath": fp, "exists": os.path.exists(fp)})
            if name == "func" and [p.name for p in m.parameters] != FAC_VERSIONS[k][1]:
                problems.append({"member": name, "parameters": [p.name for p in m.parameters]})
        except Exception as e:  # noqa: BLE001 - AliasResolutionError and friends are exactly what must not happen
            problems.append({"member": name, "raised": type(e).__name__, "message": str(e)[:160]})
    if sorted(map(str, obj.exports or [])) != sorted(["Klass", "func", "helper"] + (["added"] if FAC_VERSIONS[k][2] else [])):
        problems.append({"exports": sorted(map(str, obj.exports or []))})
    return problems


def raw_observe(path, env):
    return {"head": git(path, "rev-parse", "HEAD").stdout + git(path, "symbolic-ref", "-q", "HEAD", check=False).stdout,
            "refs": git(path, "for-each-ref", "--format=%(refname) %(objectname)").stdout,
            "status": git(path, "status", "--porcelain", "--untracked-files=all").stdout,
            "worktrees": git(path, "worktree", "list", "--porcelain").stdout, "tmp": env.tmp_listing()}


def facade_load_case(ctx, env, repo, case):
    import griffe
    cj = dict(case, repo=repo.spec(), kind="facade-load")
    ctrl = Control(env, {}, {1: {int(k): v for k, v in case.get("events", {}).items()}}, {})
    before = raw_observe(repo.path, env)
    os.chdir(repo.path)
    obj, out = None, None
    with injected(ctrl):
        try:
            with watchdog(60):
                obj = griffe.load_git(FAC, ref=case["ref"], repo=str(repo.path), search_paths=["src"], extensions=griffe.load_extensions(make_extension(ctrl)),
                                      resolve_aliases=True, resolve_external=case["resolve_external"])
            out = "returned"
        except BaseException as e:  # noqa: BLE001
            out = exc_name(e)
    os.chdir(env.cwd)
    after = raw_observe(repo.path, env)
    ctx.case(cj, True)
    ctx.observe("facade.load", f"{out}/external={case['resolve_external']}")
    if before != after:
        ctx.property_failure(cj, {"what": "repository not restored (facade layout)", "diff": diff_obs(before, after)})
        for name in os.listdir(env.tmp):
            shutil.rmtree(env.tmp / name, ignore_errors=True)
    late = [p for ph, pts in ctrl.points.items() if ph != 1 for p in pts]
    if late:
        ctx.tie_failure("correspondence", "loader stage outside the temporary worktree",
                        {"what": "the model runs every loader stage inside `with tmp_worktree`; these ran after the cleanup", "stages": late[:5]}, cj)
    want = "Injected" if any(a[0] == "raise" for a in case.get("events", {}).values()) else "returned"
    if out != want:
        ctx.property_failure(cj, {"what": "load_git outcome on the facade layout", "got": out, "expected": want})
    if obj is not None:
        probs = facade_member_problems(repo, obj, case["ref"], env)
        if probs:
            ctx.property_failure(cj, {"what": "re-exported members not usable after the checkout was removed", "problems": probs[:4]})
    ctx.count("facade_cases")


def facade_check_case(ctx, env, repo, against, base, cli_mode):
    cj = {"kind": "facade-check", "repo": repo.spec(), "against": against, "base": base, "cli": cli_mode}
    ko, kn = repo.version_of_ref(against), repo.version_of_ref(base or "HEAD")
    want = 1 if FAC_VERSIONS[ko][1] != FAC_VERSIONS[kn][1] and set(FAC_VERSIONS[ko][1]) - set(FAC_VERSIONS[kn][1]) else 0
    before = raw_observe(repo.path, env)
    if cli_mode:
        cmd = [sys.executable, "-m", "griffe", "check", FAC, "-s", "src", "-a", against] + (["-b", base] if base else [])
        p = _real_run(cmd, cwd=repo.path, capture_output=True, text=True, timeout=120, env=dict(os.environ, NO_COLOR="1"))
        rc, err = p.returncode, p.stderr
    else:
        import _griffe.cli as cli
        buf = io.StringIO()
        saved = (sys.stdout, sys.stderr)
        os.chdir(repo.path)
        try:
            sys.stderr = buf
            with watchdog(90):
                rc = cli.check(FAC, against, base_ref=base, search_paths=["src"], color=False)
        except BaseException as e:  # noqa: BLE001
            rc = "raised:" + exc_name(e)
        finally:
            try:
                import colorama.initialise as ci
                ci.deinit()
                ci.orig_stdout = ci.orig_stderr = ci.wrapped_stdout = ci.wrapped_stderr = None
            except Exception:  # noqa: BLE001
                pass
            sys.stdout, sys.stderr = saved
            os.chdir(env.cwd)
        err = buf.getvalue()
    after = raw_observe(repo.path, env)
    ctx.case(cj, True)
    ctx.observe("facade.check", f"{'cli' if cli_mode else 'api'}:{want}")
    if before != after:
        ctx.property_failure(cj, {"what": "repository not restored by check (facade layout)", "diff": diff_obs(before, after)})
    if rc != want:
        ctx.property_failure(cj, {"what": "exit code of check on a re-exported object", "got": rc, "expected": want, "stderr": err[-400:]})
    elif want:
        locs = [l.split(":")[0] for l in err.splitlines() if ": " in l and l.split(":")[0].endswith(".py")]
        if f"src/{IMPL}/__init__.py" not in locs:
            ctx.property_failure(cj, {"what": "breakage does not name the changed file", "stderr": err[-400:], "expected": f"src/{IMPL}/__init__.py"})
    ctx.count("facade_cases")


def facade_checks(ctx, env, repo=None):
    repo = repo or FacadeRepo(env)
    for ref in ["f1", "f2", "f3", "feat/fac"]:
        for ext in (None, True):
            facade_load_case(ctx, env, repo, {"ref": ref, "resolve_external": ext})
    facade_load_case(ctx, env, repo, {"ref": "f1", "resolve_external": None, "events": {"2": ["write"]}})
    facade_load_case(ctx, env, repo, {"ref": "f2", "resolve_external": True, "events": {"5": ["raise", "Injected"]}})
    for against, base in (("f1", "f2"), ("f2", "f3"), ("f1", None), ("feat/fac", "f3")):
        facade_check_case(ctx, env, repo, against, base, cli_mode=False)
    facade_check_case(ctx, env, repo, "f1", "f2", cli_mode=True)
    if not ctx.quick:
        facade_check_case(ctx, env, repo, "f2", "f3", cli_mode=True)
        facade_check_case(ctx, env, repo, "f1", None, cli_mode=True)


# --------------------------------------------------------------------------------------------- witnesses of the known findings

def witness_f2(env, repo):
    """F2: a failing post-checkout hook makes `git worktree add` exit non-zero after creating branch and worktree."""
    import griffe
    hook = repo.path / ".git" / "hooks" / "post-checkout"
    hook.parent.mkdir(exist_ok=True)
    hook.write_text("#!/bin/sh\nexit 3\n")
    hook.chmod(0o755)
    ref = next(r for r, k in repo.ref_pool() if k is not None and repo.commits[k]["kind"] == "package")
    before = observe(repo)
    try:
        griffe.load_git(PKG, ref=ref, repo=str(repo.path), search_paths=[repo.layout])
        raised = None
    except BaseException as e:  # noqa: BLE001
        raised = type(e).__name__
    after = observe(repo)
    repo.restore()
    d = diff_obs(before, after)
    return raised == "RuntimeError" and "refs" in d and "worktrees" in d and "griffe-" in d["refs"]["after"]


def witness_f3(env, repo):
    """F3: the user's own worktree whose directory is away (unlocked) loses its registration."""
    import griffe
    d = repo.foreign_root / "away"
    d.parent.mkdir(parents=True, exist_ok=True)
    git(repo.path, "worktree", "add", "-q", "-b", "user/away", str(d), repo.commits[0]["sha"])
    shutil.move(str(d), str(d) + ".moved")
    ref = next(r for r, k in repo.ref_pool() if k is not None and repo.commits[k]["kind"] == "package")
    before = observe(repo)
    try:
        griffe.load_git(PKG, ref=ref, repo=str(repo.path), search_paths=[repo.layout])
    except BaseException:  # noqa: BLE001
        pass
    after = observe(repo)
    shutil.rmtree(str(d) + ".moved", ignore_errors=True)
    repo.restore()
    df = diff_obs(before, after)
    return list(df) == ["worktrees"] and "user/away" in df["worktrees"]["before"] and "user/away" not in df["worktrees"]["after"]


def witness_f4(env, repo):
    """F4: with the reference `@` the reported location loses its first component."""
    import griffe
    from _griffe.diff import find_breaking_changes
    if repo.layout == ".":
        return None
    if repo.work["kind"] != "package":
        return None
    os.chdir(repo.path)
    try:
        at = griffe.load_git(PKG, ref="@", repo=str(repo.path), search_paths=[repo.layout])
        for k, c in enumerate(repo.commits):
            if c["kind"] != "package":
                continue
            other = griffe.load_git(PKG, ref=c["sha"], repo=str(repo.path), search_paths=[repo.layout])
            for old, new in ((at, other), (other, at)):
                locs = {str(b._location) for b in find_breaking_changes(old, new) if str(b.obj.filepath).startswith(str(at.filepath.parent))}
                if locs:
                    return not locs <= set(expected_locations(repo))
        return None
    finally:
        os.chdir(env.cwd)


# --------------------------------------------------------------------------------------------- explore / search / replay

def assert_safe(env):
    """The harness must never be able to touch /verif's own repository or /repo."""
    probe = env.root / "notrepo"
    probe.mkdir(exist_ok=True)
    p = _real_run(["git", "-C", str(probe), "rev-parse", "--is-inside-work-tree"], capture_output=True, text=True)
    if p.returncode == 0:
        raise RuntimeError("GIT_CEILING_DIRECTORIES is not effective: refusing to run git experiments inside another repository")
    return probe


def clean_points(env, repo, ref):
    """A fault-free, event-free run; returns the record (its n_points is the number of stages/hooks of that commit)."""
    return run_load_case(env, repo, load_case(ref))


def explore(ctx):
    import griffe  # noqa: F401
    with Env(ctx) as env:
        notrepo = assert_safe(env)
        quick = ctx.quick
        profiles = [{"layout": "src", "dirty": True, "foreign": ["healthy"], "head": "main"},
                    {"layout": ".", "ambiguous": True, "existing_tmp_branch": True, "head": "detached", "foreign": ["healthy", "locked-stale"]},
                    {"head": "branch"}, {}, {"layout": "src"}, {}]
        repos = [Repo(ctx.seed, i, env, profiles[i]) for i in range(ctx.budget(2, 4))]
        for repo in repos:
            ctx.observe("repo.layout", repo.layout)
            ctx.observe("repo.head", repo.head_mode)
            ctx.observe("repo.commits", len(repo.commits))
            for c in repo.commits:
                ctx.observe("repo.commit_kind", c["kind"] + ("+broken-sub" if c["sub_broken"] else ""))
            # 1. every reference of the pool, no fault; learn the number of stages per commit
            pool = repo.ref_pool()
            cases = [load_case(r, repo_arg="." if i % 3 == 0 else "abs") for i, (r, _) in enumerate(pool)]
            cases.append(load_case(pool[0][0], package=ABSENT_PKG))
            recs = run_load_batch(ctx, env, repo, cases, "refs")
            npts = {}
            for (r, k), rec in zip(pool, recs):
                if k is not None and rec["outcome"][0] == "returned":
                    npts[k] = rec["n_points"]
                    if rec["outcome"][1] != k:
                        ctx.property_failure(dict(rec["case"], repo=repo.spec()), {"what": "wrong commit loaded", "got": rec["outcome"][1], "expected": k})
            good = [(r, k) for r, k in pool if k in npts]
            if not good:
                ctx.tie_failure("harness", "generator", "no loadable reference", repo.spec())
                continue
            slash = [(r, k) for r, k in good if "/" in r] or good
            # 2. every single-fault placement
            r, k = ctx.rng.choice(slash)
            run_load_batch(ctx, env, repo, single_fault_cases(r, npts[k], ctx.rng, full=not quick), "single-fault")
            # 3. every stage / hook index
            r, k = ctx.rng.choice(good)
            idx = list(range(npts[k]))
            if quick and len(idx) > 7:
                idx = sorted(set(ctx.rng.sample(idx, 5)) | {0, npts[k] - 1, npts[k] - 2})
            run_load_batch(ctx, env, repo, event_cases(r, npts[k], idx), "events")
            # the realistic way a checkout gets dirty: dynamic analysis imports the package and CPython writes __pycache__
            r, k = ctx.rng.choice(good)
            run_load_batch(ctx, env, repo, [load_case(r, events={0: ["write"]}, inspect=True, expect=k)], "inspection-pycache")
            # events on a reference whose package is absent or broken never fire
            for r2, k2 in pool:
                if k2 is not None and repo.commits[k2]["kind"] != "package":
                    run_load_batch(ctx, env, repo, [load_case(r2, events={0: ["write"], 1: ["raise", "Injected"]}),
                                                    load_case(r2, faults=[OK, False, OK, ["fail-before"], OK])], "bad-content")
                    break
            # 4. random multi-fault schedules
            run_load_batch(ctx, env, repo, [random_load_case(ctx.rng, repo, npts) for _ in range(ctx.budget(30, 200))], "random")
            # 5. check()
            cc = [random_check_case(ctx.rng, repo, npts, faulty=False) for _ in range(ctx.budget(8, 30))]
            cc += [random_check_case(ctx.rng, repo, npts, faulty=True) for _ in range(ctx.budget(14, 80))]
            if any(py_normalize(x) == "" for x, _ in pool):       # `@`: the regression case of the repaired finding F4
                g = ctx.rng.choice(good)[0]
                cc.append({"against": g, "base": "@", "F1": NO_FAULTS, "F2": NO_FAULTS, "f_tag": OK, "f_root": OK, "events1": {}, "events2": {}, "n1": 0, "n2": 0})
            run_check_batch(ctx, env, repo, cc)
            # 6. end to end
            pairs = [(a, b) for a, ka in good for b, kb in good if repo.commits[ka]["kind"] == "package" and repo.commits[kb]["kind"] == "package"]
            for want in (True, False):
                sel = [(a, b) for a, b in pairs if breaking_commits(repo.commits[repo.loadable(a)], repo.commits[repo.loadable(b)]) == want
]
                if sel:
                    run_cli(ctx, env, repo, *ctx.rng.choice(sel))
            for _ in range(ctx.budget(2, 10)):
                a, _ka = ctx.rng.choice(good if ctx.rng.random() < 0.8 else pool)
                b, _kb = ctx.rng.choice(good if ctx.rng.random() < 0.8 else pool)
                run_cli(ctx, env, repo, a if ctx.rng.random() < 0.85 else None, b if ctx.rng.random() < 0.7 else None)
            # 7. (O)
            oracle_sequences(ctx, env, repo, ctx.budget(12, 60), ctx.budget(9, 14))
        # the user's own stale, unlocked worktree registration must survive (regression stream of the repaired finding F3)
        stale = Repo(ctx.seed, 9, env, {"foreign": ["healthy", "stale"], "head": "main"})
        spool = [(r, k) for r, k in stale.ref_pool() if k is not None and stale.commits[k]["kind"] == "package"]
        r = spool[0][0]
        scases = [load_case(r), load_case(spool[-1][0], events={3: ["write"]}),
                  load_case(r, faults=[OK, False, OK, ["fail-after"], OK]), load_case(r, faults=[OK, False, OK, OK, ["raise-after", "Injected"]]),
                  load_case(r, faults=[OK, False, OK, ["fail-before"], OK]), load_case(r, faults=[OK, False, ["fail-before"], OK, OK]),
                  load_case("nope"), load_case(r, faults=[OK, False, ["fail-after"], OK, OK])]
        run_load_batch(ctx, env, stale, scases + [random_load_case(ctx.rng, stale, {}) for _ in range(ctx.budget(4, 40))], "stale-foreign")
        run_check_batch(ctx, env, stale, [random_check_case(ctx.rng, stale, {}, faulty=False) for _ in range(ctx.budget(2, 10))])
        # a directory that is not a repository at all
        rep0 = repos[0]
        os.chdir(notrepo)
        import griffe as g
        before_tmp = env.tmp_listing()
        try:
            g.load_git(PKG, ref="HEAD", repo=str(notrepo))
            out = "returned"
        except BaseException as e:  # noqa: BLE001
            out = exc_name(e)
        os.chdir(env.cwd)
        ctx.case({"kind": "not-a-repository"}, True)
        mo = None
        try:
            mo = ctx.model([["load_git", True, False, [[], 0, 0, [], [], [], [], []], NO_FAULTS, 5, "HEAD", [], []]])[0]
        except Exception as e:
            if type(e).__name__ != "ModelUnavailable":
                raise
        if mo is not None and mo[1] != ["raised", out]:
            ctx.tie_failure("correspondence", "not a repository: outcome", {"model": mo[1], "impl": out})
        if env.tmp_listing() != before_tmp or os.listdir(notrepo):
            ctx.property_failure({"kind": "not-a-repository"}, {"what": "something left behind", "tmp": env.tmp_listing(), "dir": os.listdir(notrepo)})
        # public API re-exported from a private sibling in the same checkout
        facade_checks(ctx, env)
        # normalize, location
        check_normalize(ctx, ctx.budget(300, 3000))
        check_location(ctx, ctx.budget(300, 3000))
        # witnesses of the known findings
        ctx.witness("C20-F2", witness_f2(env, rep0))
        # the witnesses of the repaired findings F3 and F4 are regression cases now: they must not reproduce
        ctx.case({"kind": "regression", "finding": "F3"}, True)
        if witness_f3(env, rep0):
            ctx.property_failure({"kind": "regression", "finding": "F3", "repo": rep0.spec()},
                                 {"what": "the user's own stale, unlocked worktree registration disappeared during load_git (git worktree prune is back?)"})
        for repo in repos:
            w4 = witness_f4(env, repo)
            if w4 is not None:
                ctx.case({"kind": "regression", "finding": "F4"}, True)
                if w4:
                    ctx.property_failure({"kind": "regression", "finding": "F4", "repo": repo.spec()},
                                         {"what": "with the reference `@` the breakage location lost its first path component"})
                break
        if not quick:
            sample = [["normalize", "feat/x"], ["normalize", "@"], ["checkout-name", "@"], ["checkout-name", "a/b"], ["location", True, ["/", "tmp", "griffe-worktree-r-v1-x", "v1", "src", "a.py"]],
                      ["load_git", True, True, [["main"], 1, 0, [["main", 1]], [["v1", 0]], [], [], []],
                       [OK, False, OK, ["fail-after"], ["raise-after", "KeyboardInterrupt"]], 7, "v1", [[0, "package"], [1, "package"]],
                       [["write"], ["raise", "Injected"]]],
                      ["steps", [["main"], 1, 0, [["main", 1]], [["v1", 0]], [], [], []],
                       [["mkdtemp", 1], ["add", "griffe-a", 1, "v1"], ["touch", 1], ["remove", False, 1], ["branch-D", "griffe-a"], ["remove", True, 1], ["prune"], ["branch-D", "griffe-a"], ["rmtree", 1]]]]
            ctx.cross_check_extraction(sample)


def search(ctx):
    """A tie broke and no failing input is known yet: direct evaluation only (python mirror for the classification)."""
    with Env(ctx) as env:
        assert_safe(env)
        saved_model = ctx.model

        def no_model(values):
            from harness.common.framework import ModelUnavailable
            raise ModelUnavailable("search runs without the model")
        ctx.model = no_model
        try:
            facade_checks(ctx, env)
            if ctx.prop_failures:
                return
            for i in range(3):
                repo = Repo(ctx.seed + 1000, i, env, [{"layout": "src"}, {"layout": "."}, {}][i])
                pool = repo.ref_pool()
                recs = run_load_batch(ctx, env, repo, [load_case(r) for r, _ in pool], "search-refs")
                npts = {k: rec["n_points"] for (r, k), rec in zip(pool, recs) if k is not None and rec["outcome"][0] == "returned"}
                good = [(r, k) for r, k in pool if k in npts]
                if ctx.prop_failures or not good:
                    break
                r, k = good[0]
                run_load_batch(ctx, env, repo, single_fault_cases(r, npts[k], ctx.rng, full=True), "search-single-fault")
                run_load_batch(ctx, env, repo, event_cases(r, npts[k], list(range(npts[k]))), "search-events")
                if ctx.prop_failures:
                    break
                run_check_batch(ctx, env, repo, [random_check_case(ctx.rng, repo, npts, faulty=j % 2 == 1) for j in range(40)])
                if ctx.prop_failures:
                    break
        finally:
            ctx.model = saved_model


def replay(ctx, data):
    case = data.get("failing_input") or {}
    if not case or "repo" not in case:
        print(json.dumps(data.get("no_longer_checks") or case, indent=1, default=str))
        return 0
    ctx.scratch.mkdir(parents=True, exist_ok=True)
    try:
        with Env(ctx) as env:
            assert_safe(env)
            spec = case["repo"]
            kind = case.get("kind")
            if spec.get("facade"):
                frepo = FacadeRepo(env)
                if kind == "facade-load":
                    facade_load_case(ctx, env, frepo, {k: v for k, v in case.items() if k not in ("repo", "kind")})
                else:
                    facade_check_case(ctx, env, frepo, case["against"], case["base"], case["cli"])
                print(json.dumps({k: v for k, v in case.items() if k != "repo"}))
                for f in ctx.prop_failures:
                    print("FAILS  :", json.dumps(f["detail"], default=str)[:1200])
                for f in ctx.tie_failures:
                    print("TIE    :", f["name"], json.dumps(f["detail"], default=str)[:400])
                if not ctx.prop_failures and not ctx.tie_failures:
                    print("holds on this tree")
                return 0
            repo = Repo(spec["seed"], spec["idx"], env, spec.get("profile"))
            if kind == "load_git":
                rec = run_load_case(env, repo, case)
                print("case    :", json.dumps({k: v for k, v in case.items() if k != "repo"}))
                print("outcome :", rec["outcome"])
                print("changed :", json.dumps(diff_obs(rec["before"], rec["after"]), indent=1))
                print("class   :", py_classify(rec["before_abs"], case["ref"], case["faults"], True))
                try:
                    print("model   :", ctx.model([model_input_load(repo, rec)])[0][1:3])
                except Exception as e:  # noqa: BLE001
                    print("model unavailable:", e)
            elif kind == "check":
                rec = run_check_case(env, repo, case)
                print("outcome :", rec["outcome"], "\nstderr  :", rec["stderr"][-500:])
                print("changed :", json.dumps(diff_obs(rec["before"], rec["after"]), indent=1))
            elif kind == "git-steps":
                o = OracleRepo(repo, repo.path, env.tmp)
                for st in case["steps"]:
                    print(st, "->", o.apply(st), o.abstract()[3:])
            else:
                print(json.dumps(case, indent=1))
    finally:
        subprocess.run(["rm", "-rf", str(ctx.scratch)])
    return 0
