"""C20 — Loading from Git leaves repository and filesystem untouched on every path.

(C) model load_git / check (Model/C20_git.v)   vs  griffe.load_git / _griffe.cli.check on generated repositories, with a
    fault injected on the git calls as seen from _griffe.git, on loader stages and on extension hooks
(O) model of git (wt_add / wt_remove / wt_prune / branch_D ...) vs real git on random step sequences
direct evaluation: repository state before == after (HEAD, branches, tags, index, status, stash, worktree list),
    no griffe-worktree-* directory left, returned objects usable after cleanup, exit codes of `python -m griffe check`
"""
from __future__ import annotations

import ast
import contextlib
import hashlib
import importlib
import io
import json
import logging
import os
import random
import shutil
import signal
import subprocess
import sys
import tempfile
import textwrap
from pathlib import Path

ID = "C20"
LEVEL_TEXT = ("32 theorems, all closed under the global context, for every repository state, reference, package content, sequence of "
              "loader stages / extension hooks and every placement of faults: each git call may fail or raise, before or after taking "
              "effect, or be TORN (`worktree add` interrupted after `git branch`, `worktree remove` after deleting the directory); the "
              "removal of the TemporaryDirectory may raise at once, in the middle or on return. load_git restores the repository EXACTLY "
              "WHEN the placement is benign (iff); every path ends in one of the enumerated final states; the temp dir / checkout is gone "
              "for every placement exactly when its own removal works; HEAD/index/status/tags are untouched for every placement; check() "
              "and arbitrary histories restore likewise; exit code 0 only after a comparison without breaking change. For the proposed "
              "repair of finding F2 (existence test of the temporary branch, `worktree add` inside the try block) the same equivalence "
              "holds WITHOUT a gap predicate, and the repair never restores less. The checkout name is a non-empty single path "
              "component; Breakage._location strips the worktree prefix; lines and source of every returned object are the same on "
              "every file system (the collection stores lines, never a promise to read them). Model tied to the code by fault-injected "
              "differential runs on generated repositories (in process, and end to end through `python -m griffe check` with a git shim "
              "that fails, sends SIGINT or tears calls), to git by an oracle correspondence on git step sequences, and the returned "
              "objects to `git show` with the file system below TMPDIR audited. The `package absent at that reference` path with inspection "
              "allowed is in the model with the import system of the calling process as state (sys.path, sys.modules, which directory holds "
              "which module, byte code, __pycache__ written): for every process state and file system load_git finds / imports a package "
              "only in a search path inside the checkout, writes byte code only there and restores sys.path; for every history of imports "
              "under any law of importer.sys_path that puts nothing but the given paths on sys.path -- and the law is REGENERATED from "
              "importer.py by a translator (it is `replace`); the prepend law is refuted.")
LEVEL_NOTE = ("Modelled, not verified: git itself (worktree add on free / occupied / registered paths, remove, prune, branch -D: tied to "
              "real git 2.39 by (O); the ORDER of git's internal effects behind the torn faults is read off builtin/worktree.c and tied "
              "only for `worktree add` -- a refusal because of the path leaves the branch), the file system, TemporaryDirectory, the "
              "loader (abstracted to a sequence of stages that may write into the checkout or raise). Excluded by hypothesis (no "
              "implementation can restore): a cleanup call itself fails, is interrupted or torn; the removal of the temporary directory "
              "fails. Known finding carried as a hypothesis for the code as it is: F2 (`worktree add` leaves an effect and does not report "
              "success: hook failure, interruption, torn); the repair is proposed (build/fix-C20), proved for the model variant "
              "guard=true and checked against the repaired clone with VERIF_C20_GUARD=1. Repaired and now regression cases: --force, "
              "F3 (global `worktree prune`), F4 (reference normalising to the empty string). Hypothesis `fresh`: mkdtemp's name carries "
              "no stale worktree registration (the collision case is in the model and the correspondence, outside the theorems). "
              "Non-ASCII references are outside the normalize model (checked directly against the spec only). Import model: top-level "
              "modules only, Python's import machinery reduced to sys.modules-then-sys.path lookup (trusted; tied on the generated "
              "absent / broken / present x cached / not cached cases); hypothesis of the import theorem: the package is not already in "
              "sys.modules from elsewhere -- it is needed (C20_cached_package_escapes); when it fails load_git returns the working tree's "
              "package for a reference where it is absent (nothing written, nothing left: an observation, not a violation of the "
              "property as stated; the stream then expects what the extracted import model says).")
MODEL = ("Model.C20_git", "run_C20")
COQ_TARGETS = ["Proofs/C20_git.vo", "Proofs/C20_import.vo"]


def translate(ctx):
    """(T) regenerates coq/Gen/C20_syspath.v (the law of importer.sys_path) from the tree under test; fail closed."""
    from harness.translate import c20_syspath
    return c20_syspath.translate(ctx)

RULE = ("seeded repositories (5-8 commits; package present / absent / top-level syntax error / broken submodule; lightweight and annotated "
        "tags; branches with slashes; HEAD on main, on a slash branch or detached; dirty main worktree with untracked, modified, staged "
        "files and a stash; foreign worktrees healthy / locked-stale / stale / in a directory NAMED like the normalised branch they hold; a "
        "branch named like the repository directory; modules tracked through symbolic links: file link inside the package, directory link out "
        "of it); per repository: every reference of a pool (tags, slash "
        "branches, HEAD, @, HEAD~1, full and abbreviated sha, unknown, ambiguous, existing griffe-<ref> branch) without fault; every "
        "single-fault placement (git calls x fail/raise x before/after, torn add / remove with and without exception, mkdtemp, removal of "
        "the temp dir x at once / torn / on return x OSError / KeyboardInterrupt) with clean and dirty body; pairs of faults; every loader "
        "stage / hook index x {Exception, KeyboardInterrupt, write a file}; forced inspection (real __pycache__); package absent / broken at the "
        "reference while the calling process can import it from the working tree (sys.path, byte-code on; in process and CLI); mkdtemp name collision "
        "with a stale (locked) registration; random multi-fault schedules; check() with faults on both loads, latest-tag default and "
        "working-tree side; `python -m griffe check` end to end, plain and with faults from a git shim on PATH (exit codes, SIGINT, torn "
        "calls) and a CLI extension; returned objects (static and inspected, facade + private sibling) against `git show` under a "
        "file-system audit; scripted + random git step sequences for the oracle (free, foreign-directory, live, missing-registered and "
        "locked paths). non-trivial = a fault, an event, a non-package content or a non-plain reference; distinct by canonical case value")
TRUSTED = ["abstraction: harness reads `git for-each-ref / worktree list --porcelain / status --ignored / stash list / ls-files -s`, a full listing of the main worktree and the TMPDIR "
           "listing into the model's repo record (commits -> indices, directories -> path ids)",
           "fault injector: a proxy for every binding of `subprocess` / its entry points inside _griffe.git, os.mkdir and shutil.rmtree "
           "for directories directly under TMPDIR, wrappers on GriffeLoader._post_load / resolve_aliases and a catch-all Extension; end to "
           "end: a `git` shim first on PATH and an extension file given with -e",
           "torn calls are emulated by their first half as builtin/worktree.c orders it (`git branch B REF`; deletion of the working directory)",
           "git 2.39.5 as the authority for the git model; `git show <sha>:<path>` as the authority for source lines"]
ASSUMPTIONS = ["a git call takes effect completely, not at all, or is torn at the one point modelled per command (add: after `git branch`; remove: after "
               "the directory deletion); faults are: non-zero exit or exception, before or after the effect",
               "mkdtemp returns a name that is fresh with respect to existing temp dirs, checkout dirs and worktree registrations",
               "every checked-out branch exists (wf) -- what git itself maintains"]

# Which variant of tmp_worktree the model describes: False = the code as it is (`worktree add` before the try block, finding
# C20-F2 known); True = the proposed repair (existence test of the temporary branch, `worktree add` inside the try block).
# The repair landed in /repo as f348741.  The variant is read from the tree under test (a fail-closed shape test of tmp_worktree:
# is `git worktree add` issued inside the try block, after a `git branch --list` existence test?), so that a tree which loses the
# repair is checked against the model of the unrepaired code -- where F2 is no longer a listed finding and is reported again.
SHAPE_PROBLEM: list = []


def _guard_in_source() -> bool:
    repo = Path(os.environ.get("GRIFFE_REPO", "/repo"))
    tree = ast.parse((repo / "src" / "_griffe" / "git.py").read_text())
    fn = next(n for n in ast.walk(tree) if isinstance(n, ast.FunctionDef) and n.name == "tmp_worktree")
    def has(node, *words):
        return any(isinstance(c, ast.List) and all(any(isinstance(e, ast.Constant) and e.value == w for e in c.elts) for w in words)
                   for c in ast.walk(node))
    tries = [n for n in ast.walk(fn) if isinstance(n, ast.Try)]
    add_in_try = any(has(ast.Module(body=t.body, type_ignores=[]), "worktree", "add") for t in tries)
    listed_first = has(fn, "branch", "--list")
    if add_in_try != listed_first:
        # neither shape: not an import-time crash (the run must still go on and look for a failing input) but a broken tie,
        # reported from explore(); the model variant follows the place of `worktree add`, the existence test is then
        # part of what the correspondence compares (the `list` call of the protocol is missing or unexpected)
        SHAPE_PROBLEM.append("tmp_worktree has neither the repaired nor the unrepaired shape (worktree add in try: %s, branch --list: %s)"
                             % (add_in_try, listed_first))
    return add_in_try


GUARD = (os.environ["VERIF_C20_GUARD"] == "1") if "VERIF_C20_GUARD" in os.environ else _guard_in_source()
PKG = "c20pkg"
ABSENT_PKG = "c20absentpkg"
GIT_ID = ["-c", "user.name=t", "-c", "user.email=t@t"]
_real_run = subprocess.run


class Injected(Exception):
    pass


class HarnessTimeout(Exception):
    pass


# --------------------------------------------------------------------------------------------- environment

class Env:
    """Scratch layout and process environment for one run; everything is restored on exit."""

    def __init__(self, ctx):
        self.root = Path(ctx.scratch) / "c20"
        self.tmp = self.root / "tmp"
        self.saved_env = {}
        self.cwd = None

    def __enter__(self):
        self.root.mkdir(parents=True, exist_ok=True)
        self.tmp.mkdir(exist_ok=True)
        self.cwd = os.getcwd()
        for k, v in {"TMPDIR": str(self.tmp), "GIT_CEILING_DIRECTORIES": str(self.root), "GIT_CONFIG_GLOBAL": "/dev/null",
                     "GIT_CONFIG_NOSYSTEM": "1", "GIT_TERMINAL_PROMPT": "0", "GIT_ADVICE": "0"}.items():
            self.saved_env[k] = os.environ.get(k)
            os.environ[k] = v
        self.saved_tempdir = tempfile.tempdir
        tempfile.tempdir = None
        assert tempfile.gettempdir() == str(self.tmp), tempfile.gettempdir()
        self.log_disable = logging.root.manager.disable
        logging.disable(logging.CRITICAL)
        return self

    def __exit__(self, *exc):
        os.chdir(self.cwd)
        for k, v in self.saved_env.items():
            if v is None:
                os.environ.pop(k, None)
            else:
                os.environ[k] = v
        tempfile.tempdir = self.saved_tempdir
        logging.disable(self.log_disable)
        return False

    def tmp_listing(self):
        return sorted(os.listdir(self.tmp))


def git(cwd, *args, check=True, env=None):
    p = _real_run(["git", *GIT_ID, "-C", str(cwd), *args], capture_output=True, text=True, env=env)
    if check and p.returncode != 0:
        raise RuntimeError(f"git {' '.join(args)} failed in {cwd}: {p.stderr.strip()[:300]}")
    return p


@contextlib.contextmanager
def watchdog(seconds):
    def handler(signum, frame):
        raise HarnessTimeout(f"implementation did not return within {seconds}s")
    old = signal.signal(signal.SIGALRM, handler)
    signal.alarm(seconds)
    try:
        yield
    finally:
        signal.alarm(0)
        signal.signal(signal.SIGALRM, old)


# --------------------------------------------------------------------------------------------- repository generation

PARAMS = ["a", "b", "c", "d"]


def render_init(k, api):
    out = [f'"""version {k}"""', ""]
    for name in sorted(api):
        out += [f"def {name}({', '.join(api[name])}):", f'    """Doc of {name} at {k}."""', f"    return ({', '.join(api[name])},)", ""]
    return "\n".join(out) + "\n"


def breaking_api(old, new):
    """By construction of the generated family: a function is gone or its parameter list differs."""
    return any(f not in new or new[f] != old[f] for f in old)


def breaking_commits(old, new):
    """... or the submodule is gone (a submodule that no longer parses is not loaded, hence reported as removed)."""
    return breaking_api(old["api"], new["api"]) or (not old["sub_broken"] and new["sub_broken"])


def mutate_api(rng, api, counter):
    api = {k: list(v) for k, v in api.items()}
    op = rng.choice(["add_func", "add_func", "remove_func", "remove_param", "add_param", "none"])
    if op == "add_func" or not api:
        counter[0] += 1
        api[f"f{counter[0]}"] = rng.sample(PARAMS, rng.randint(1, 3))
        return api, "add_func"
    name = rng.choice(sorted(api))
    if op == "remove_func" and len(api) > 1:
        del api[name]
    elif op == "remove_param" and len(api[name]) > 1:
        api[name].pop(rng.randrange(len(api[name])))
    elif op == "add_param":
        free = [p for p in PARAMS if p not in api[name]]
        if free:
            api[name].append(rng.choice(free))
        else:
            op = "none"
    else:
        op = "none"
    return api, op


SYMLINKED_FILES = {f"{PKG}/_impl.py": '"""Implementation."""\n\n\ndef compat_func(a, b):\n    """Doc."""\n    return a + b\n',
                   "third_party/vendored/__init__.py": '"""Vendored."""\n\nVALUE = 1\n\n\ndef vendored_func(x):\n    return [x]\n',
                   "third_party/vendored/inner.py": '"""Inner."""\n\n\nclass Inner:\n    def method(self):\n        return 0\n'}
SYMLINKS = {f"{PKG}/compat.py": "_impl.py", f"{PKG}/vendored": "../third_party/vendored"}
SYMLINK_MODULES = {"compat": "compat_func", "vendored": "vendored_func"}       # member of the package -> an object it must hold


class Repo:
    """A generated repository plus everything the abstraction needs to know about it."""

    def __init__(self, seed, idx, env, profile=None):
        self.seed, self.idx = seed, idx
        self.env = env
        self.rng = random.Random(f"c20-{seed}-{idx}")
        self.name = f"repo{idx}"
        self.path = env.root / self.name
        self.pristine = env.root / f"{self.name}.pristine"
        self.foreign_root = env.root / f"{self.name}.foreign"
        self.profile = profile or {}
        self.commits = []          # dicts: sha, kind, api, sub_broken, init_text
        self.tags = {}             # name -> commit idx
        self.base_branches = {}    # name -> commit idx
        self.pathids = {}          # directory path (str) -> path id
        self.next_pid = 10
        self.generate()

    # -- generation
    def spec(self):
        return {"seed": self.seed, "idx": self.idx, "profile": self.profile}

    def generate(self):
        rng = self.rng
        for d in (self.path, self.pristine, self.foreign_root):
            shutil.rmtree(d, ignore_errors=True)
        self.path.mkdir(parents=True)
        self.layout = self.profile.get("layout", rng.choice(["src", "."]))
        pkgdir = self.path / self.layout / PKG if self.layout != "." else self.path / PKG
        git(self.path, "init", "-q", "-b", "main", ".")
        n = rng.randint(5, 8)
        kinds = ["package"] * n
        kinds[0] = "absent"
        bad = rng.randrange(1, n - 2)
        kinds[bad] = "syntax-error"
        if n > 6 and rng.random() < 0.5:
            j = rng.randrange(1, n - 2)
            if j != bad:
                kinds[j] = "absent"
        kinds[-1] = "package"
        if kinds.count("package") < 3:
            kinds[-2] = "package"
        counter = [1]
        api = {"f0": ["a", "b"], "f1": ["a"]}
        for k in range(n):
            kind = kinds[k]
            (self.path / "README").write_text(f"commit {k}\n")
            sub_broken = False
            init_text = None
            if kind == "absent":
                shutil.rmtree(pkgdir, ignore_errors=True)
            else:
                pkgdir.mkdir(parents=True, exist_ok=True)
                if kind == "syntax-error":
                    init_text = f'"""version {k}"""\ndef broken(:\n'
                else:
                    api, _ = mutate_api(rng, api, counter)
                    init_text = render_init(k, api)
                    sub_broken = rng.random() < 0.2
                (pkgdir / "__init__.py").write_text(init_text)
                (pkgdir / "sub.py").write_text("def helper(:\n" if sub_broken else f'"""sub {k}"""\n\ndef helper(x):\n    return x\n')
                # modules tracked through symbolic links: a file link inside the package, a directory link out of it
                for rel, text in SYMLINKED_FILES.items():
                    f = pkgdir.parent / rel
                    f.parent.mkdir(parents=True, exist_ok=True)
                    f.write_text(text)
                for rel, target in SYMLINKS.items():
                    link = pkgdir.parent / rel
                    if not link.is_symlink():
                        link.symlink_to(target)
            date = f"2020-01-{k + 1:02d}T00:00:00 +0000"
            env = dict(os.environ, GIT_AUTHOR_DATE=date, GIT_COMMITTER_DATE=date)
            git(self.path, "add", "-A", env=env)
            git(self.path, "commit", "-q", "-m", f"c{k}", env=env)
            sha = git(self.path, "rev-parse", "HEAD").stdout.strip()
            self.commits.append({"sha": sha, "kind": kind, "api": {a: list(b) for a, b in api.items()} if kind == "package" else None,
                                 "sub_broken": sub_broken, "init_text": init_text})
        # tags: at most one per commit; one annotated; the syntax error commit is always tagged
        tag_names = ["v0", "v1.0", "v1.1", "rel/2.0", "old", "1.x", "broken"]
        rng.shuffle(tag_names)
        chosen = set(rng.sample(range(n), min(n, rng.randint(3, 5)))) | {bad}
        for k in sorted(chosen):
            name = "broken" if k == bad else next(t for t in tag_names if t != "broken" and t not in self.tags)
            date = f"2020-02-{k + 1:02d}T00:00:00 +0000"
            env = dict(os.environ, GIT_COMMITTER_DATE=date)
            if rng.random() < 0.25:
                git(self.path, "tag", "-a", "-m", "annotated", name, self.commits[k]["sha"], env=env)
            else:
                git(self.path, "tag", name, self.commits[k]["sha"])
            self.tags[name] = k
        # branches
        self.base_branches["main"] = n - 1
        for name in rng.sample(["feat/x", "release/1.x", "dev", "fix/a-b/c"], rng.randint(2, 3)):
            k = rng.randrange(n)
            git(self.path, "branch", name, self.commits[k]["sha"])
            self.base_branches[name] = k
        if self.profile.get("ambiguous"):
            tname = next(t for t in self.tags if "/" not in t)
            k = (self.tags[tname] + 1) % n
            git(self.path, "branch", tname, self.commits[k]["sha"])
            self.base_branches[tname] = k
            self.ambiguous = tname
        else:
            self.ambiguous = None
        # a branch named like the repository directory: the checkout of that reference is a directory with the same last
        # component as the main worktree
        k = rng.randrange(n)
        git(self.path, "branch", self.name, self.commits[k]["sha"])
        self.base_branches[self.name] = k
        if self.profile.get("existing_tmp_branch"):
            # the user happens to own a branch called griffe-<normref of some tag>
            tname = next(t for t in sorted(self.tags) if t != self.ambiguous)
            self.existing_for = tname
            bname = "griffe-" + py_checkout_name(tname)
            git(self.path, "branch", bname, self.commits[0]["sha"])
            self.base_branches[bname] = 0
        else:
            self.existing_for = None
        # dirty main worktree + stash
        head_mode = self.profile.get("head", rng.choice(["main", "main", "branch", "detached"]))
        if head_mode == "branch":
            b = next(x for x in sorted(self.base_branches) if "/" in x)
            git(self.path, "checkout", "-q", b)
        elif head_mode == "detached":
            git(self.path, "checkout", "-q", "--detach", self.commits[rng.randrange(1, n)]["sha"])
        self.head_mode = head_mode
        if self.profile.get("dirty", rng.random() < 0.7):
            (self.path / "README").write_text("stashed change\n")
            git(self.path, "stash", "-q")
            (self.path / "README").write_text("modified, unstaged\n")
            (self.path / "notes.txt").write_text("untracked\n")
            (self.path / "staged.txt").write_text("staged\n")
            git(self.path, "add", "staged.txt")
        # foreign worktrees
        self.foreign = []
        fw = self.profile.get("foreign", rng.choice([[], ["healthy"], ["healthy", "locked-stale"]]))
        self.named_for = None
        for j, kind in enumerate(fw):
            d = self.foreign_root / f"wt{j}"
            d.parent.mkdir(parents=True, exist_ok=True)
            bname = f"user/wt{j}"
            if kind == "named":
                # the user's own worktree of a branch, in a directory named like the (normalised) branch:
                # `git worktree add ../worktrees/feat-x feat/x`
                cur = git(self.path, "symbolic-ref", "-q", "--short", "HEAD", check=False).stdout.strip()
                cands = sorted(b for b, kk in self.base_branches.items() if kk is not None and b not in (self.ambiguous, "main", cur, self.name)
                               and not b.startswith("griffe-"))
                self.named_for = rng.choice(cands)
                d = self.foreign_root / "worktrees" / py_checkout_name(self.named_for)
                d.parent.mkdir(parents=True, exist_ok=True)
                git(self.path, "worktree", "add", "-q", str(d), self.named_for)
                self.foreign.append((str(d), kind))
                self.pathids[str(d)] = 4 + j
                continue
            git(self.path, "worktree", "add", "-q", "-b", bname, str(d), self.commits[rng.randrange(n)]["sha"])
            self.base_branches[bname] = None
            if kind == "locked-stale":
                git(self.path, "worktree", "lock", str(d))
                shutil.rmtree(d)
            elif kind == "stale":
                shutil.rmtree(d)
            self.foreign.append((str(d), kind))
            self.pathids[str(d)] = 4 + j
        self.head_sha = git(self.path, "rev-parse", "HEAD").stdout.strip()
        self.head_idx = self.commit_idx(self.head_sha)
        self.work = self.commits[self.head_idx]
        self.sha_idx = {c["sha"]: i for i, c in enumerate(self.commits)}
        listed = git(self.path, "tag", "-l", "--sort=-creatordate").stdout.split("\n")
        self.latest_tag = listed[0] if listed and listed[0] else None
        shutil.copytree(self.path, self.pristine, symlinks=True)

    def commit_idx(self, sha):
        for i, c in enumerate(self.commits):
            if c["sha"] == sha:
                return i
        raise KeyError(sha)

    def restore(self):
        """Put the repository back to its generated state (after a run that was expected to leave residue)."""
        shutil.rmtree(self.path)
        shutil.copytree(self.pristine, self.path, symlinks=True)
        for name in os.listdir(self.env.tmp):
            shutil.rmtree(self.env.tmp / name, ignore_errors=True)

    # -- references
    def loadable(self, ref):
        """Commit index `git worktree add -b griffe-<normref> <dir> ref` checks out, or None when it must refuse."""
        if ref is None or ref == self.ambiguous or ("griffe-" + py_checkout_name(ref)) in self.base_branches:
            return None
        names = self.names()
        if ref in names:
            return names[ref]
        return self.base_branches.get(ref)

    def ref_pool(self):
        """(ref, expected commit idx or None when `worktree add` must refuse it)."""
        pool = []
        for t in self.tags:
            pool.append((t, self.loadable(t)))
        for b, k in self.base_branches.items():
            if k is not None and b != self.ambiguous and not b.startswith("griffe-"):
                pool.append((b, self.loadable(b)))
        pool.append(("HEAD", self.head_idx))
        pool.append(("@", self.head_idx))
        if self.head_idx > 0:
            pool.append(("HEAD~1", self.head_idx - 1))
            pool.append(("@~1", self.head_idx - 1))
        k = self.rng.randrange(len(self.commits))
        pool.append((self.commits[k]["sha"], k))
        pool.append((self.commits[k]["sha"][:8], k))
        pool.append(("nope", None))
        pool.append(("v9/none", None))
        return pool

    def names(self):
        """Immutable resolvable names for the model: tags, HEAD forms, shas (pre-resolved by the abstraction)."""
        out = dict(self.tags)
        out["HEAD"] = out["@"] = self.head_idx
        if self.head_idx > 0:
            out["HEAD~1"] = out["@~1"] = self.head_idx - 1
        for i, c in enumerate(self.commits):
            out[c["sha"]] = i
            out[c["sha"][:8]] = i
        return out

    def tree(self, package):
        if package != PKG:
            return [[i, "absent"] for i in range(len(self.commits))]
        return [[i, c["kind"]] for i, c in enumerate(self.commits)]

    def breaking_table(self):
        out = []
        for i, a in enumerate(self.commits):
            for j, b in enumerate(self.commits):
                if a["kind"] == "package" and b["kind"] == "package" and breaking_commits(a, b):
                    out.append([i, j])
        return out

    def pid_for(self, path):
        """Path id of a worktree directory: foreign ones are fixed, temp checkouts are keyed by their temp dir name."""
        path = str(path)
        if path in self.pathids:
            return self.pathids[path]
        rel = os.path.relpath(path, self.env.tmp)
        top = rel.split(os.sep)[0]
        key = "tmp:" + top
        if key not in self.pathids:
            self.pathids[key] = self.next_pid
            self.next_pid += 1
        return self.pathids[key]

    def fresh_pid(self):
        self.next_pid += 1
        return self.next_pid - 1

    def bind_tmp(self, name, pid):
        self.pathids["tmp:" + name] = pid


# --------------------------------------------------------------------------------------------- observation and abstraction

_status_intern = {}


def main_worktree_listing(root):
    out = []
    for d, dirs, files in os.walk(root):
        if d == str(root) and ".git" in dirs:
            dirs.remove(".git")
        dirs.sort()
        rel = os.path.relpath(d, root)
        for name in sorted(dirs + files):
            f = os.path.join(d, name)
            out.append(f"{os.path.join(rel, name)} {'-> ' + os.readlink(f) if os.path.islink(f) else 'dir' if os.path.isdir(f) else os.path.getsize(f)}")
    return out


def observe(repo: Repo):
    """Everything the property talks about, as raw text (direct evaluation) — no interpretation."""
    p = repo.path
    obs = {
        "head": git(p, "rev-parse", "HEAD", check=False).stdout.strip(),
        "symbolic_head": git(p, "symbolic-ref", "-q", "HEAD", check=False).stdout.strip(),
        "refs": git(p, "for-each-ref", "--format=%(refname) %(objectname)", "refs/heads", "refs/tags", "refs/stash").stdout,
        "status": git(p, "status", "--porcelain", "--untracked-files=all", "--ignored").stdout,
        # every file and directory of the main worktree (size and link target included), whatever git thinks of it
        "files": "\n".join(main_worktree_listing(p)),
        "stash": git(p, "stash", "list").stdout,
        "index": hashlib.sha1(git(p, "ls-files", "-s").stdout.encode()).hexdigest(),
        "worktrees": git(p, "worktree", "list", "--porcelain").stdout,
        "tmp": repo.env.tmp_listing(),
    }
    return obs


MAIN_KEYS = ("head", "symbolic_head", "status", "files", "stash", "index")


def parse_worktrees(text):
    out = []
    for block in text.strip().split("\n\n"):
        d = {"locked": False, "prunable": False, "branch": None}
        for line in block.split("\n"):
            if line.startswith("worktree "):
                d["path"] = line[9:]
            elif line.startswith("branch "):
                d["branch"] = line[7:].replace("refs/heads/", "", 1)
            elif line.startswith("locked"):
                d["locked"] = True
            elif line.startswith("prunable"):
                d["prunable"] = True
        if "path" in d:
            out.append(d)
    return out


def dir_dirty(path):
    p = _real_run(["git", "-C", path, "status", "--porcelain", "--untracked-files=all", "--ignored"], capture_output=True, text=True)
    return p.returncode == 0 and bool(p.stdout.strip())


def abstract(repo: Repo, obs):
    """raw observation -> the model's repo record (python value of the s-expression), canonically ordered."""
    branches, tagsnow = [], {}
    for line in obs["refs"].splitlines():
        ref, sha = line.split(" ")
        if ref.startswith("refs/heads/"):
            branches.append([ref[11:], repo.sha_idx.get(sha, 999)])
    sym = obs["symbolic_head"]
    hb = [sym.replace("refs/heads/", "", 1)] if sym else []
    key = obs["status"] + "\0" + obs["stash"] + "\0" + obs["index"] + "\0" + obs["files"]
    st = _status_intern.setdefault(key, len(_status_intern))
    wts = parse_worktrees(obs["worktrees"])[1:]
    regs, dirs = [], []
    seen = set()
    for w in wts:
        pid = repo.pid_for(w["path"])
        regs.append([pid, [w["branch"]] if w["branch"] else [], w["locked"]])
        if os.path.isdir(w["path"]):
            dirs.append([pid, dir_dirty(w["path"])])
            seen.add(pid)
    for path, _kind in repo.foreign:
        pid = repo.pathids[path]
        if pid not in seen and os.path.isdir(path):
            dirs.append([pid, False])
    tmps = []
    for name in obs["tmp"]:
        if name.startswith("griffe-worktree-"):
            pid = repo.pid_for(repo.env.tmp / name)
            tmps.append(pid)
            # an unregistered checkout that still exists inside the temp dir
            if pid not in seen and any((repo.env.tmp / name).iterdir()):
                dirs.append([pid, False])
    names = sorted([k, v] for k, v in repo.names().items())
    return [hb, repo.sha_idx.get(obs["head"], 999), st, sorted(branches), names, sorted(regs, key=lambda r: r[0]), sorted(dirs), sorted(tmps)]


FIELDS = ["head_branch", "head_commit", "main_status", "branches", "names", "regs", "dirs", "tmps"]


def state_diff(model, impl):
    return {FIELDS[i]: {"model": a, "impl": b} for i, (a, b) in enumerate(zip(model, impl)) if a != b}


def canon_state(s):
    hb, hc, st, br, nm, rg, ds, tm = s
    return [hb, hc, st, sorted(br), sorted(nm), sorted(rg, key=lambda r: r[0]), sorted(ds), sorted(tm)]


# --------------------------------------------------------------------------------------------- python mirrors (used by search() without the model)

def py_normalize(ref: str) -> str:
    """Independent mirror of the model's normalize for ASCII input."""
    out = []
    prev_dash = True
    for ch in ref:
        if ch.isascii() and (ch.isalnum() or ch == "_"):
            out.append(ch)
            prev_dash = False
        elif not prev_dash:
            out.append("-")
            prev_dash = True
    if out and out[-1] == "-":
        out.pop()
    return "".join(out)


def py_checkout_name(ref: str) -> str:
    """Mirror of the model's checkout_name: `_normalize(ref) or "ref"`."""
    return py_normalize(ref) or "ref"


def py_resolve(state, ref):
    names, branches = dict(map(tuple, state[4])), dict(map(tuple, state[3]))
    if (ref in names) == (ref in branches):
        return None
    return names.get(ref, branches.get(ref))


def py_classify(state, ref, F, isrepo):
    """Mirror of Model.classify (code as it is) / Model.classify_guarded (GUARD: the repaired variant)."""
    f_assert, f_mk, f_list, f_add, f_rm, f_bd, f_rt = F
    reaches_add = f_assert == ["ok"] and isrepo and not f_mk
    has_branch = ("griffe-" + py_checkout_name(ref)) in dict(map(tuple, state[3]))
    resolvable = py_resolve(state, ref) is not None
    cleanup_benign = f_rm[0] in ("ok", "fail-after") and f_bd[0] in ("ok", "fail-after", "raise-after")
    rm_excluded = reaches_add and f_rt[0] not in ("ok", "raise-after")
    if GUARD:
        reaches_try = reaches_add and f_list == ["ok"] and not has_branch
        leftover = {"ok": "full", "fail-after": "full", "raise-after": "full", "torn": "branch"}.get(f_add[0], "nothing")
        remove_quiet = not (f_rm[0] in ("raise-before", "raise-after") or (f_rm[0] == "torn" and len(f_rm) > 1))
        ok = {"nothing": True, "branch": remove_quiet and f_bd[0] in ("ok", "fail-after", "raise-after"), "full": cleanup_benign}[leftover]
        if not rm_excluded and (not reaches_try or not resolvable or ok):
            return "benign"
        return "excluded-rmtree-fault" if rm_excluded else "excluded-cleanup-fault"
    add_possible = resolvable and not has_branch
    if reaches_add and add_possible and f_add[0] in ("fail-after", "raise-after", "torn"):
        return "gap-add-after"
    reaches_cleanup = reaches_add and add_possible and f_add == ["ok"]
    if reaches_cleanup and not cleanup_benign:
        return "excluded-cleanup-fault"
    if rm_excluded:
        return "excluded-rmtree-fault"
    return "benign"


# --------------------------------------------------------------------------------------------- fault injection

OK = ["ok"]
# fault vector of one load_git: [assert, mkdtemp raises, list (repaired variant only), add, remove, branchD, rmtree]
NO_FAULTS = [OK, False, OK, OK, OK, OK, OK]
STEP_INDEX = {"assert": 0, "list": 2, "add": 3, "remove": 4, "branchD": 5}
RMTREE = 6


def faults(**kw):
    """NO_FAULTS with the named positions replaced: faults(add=["fail-after"], rmtree=["torn", "OSError"], mkdtemp=True)."""
    F = [OK, False, OK, OK, OK, OK, OK]
    for k, v in kw.items():
        F[{"mkdtemp": 1, "rmtree": RMTREE}.get(k, STEP_INDEX.get(k))] = v
    return F


def classify_git_args(args):
    a = [str(x) for x in args]
    if a and a[0] == "git":
        a = a[1:]
    while len(a) >= 2 and a[0] in ("-C", "-c"):
        a = a[2:]
    if a[:2] == ["rev-parse", "--is-inside-work-tree"]:
        return "assert"
    if a[:2] == ["rev-parse", "--show-toplevel"]:
        return "root"
    if a[:2] == ["worktree", "add"]:
        return "add"
    if a[:2] == ["worktree", "remove"]:
        return "remove"
    if a[:2] == ["branch", "-D"]:
        return "branchD"
    if a[:2] == ["branch", "--list"]:
        return "list"
    if a[:2] == ["tag", "-l"]:
        return "tag"
    return "unknown:" + " ".join(a[:3])


def make_exc(name):
    if name == "KeyboardInterrupt":
        return KeyboardInterrupt("injected")
    if name == "OSError":
        return OSError(5, "injected: input/output error")
    return Injected("injected")


class Control:
    """Shared by the git proxy, the file-system seams, the extension and the stage wrappers during one implementation run."""

    def __init__(self, env, git_plans, event_plans, mkdtemp_plans, rmtree_plans=None):
        self.env = env
        self.git_plans = git_plans          # {phase: {step: fault}}, phase 1 = first load_git, 2 = second
        self.event_plans = event_plans      # {phase: {point index: action}}
        self.mkdtemp_plans = mkdtemp_plans  # {phase: bool}
        self.rmtree_plans = rmtree_plans or {}   # {phase: rmfault}
        self.phase = 0
        self.in_git_load = False
        self.points = {}                    # phase -> list of point names hit
        self.calls = []                     # (phase, step, fault applied)
        self.locations = {}                 # phase -> checkout location
        self.tmp_names = {}                 # phase -> temp dir name
        self.remove_forced = {}
        self.dirty_at_remove = {}
        self.unknown = []
        self.wrote = 0
        self.rmtree_calls = []

    # hooks and loader stages
    def point(self, name):
        phase = self.phase if self.in_git_load else self.phase + 1   # hooks outside a git load belong to the working-tree load
        lst = self.points.setdefault(phase, [])
        idx = len(lst)
        lst.append(name)
        action = self.event_plans.get(phase, {}).get(idx)
        if not action or action[0] == "step":
            return
        if action[0] == "write":
            loc = self.locations.get(phase)
            if loc and os.path.isdir(loc):
                Path(loc, f"c20_written_{idx}.txt").write_text("left by an extension\n")
                self.wrote += 1
            return
        raise make_exc(action[1])

    # file-system seams: any directory created / removed directly under TMPDIR while the implementation runs
    def under_tmp(self, path):
        try:
            return os.path.dirname(os.path.abspath(os.fspath(path))) == str(self.env.tmp)
        except TypeError:
            return False

    def mkdir(self, real, path, *a, **k):
        if self.under_tmp(path):
            if self.mkdtemp_plans.get(self.phase):
                raise OSError(28, "injected: no space left on device")
            self.tmp_names.setdefault(self.phase, os.path.basename(os.fspath(path)))
        return real(path, *a, **k)

    def rmtree(self, real, path, *a, **k):
        if not self.under_tmp(path):
            return real(path, *a, **k)
        fault = self.rmtree_plans.get(self.phase, OK)
        self.rmtree_calls.append((self.phase, fault[0]))
        if fault[0] == "ok":
            return real(path, *a, **k)
        if fault[0] == "raise-after":
            real(path, *a, **k)
            raise make_exc(fault[1])
        # The fault is placed BELOW shutil.rmtree, at the system call that opens (lstat: nothing gets removed) or closes
        # (rmdir of the directory itself: its content is gone) the removal, so that it travels through rmtree's own error
        # handling (onexc / ignore_errors, TemporaryDirectory's handler) exactly as a real failure would.
        top = os.path.abspath(os.fspath(path))
        name = "lstat" if fault[0] == "raise-before" else "rmdir"
        real_os = getattr(os, name)

        def failing(p, *aa, **kk):
            if isinstance(p, (str, bytes, os.PathLike)) and os.path.abspath(os.fsdecode(p)) == top and kk.get("dir_fd") is None:
                raise make_exc(fault[1])
            return real_os(p, *aa, **kk)
        setattr(os, name, failing)
        try:
            return real(path, *a, **k)
        finally:
            setattr(os, name, real_os)

    # git calls
    def git_call(self, kind, args, kwargs, real):
        step = classify_git_args(args)
        if step == "assert":
            self.phase += 1
            self.in_git_load = True
        if step.startswith("unknown"):
            self.unknown.append(step)
        if step == "add":
            loc = next((str(a) for a in args if str(a).startswith(str(self.env.tmp))), None)
            self.locations[self.phase] = loc
            if loc:
                self.tmp_names[self.phase] = os.path.relpath(loc, self.env.tmp).split(os.sep)[0]
        if step == "remove":
            self.remove_forced[self.phase] = "--force" in [str(a) for a in args] or "-f" in [str(a) for a in args]
            loc = self.locations.get(self.phase)
            self.dirty_at_remove[self.phase] = bool(loc and os.path.isdir(loc) and dir_dirty(loc))
        if kind == "run" and "stderr" not in kwargs and not kwargs.get("capture_output"):
            kwargs = dict(kwargs, stderr=subprocess.DEVNULL)    # keep git's complaints about injected faults off the console
        if step in ("tag", "root"):
            fault = self.git_plans.get(0, {}).get(step, OK)
        else:
            fault = self.git_plans.get(self.phase, {}).get(step, OK)
        self.calls.append((self.phase, step, fault[0]))
        try:
            return self._apply(kind, step, fault, args, kwargs, real)
        finally:
            if step == "branchD":
                self.in_git_load = False

    def _apply(self, kind, step, fault, args, kwargs, real):
        f = fault[0]
        if f == "ok":
            return real(args, **kwargs)
        if f == "raise-before":
            raise make_exc(fault[1])
        if f == "fail-before":
            return self._failed(kind, args, kwargs, None)
        if f == "torn":
            self._torn(step, [str(a) for a in args])
            if len(fault) > 1:
                raise make_exc(fault[1])
            return self._failed(kind, args, kwargs, None)
        kw = dict(kwargs)
        if kind == "run":
            kw["check"] = False
        try:
            res = real(args, **kw)
        except subprocess.CalledProcessError:
            res = None
        if f == "raise-after":
            raise make_exc(fault[1])
        return self._failed(kind, args, kwargs, res)

    def _torn(self, step, a):
        """The first half of a git command, as git itself performs it (builtin/worktree.c):
        `worktree add -b B PATH REF` runs `git branch B REF` first; `worktree remove PATH` deletes the working directory
        first (when it is going to accept the request at all) and the registration second."""
        pre = a[:a.index("worktree")] if "worktree" in a else ["git"]
        if step == "add":
            k = a.index("-b")
            _real_run([*pre, "branch", a[k + 1], a[k + 3]], capture_output=True)
        elif step == "remove":
            loc = a[-1]
            out = _real_run([*pre, "worktree", "list", "--porcelain"], capture_output=True, text=True).stdout
            reg = next((w for w in parse_worktrees(out) if os.path.realpath(w["path"]) == os.path.realpath(loc)), None)
            forced = "--force" in a or "-f" in a
            if reg and not reg["locked"] and os.path.isdir(loc) and (forced or not dir_dirty(loc)):
                shutil.rmtree(loc)

    @staticmethod
    def _failed(kind, args, kwargs, res):
        if kind == "check_output" or kwargs.get("check"):
            raise subprocess.CalledProcessError(1, args, output=b"", stderr=b"injected failure")
        captured = kwargs.get("capture_output") or kwargs.get("stdout") == subprocess.PIPE
        text = kwargs.get("text") or kwargs.get("universal_newlines")
        empty = "" if text else b""
        err = "injected failure" if text else b"injected failure"
        return subprocess.CompletedProcess(args, 1, stdout=empty if captured else None,
                                           stderr=err if kwargs.get("capture_output") else None)


class SubprocessProxy:
    """Stands in for the module `subprocess` inside _griffe.git only."""

    def __init__(self, ctrl):
        self._ctrl = ctrl

    def __getattr__(self, name):
        return getattr(subprocess, name)

    def run(self, args, **kwargs):
        return self._ctrl.git_call("run", args, kwargs, subprocess.run)

    def check_output(self, args, **kwargs):
        return self._ctrl.git_call("check_output", args, kwargs, subprocess.check_output)

    def check_call(self, args, **kwargs):
        return self._ctrl.git_call("run", args, dict(kwargs, check=True), subprocess.run)


@contextlib.contextmanager
def injected(ctrl):
    """Seams: every binding of the subprocess module / its entry points inside _griffe.git (git calls); os.mkdir and
    shutil.rmtree for directories directly under TMPDIR (however the code creates and removes its temporary directory:
    TemporaryDirectory, mkdtemp + rmtree, ...); two loader stages."""
    import _griffe.git as gg
    import _griffe.loader as gl
    proxy = SubprocessProxy(ctrl)
    entry = {subprocess.run: proxy.run, subprocess.check_output: proxy.check_output, subprocess.check_call: proxy.check_call}
    saved_names = {}
    for name, val in list(vars(gg).items()):
        if val is subprocess:
            saved_names[name] = val
            setattr(gg, name, proxy)
        elif callable(val) and val in entry:
            saved_names[name] = val
            setattr(gg, name, entry[val])
    if not saved_names:
        raise RuntimeError("_griffe.git binds neither `subprocess` nor one of its entry points: the injection seam for git calls is gone")
    saved = (os.mkdir, shutil.rmtree, gl.GriffeLoader._post_load, gl.GriffeLoader.resolve_aliases)

    def mkdir(path, *a, **k):
        return ctrl.mkdir(saved[0], path, *a, **k)

    def rmtree(path, *a, **k):
        return ctrl.rmtree(saved[1], path, *a, **k)

    def post_load(self, *a, **k):
        ctrl.point("stage:post_load")
        return saved[2](self, *a, **k)

    def resolve_aliases(self, *a, **k):
        ctrl.point("stage:resolve_aliases")
        return saved[3](self, *a, **k)

    os.mkdir = mkdir
    shutil.rmtree = rmtree
    gl.GriffeLoader._post_load = post_load
    gl.GriffeLoader.resolve_aliases = resolve_aliases
    try:
        yield
    finally:
        os.mkdir, shutil.rmtree, gl.GriffeLoader._post_load, gl.GriffeLoader.resolve_aliases = saved
        for name, val in saved_names.items():
            setattr(gg, name, val)


def make_extension(ctrl):
    import griffe

    class C20Extension(griffe.Extension):
        def __getattribute__(self, name):
            if name.startswith("on_"):
                return lambda *a, **k: ctrl.point("hook:" + name)
            return object.__getattribute__(self, name)

    return C20Extension()


def exc_name(e):
    import _griffe.exceptions as gx
    if isinstance(e, HarnessTimeout):
        return "HarnessTimeout"
    if isinstance(e, Injected):
        return "Injected"
    if isinstance(e, KeyboardInterrupt):
        return "KeyboardInterrupt"
    if isinstance(e, subprocess.CalledProcessError):
        return "CalledProcessError"
    if isinstance(e, gx.LoadingError):
        return "LoadingError"
    if isinstance(e, ImportError):
        return "ImportError"
    if isinstance(e, RuntimeError):
        return "RuntimeError"
    if isinstance(e, OSError):
        return "OSError"
    return type(e).__name__


def version_of(obj):
    doc = obj.docstring.value if obj.docstring else ""
    if doc.startswith("version "):
        return int(doc.split()[1])
    return 998


# --------------------------------------------------------------------------------------------- one load_git case

def events_for_model(plan, n_points):
    """Planned actions by point index -> the model's event list (points without a plan are plain steps)."""
    size = n_points if n_points else max([0] + [i + 1 for i in plan])
    return [plan.get(i, ["step"]) for i in range(size)]


def check_returned_object(repo, obj, ref_idx, env):
    """The returned object must be usable after the checkout is gone. Returns a list of problems."""
    problems = []
    c = repo.commits[ref_idx]
    text = c["init_text"]
    fp = obj.filepath
    if not str(fp).startswith(str(env.tmp)):
        problems.append(f"filepath {fp} not under the temporary directory")
    if os.path.exists(fp):
        problems.append(f"checkout file {fp} still exists after return")
    if str(obj.relative_package_filepath) != f"{PKG}/__init__.py":
        problems.append(f"relative_package_filepath={obj.relative_package_filepath}")
    lines = text.split("\n")
    if lines and lines[-1] == "":
        lines = lines[:-1]
    if list(obj.lines) != lines:
        problems.append({"module lines": list(obj.lines)[:5], "expected": lines[:5]})
    if obj.source != textwrap.dedent("\n".join(lines)):
        problems.append("module source differs from the file at that reference")
    tree = ast.parse(text)
    for node in tree.body:
        if isinstance(node, ast.FunctionDef):
            if node.name not in obj.members:
                problems.append(f"function {node.name} missing")
                continue
            f = obj.members[node.name]
            want = textwrap.dedent("\n".join(lines[node.lineno - 1:node.end_lineno]))
            if f.source != want:
                problems.append({"function": node.name, "source": f.source, "expected": want})
            if f.lineno != node.lineno or f.endlineno != node.end_lineno:
                problems.append({"function": node.name, "lineno": [f.lineno, f.endlineno], "expected": [node.lineno, node.end_lineno]})
            if [p.name for p in f.parameters] != c["api"][node.name]:
                problems.append({"function": node.name, "parameters": [p.name for p in f.parameters]})
    for name, member in SYMLINK_MODULES.items():
        m = obj.members.get(name)
        if m is None or not m.is_module or member not in m.members:
            problems.append(f"module {name} (tracked through a symbolic link) missing or without {member}")
        elif not m.members[member].source.startswith("def " + member):
            problems.append({"symlinked module": name, "source of " + member: m.members[member].source[:60]})
    if ("sub" in obj.members) == c["sub_broken"]:
        problems.append(f"submodule presence {('sub' in obj.members)} with sub_broken={c['sub_broken']}")
    elif not c["sub_broken"] and "helper" in obj.members["sub"].members:
        if obj.members["sub"].members["helper"].source != "def helper(x):\n    return x":
            problems.append("submodule function source differs")
    return problems


# ---- returned objects after the checkout is gone: contents against `git show`, and no access to the removed checkout

_AUDIT = {"installed": False, "on": False, "root": "", "hits": []}


def _audit_hook(event, args):
    if not _AUDIT["on"] or event not in ("open", "os.listdir", "os.scandir") or not args:
        return
    try:
        path = os.fsdecode(args[0]) if isinstance(args[0], (str, bytes, os.PathLike)) else ""
    except Exception:  # noqa: BLE001
        return
    if path.startswith(_AUDIT["root"]):
        _AUDIT["hits"].append(f"{event} {path}")


@contextlib.contextmanager
def fs_audit(root):
    """Records every open / listdir / scandir below `root` (the TMPDIR of the run) made while the block runs."""
    if not _AUDIT["installed"]:
        sys.addaudithook(_audit_hook)       # audit hooks cannot be removed: installed once, gated by _AUDIT["on"]
        _AUDIT["installed"] = True
    _AUDIT.update(on=True, root=str(root), hits=[])
    try:
        yield _AUDIT["hits"]
    finally:
        _AUDIT["on"] = False


def iter_objects(obj, seen=None):
    """Every module, class, function and attribute reachable through non-alias members, each once."""
    seen = set() if seen is None else seen
    if id(obj) in seen:
        return
    seen.add(id(obj))
    yield obj
    for m in list(obj.members.values()):
        if not m.is_alias:
            yield from iter_objects(m, seen)


def git_show_following(gitdir, ref, relpath):
    """`git show <ref>:<relpath>` where components of relpath may be symbolic links tracked by git (mode 120000)."""
    parts = relpath.split("/")
    done = []
    hops = 0
    while parts:
        done.append(parts.pop(0))
        cur = "/".join(done)
        ls = git(gitdir, "ls-tree", ref, "--", cur, check=False).stdout.split()
        if not ls:
            return None
        if ls[0] == "120000":
            hops += 1
            if hops > 8:
                return None
            target = git(gitdir, "cat-file", "-p", f"{ref}:{cur}").stdout
            done = os.path.normpath(os.path.join("/".join(done[:-1]), target)).split("/")
            if done[0] == "..":
                return None
    pr = git(gitdir, "show", f"{ref}:{'/'.join(done)}", check=False)
    return pr.stdout if pr.returncode == 0 else None


def audit_returned(gitdir, ref, obj, env):
    """After load_git has returned: for every module of the returned tree (statically or dynamically analysed) `.lines` /
    `.source` must be the text git holds for that reference (`git show <ref>:<path>`), every object with a line span must
    give exactly that slice, and none of it may touch the file system below TMPDIR (the checkout is gone: whatever is
    read from there now is read lazily). Returns (problems, lines queries for the model, statistics)."""
    problems, queries, stats = [], [], {"modules": 0, "objects": 0, "spans": 0, "symlinked": 0}
    shown = {}
    with fs_audit(env.tmp) as hits:
        for o in iter_objects(obj):
            try:
                fp = o.filepath
            except Exception as e:  # noqa: BLE001
                problems.append({"object": o.path, "filepath raised": type(e).__name__})
                continue
            if isinstance(fp, list) or fp is None:
                continue
            rel = os.path.relpath(str(fp), env.tmp).split(os.sep)
            if rel[0] == ".." or len(rel) < 3:
                problems.append({"object": o.path, "filepath not inside a checkout under TMPDIR": str(fp)})
                continue
            relpath = "/".join(rel[2:])
            if relpath not in shown:
                text = git_show_following(gitdir, ref, relpath)
                shown[relpath] = text.splitlines() if text is not None else None
            want_all = shown[relpath]
            if want_all is None:
                problems.append({"object": o.path, "file unknown to git at that reference": relpath})
                continue
            try:
                if o.is_module:
                    stats["modules"] += 1
                    stats["symlinked"] += any(("/" + relpath).find("/" + l) >= 0 for l in SYMLINKS)
                    if os.path.lexists(str(fp)):
                        problems.append({"module": o.path, "checkout file still exists": str(fp)})
                    want = want_all
                    span = (0, 0)
                else:
                    stats["objects"] += 1
                    if o.lineno is None or o.endlineno is None:
                        continue
                    stats["spans"] += 1
                    want = want_all[o.lineno - 1:o.endlineno]
                    span = (o.lineno, o.endlineno)
                got = list(o.lines)
                if got != want:
                    problems.append({"object": o.path, "kind": o.kind.value, "lines": got[:3], "expected (git show)": want[:3], "n": [len(got), len(want)]})
                elif o.source != textwrap.dedent("\n".join(want)):
                    problems.append({"object": o.path, "source differs from git show": o.source[:80]})
                if len(queries) < 12 and all(s.isascii() for s in want_all):
                    queries.append((["lines", rel[:2], [[rel[2:], want_all]], rel[2:], span[0], span[1]], got, o.path))
            except Exception as e:  # noqa: BLE001
                problems.append({"object": o.path, "raised": type(e).__name__, "message": str(e)[:120]})
        lazy = sorted(set(hits))
    if lazy:
        problems.append({"what": "the returned objects read below TMPDIR after load_git returned (the checkout is gone: a lazy reference to it)",
                         "accesses": lazy[:4]})
    if not stats["modules"]:
        problems.append("no module with a file path in the returned tree")
    return problems, queries, stats


def run_load_case(env, repo: Repo, case):
    """Runs griffe.load_git once under the case's fault plan. Returns the record used by all comparisons."""
    import griffe
    ref, package = case["ref"], case["package"]
    F = case["faults"]
    git_plan = {step: F[i] for step, i in STEP_INDEX.items()}
    ctrl = Control(env, {1: git_plan}, {1: {int(k): v for k, v in case["events"].items()}}, {1: F[1]}, {1: F[RMTREE]})
    saved_names = tempfile._name_sequence
    if case.get("collide"):
        # mkdtemp is made to return a name under which a stale registration (an earlier, interrupted run) still exists
        fixed = "c20same"
        tmpname = f"griffe-worktree-{repo.path.name}-{py_checkout_name(ref)}-{fixed}"
        stale = env.tmp / tmpname / py_checkout_name(ref)
        git(repo.path, "worktree", "add", "-q", "-b", "user/interrupted", str(stale), repo.commits[0]["sha"])
        if case["collide"] == "locked":
            git(repo.path, "worktree", "lock", str(stale))
        shutil.rmtree(env.tmp / tmpname)
        tempfile._name_sequence = iter([fixed] + [f"c20other{i}" for i in range(50)])
    if case.get("preimport"):
        # the calling process has already imported the package from its working tree (a script of the project, a test run)
        sys.path.insert(0, str(repo.path if repo.layout == "." else repo.path / repo.layout))
        try:
            importlib.invalidate_caches()
            importlib.import_module(PKG)
        finally:
            del sys.path[0]
    before = observe(repo)
    before_abs = abstract(repo, before)
    os.chdir(repo.path)
    repo_arg = "." if case.get("repo_arg") == "." else str(repo.path)
    ext = make_extension(ctrl)
    obj = None
    inspect_mode = bool(case.get("inspect"))
    syspath_before = None
    with injected(ctrl):
        try:
            if inspect_mode or case.get("syspath"):
                sys.dont_write_bytecode = False     # what a user without PYTHONDONTWRITEBYTECODE gets: __pycache__ inside the checkout
            if case.get("syspath"):
                # the calling process can import the package from the user's working tree: a script living in the repository,
                # `python -m griffe` started there ('' / cwd entry), an editable or PYTHONPATH=. set-up
                sys.path[:0] = ["", str(repo.path if repo.layout == "." else repo.path / repo.layout)]
                importlib.invalidate_caches()
                syspath_before = list(sys.path)
            with watchdog(60):
                obj = griffe.load_git(package, ref=ref, repo=repo_arg, search_paths=[repo.layout],
                                      extensions=griffe.load_extensions(ext), resolve_aliases=True, force_inspection=inspect_mode)
            outcome = ["returned", case["expect"] if inspect_mode else version_of(obj)]
        except BaseException as e:  # noqa: BLE001 - KeyboardInterrupt is part of the fault alphabet
            outcome = ["raised", exc_name(e)]
        finally:
            tempfile._name_sequence = saved_names
            syspath_after = list(sys.path)
            if case.get("syspath"):
                del sys.path[:2]
            if inspect_mode or case.get("syspath"):
                sys.dont_write_bytecode = True
                for name in [m for m in sys.modules if m == PKG or m.startswith(PKG + ".")]:
                    del sys.modules[name]
    os.chdir(env.cwd)
    pid = repo.pathids.get("tmp:" + ctrl.tmp_names.get(1, "?")) if case.get("collide") else None
    pid = pid or repo.fresh_pid()
    if ctrl.tmp_names.get(1):
        repo.bind_tmp(ctrl.tmp_names[1], pid)
    after = observe(repo)
    after_abs = abstract(repo, after)
    rec = {"case": case, "before": before, "after": after, "before_abs": before_abs, "after_abs": after_abs, "outcome": outcome,
           "pid": pid, "ctrl": ctrl, "obj_problems": [], "n_points": len(ctrl.points.get(1, [])), "lines_queries": [], "audit": None}
    if case.get("preimport") and obj is not None and outcome[0] == "returned":
        outcome = rec["outcome"] = ["returned", repo.loadable(ref)]     # the git model's "version" is the commit asked for
    rec["syspath_restored"] = syspath_before is None or syspath_before == syspath_after
    rec["origin"] = None
    if obj is not None:
        fp = str(obj.filepath[0] if isinstance(obj.filepath, list) else obj.filepath)
        rec["origin"] = "checkout" if fp.startswith(str(env.tmp)) else "working-tree" if fp.startswith(str(repo.path)) else fp
    elif outcome == ["raised", "LoadingError"]:
        rec["origin"] = "checkout"
    if obj is not None and package == PKG and outcome[1] < len(repo.commits) and not (case.get("preimport") and rec["origin"] != "checkout"):
        try:
            if not inspect_mode:
                rec["obj_problems"] = check_returned_object(repo, obj, outcome[1], env)
            probs, rec["lines_queries"], rec["audit"] = audit_returned(repo.path, repo.commits[outcome[1]]["sha"], obj, env)
            rec["obj_problems"] += probs
        except Exception as e:  # noqa: BLE001
            rec["obj_problems"] = [f"{type(e).__name__}: {e}"]
    return rec


def model_input_load(repo, rec, isrepo=True):
    case = rec["case"]
    plan = {int(k): v for k, v in case["events"].items()}
    n = case.get("n_points", 0)
    tree = repo.tree(case["package"])
    if case.get("preimport") and rec.get("origin") == "working-tree":
        # what load() finds is decided by the import model (compared in syspath_stream): with the package cached in
        # sys.modules the loader's view of that commit is "a package"
        tree = [[i, "package" if i == repo.loadable(case["ref"]) else k] for i, k in tree]
    return ["load_git", GUARD, True, isrepo, rec["before_abs"], case["faults"], rec["pid"], case["ref"], tree,
            events_for_model(plan, n)]


def diff_obs(a, b):
    return {k: {"before": a[k], "after": b[k]} for k in a if a[k] != b[k]}


def judge_load(ctx, repo, rec, mout, label):
    """Correspondence (model vs implementation) and direct evaluation of the property for one load_git run."""
    case = rec["case"]
    cj = dict(case, repo=repo.spec(), kind="load_git")
    ctrl = rec["ctrl"]
    nontrivial = case["faults"] != NO_FAULTS or bool(case["events"]) or case["package"] != PKG or any(ch in case["ref"] for ch in "/@~") \
        or rec["outcome"][0] == "raised"
    ctx.case(cj, nontrivial)
    ctx.observe("load.stream", label)
    ctx.observe("load.outcome", ":".join(map(str, rec["outcome"])) if rec["outcome"][0] == "raised" else "returned")
    for step, i in list(STEP_INDEX.items()) + [("rmtree", RMTREE)]:
        if case["faults"][i] != OK:
            ctx.observe("load.fault", f"{step}:{case['faults'][i][0]}" + ("+exc" if case["faults"][i][0] == "torn" and len(case["faults"][i]) > 1 else ""))
    if case["faults"][1]:
        ctx.observe("load.fault", "mkdtemp")
    if case["faults"][RMTREE] != OK and ctrl.tmp_names.get(1) and not any(ph == 1 for ph, _ in ctrl.rmtree_calls):
        ctx.tie_failure("correspondence", "removal of the temporary directory", "the temporary directory was created but no shutil.rmtree of it was "
                        "observed: the planned fault on its removal could not be placed (the model removes it on every exit)", cj)
    for a in case["events"].values():
        ctx.observe("load.event", a[0] + (":" + a[1] if len(a) > 1 else ""))
    if ctrl.unknown:
        ctx.tie_failure("correspondence", "git call not in the modelled protocol", ctrl.unknown[:5], cj)
    late = [p for ph, pts in ctrl.points.items() if ph != 1 for p in pts]
    if late:
        ctx.tie_failure("correspondence", "loader stage outside the temporary worktree",
                        {"what": "the model runs every loader stage inside `with tmp_worktree`; these ran after the cleanup", "stages": late[:5]}, cj)
    if ctrl.locations.get(1):
        relloc = os.path.relpath(ctrl.locations[1], repo.env.tmp).split(os.sep)
        if len(relloc) != 2 or not relloc[0].startswith("griffe-worktree-") or relloc[1] != py_checkout_name(case["ref"]):
            ctx.tie_failure("correspondence", "checkout location vs checkout_parts / checkout_name (model)",
                            {"impl": relloc, "expected": ["griffe-worktree-*", py_checkout_name(case["ref"])]}, cj)
    if case.get("inspect") and rec["outcome"][0] == "returned" and not ctrl.dirty_at_remove.get(1):
        ctx.tie_failure("harness", "inspection scenario", "forced inspection left no __pycache__ in the checkout: scenario not exercised", cj)
    wrote_planned = any(a[0] == "write" for i, a in case["events"].items() if int(i) < rec["n_points"]) and rec["outcome"][0] == "returned"
    if wrote_planned and 1 in ctrl.dirty_at_remove and not ctrl.dirty_at_remove[1]:
        ctx.tie_failure("harness", "write event", "a planned write did not dirty the checkout", cj)
    changed = diff_obs(rec["before"], rec["after"])
    # ---- direct evaluation (no model needed except for the classification, mirrored in python)
    pycls = py_classify(rec["before_abs"], case["ref"], case["faults"], True)
    cls = pycls
    if mout is not None:
        mstate, mres, mcls, mwf, mfresh = mout
        cls = mcls
        ctx.observe("load.class", mcls)
        if mcls != pycls:
            ctx.tie_failure("harness", "classify mirror", {"model": mcls, "python": pycls}, cj)
        if not mwf or (not mfresh and not case.get("collide")):
            ctx.tie_failure("harness", "generated state violates wf/fresh", {"wf": mwf, "fresh": mfresh}, cj)
        if case.get("collide"):
            ctx.observe("load.collision", f"{case['collide']}:fresh={bool(mfresh)}:{rec['outcome'][1]}")
            if mfresh:
                ctx.tie_failure("harness", "collision scenario", "mkdtemp did not return the name of the stale registration: scenario not exercised", cj)
        if canon_state(mstate) != rec["after_abs"]:
            ctx.tie_failure("correspondence", "load_git final state (model) vs repository after griffe.load_git",
                            {"diff": state_diff(canon_state(mstate), rec["after_abs"]), "outcome": rec["outcome"]}, cj)
        if mres != rec["outcome"]:
            ctx.tie_failure("correspondence", "load_git outcome (model) vs griffe.load_git", {"model": mres, "impl": rec["outcome"]}, cj)
    # a directory left in TMPDIR is a failure on every path but one: its removal itself was made to fail
    rm_failed = case["faults"][RMTREE][0] in ("raise-before", "torn")
    tmp_left = rec["after"]["tmp"] != rec["before"]["tmp"]
    if tmp_left and not rm_failed:
        ctx.property_failure(cj, {"what": "temporary directory left behind", "tmp": rec["after"]["tmp"], "outcome": rec["outcome"]})
    elif tmp_left:
        ctx.count("excluded_rmtree_fault_residue")
    main_changed = {k: v for k, v in changed.items() if k in MAIN_KEYS}
    if main_changed:
        ctx.property_failure(cj, {"what": "main worktree touched", "diff": main_changed})
    repo_changed = {k: v for k, v in changed.items() if k != "tmp"}
    if case.get("collide"):
        repo_changed = {}      # the hypothesis `fresh` of the theorems does not hold: correspondence with the model only
    if repo_changed and not main_changed and not (tmp_left and not rm_failed):
        if cls == "benign" or (cls == "excluded-rmtree-fault" and py_classify(rec["before_abs"], case["ref"], case["faults"][:RMTREE] + [OK], True) == "benign"):
            ctx.property_failure(cj, {"what": "repository not restored", "diff": repo_changed, "outcome": rec["outcome"]})
        elif cls == "gap-add-after":
            # known finding F2 -- attributed only when the faithful model reproduces the very same residue
            if mout is None or canon_state(mout[0]) == rec["after_abs"]:
                ctx.property_failure(cj, {"what": "repository not restored", "diff": repo_changed}, finding="C20-F2")
            else:
                ctx.property_failure(cj, {"what": "repository not restored, and not the way finding C20-F2 leaves it", "diff": repo_changed,
                                          "model": state_diff(canon_state(mout[0]), rec["after_abs"])})
        else:
            ctx.count("excluded_cleanup_fault_residue")
    if rec["obj_problems"]:
        ctx.property_failure(cj, {"what": "returned object not self-contained after cleanup", "problems": rec["obj_problems"][:4]})
    if rec["audit"]:
        ctx.observe("load.audited", ("inspected" if case.get("inspect") else "static") + f":modules={rec['audit']['modules']}:symlinked={rec['audit']['symlinked']}:spans={'some' if rec['audit']['spans'] else 'none'}")
    if rec["lines_queries"] and mout is not None:
        # the lines model (visit_files, obj_lines / obj_source on the EMPTY file system) against what the objects give
        for (q, got, path), m in zip(rec["lines_queries"], ctx.model([q for q, _, _ in rec["lines_queries"]])):
            ctx.count("lines_queries")
            if m != got:
                ctx.tie_failure("correspondence", "obj_lines / obj_source (model, file system without the checkout) vs Object.lines after load_git returned",
                                {"object": path, "span": q[4:], "model": m[:3], "impl": got[:3]}, cj)
    if rec["outcome"] == ["raised", "HarnessTimeout"]:
        ctx.tie_failure("harness", "watchdog", "load_git did not return", cj)
    ctx.count("load_cases")
    return bool(changed)


def run_load_batch(ctx, env, repo, cases, label):
    recs = []
    for case in cases:
        rec = run_load_case(env, repo, case)
        recs.append(rec)
        if diff_obs(rec["before"], rec["after"]):
            repo.restore()
    try:
        mouts = ctx.model([model_input_load(repo, r) for r in recs])
    except Exception as e:  # model unavailable: direct evaluation only
        if type(e).__name__ != "ModelUnavailable":
            raise
        mouts = [None] * len(recs)
    for rec, mo in zip(recs, mouts):
        if mo == ["bad-input"]:
            ctx.tie_failure("harness", "model rejected the input", model_input_load(repo, rec)[4:7], rec["case"])
            mo = None
        judge_load(ctx, repo, rec, mo, label)
    return recs


def import_model_input(repo, rec):
    """The import system of the calling process for one `importable-working-tree` case, as the import model sees it:
    directory 0 = the search path inside the checkout, 1 = the package's parent directory in the user's working tree (first on
    sys.path), 9 = the rest of sys.path; byte code on."""
    c = rec["case"]
    kind = repo.commits[repo.loadable(c["ref"])]["kind"]
    provides = [[1, PKG]] + ([[0, PKG]] if kind != "absent" else [])
    proc = [[1, 9], [[PKG, 1]] if c.get("preimport") else [], provides, True]
    return ["import-load", proc, PKG, 0, [0], True]


def syspath_stream(ctx, env, repo):
    if repo.work["kind"] != "package":
        ctx.observe("syspath.stream", "skipped: no package in the working tree")
        return
    cases, cli = [], None
    for k, c in enumerate(repo.commits):
        if c["kind"] != "package":
            cases.append(load_case(c["sha"], syspath=True))
            cases.append(load_case(c["sha"][:8], syspath=True, faults=faults(remove=["fail-after"]), repo_arg="."))
            cases.append(load_case(c["sha"], syspath=True, preimport=True))        # ... and has already imported it
            if c["kind"] == "absent":
                cli = cli or c["sha"]
    k = repo.head_idx
    cases.append(load_case(repo.commits[k]["sha"], syspath=True))                 # present: nothing but the checkout may be read
    cases.append(load_case(repo.commits[k]["sha"], syspath=True, inspect=True, expect=k))
    cases.append(load_case(repo.commits[k]["sha"], syspath=True, preimport=True))
    recs = run_load_batch(ctx, env, repo, cases, "importable-working-tree")
    try:
        mouts = ctx.model([import_model_input(repo, r) for r in recs])
    except Exception as e:
        if type(e).__name__ != "ModelUnavailable":
            raise
        mouts = [None] * len(recs)
    for rec, mo in zip(recs, mouts):
        cj = dict(rec["case"], repo=repo.spec(), kind="load_git")
        kind = repo.commits[repo.loadable(rec["case"]["ref"])]["kind"]
        wrote = "__pycache__" in rec["after"]["files"] and "__pycache__" not in rec["before"]["files"]
        ctx.observe("syspath.stream", f"{kind}{'+cached' if rec['case'].get('preimport') else ''}:"
                    f"{rec['outcome'][1] if rec['outcome'][0] == 'raised' else 'returned from ' + str(rec['origin'])}")
        if not rec["syspath_restored"]:
            ctx.property_failure(cj, {"what": "sys.path of the calling process is not what it was after load_git"})
        escaped = rec["outcome"][0] == "returned" and (kind != "package" or rec["origin"] != "checkout")
        if mo is not None:
            origin = {"found-on-disk": "checkout", "imported": None, "not-found": None}[mo[0][0]]
            if mo[0][0] == "imported":
                origin = "checkout" if mo[0][1] == 0 else "working-tree"
            impl = [rec["origin"], wrote]
            model = [origin, any(d == 1 for d, _m in mo[1])]
            if impl != model:
                ctx.tie_failure("correspondence", "load_top (import model: where the package comes from, byte code written in the working tree) vs griffe.load_git",
                                {"model": model, "impl": impl, "outcome": rec["outcome"]}, cj)
            if mo[2] != [1, 9]:
                ctx.tie_failure("correspondence", "sys.path after load_top (import model)", mo[2], cj)
            if rec["case"].get("preimport") and model == impl:
                # The package is already in sys.modules of the calling process: the hypothesis of the import theorem does not
                # hold, and the expected outcome is whatever the extracted import model says (C20_cached_package_escapes: the
                # cached module is handed back). Not a violation of the property as stated -- nothing is written, nothing is
                # left, the objects are usable --: an observation; the untouched-repository / TMPDIR clauses are checked by
                # judge_load as for every case.
                ctx.count("cached_package_cases_as_model_predicts")
                continue
        if escaped:
            ctx.property_failure(cj, {"what": "load_git returned a package that does not come from the checkout of that reference",
                                      "origin": rec["origin"], "commit kind": kind, "outcome": rec["outcome"]})
    if cli:
        run_cli(ctx, env, repo, cli, None, importable=True)
        repo.restore()      # whatever that run may have written into the working tree


def witness_f5(env, repo):
    """Observation (not a finding): the package is in sys.modules (imported from the working tree) and absent at the reference: load_git returns it."""
    if repo.work["kind"] != "package":
        return None
    k = next((i for i, c in enumerate(repo.commits) if c["kind"] == "absent"), None)
    if k is None:
        return None
    rec = run_load_case(env, repo, load_case(repo.commits[k]["sha"], syspath=True, preimport=True))
    changed = diff_obs(rec["before"], rec["after"])
    if changed:
        repo.restore()
    return rec["outcome"][0] == "returned" and rec["origin"] == "working-tree" and not changed


def load_case(ref, package=PKG, faults=None, events=None, n_points=0, **kw):
    return dict({"ref": ref, "package": package, "faults": faults or [list(x) if isinstance(x, list) else x for x in NO_FAULTS],
                 "events": {str(k): v for k, v in (events or {}).items()}, "n_points": n_points}, **kw)


FAULT_KINDS = [["fail-before"], ["fail-after"], ["raise-before", "Injected"], ["raise-before", "KeyboardInterrupt"],
               ["raise-after", "Injected"], ["raise-after", "KeyboardInterrupt"]]
TORN_KINDS = [["torn"], ["torn", "KeyboardInterrupt"], ["torn", "Injected"]]        # add and remove only: the calls with two halves
RM_KINDS = [[k, e] for k in ("raise-before", "torn", "raise-after") for e in ("OSError", "KeyboardInterrupt")]
GIT_STEPS = [s for s in STEP_INDEX if GUARD or s != "list"]                          # `branch --list` exists in the repaired variant only


def fault_kinds(step, full):
    i = STEP_INDEX[step]
    torn = TORN_KINDS if step in ("add", "remove") else []
    if full:
        return FAULT_KINDS + torn
    e1, e2 = ("Injected", "KeyboardInterrupt") if i % 2 else ("KeyboardInterrupt", "Injected")
    return [["fail-before"], ["fail-after"], ["raise-before", e1], ["raise-after", e2]] + torn[:2]


def single_fault_cases(ref, n_points, rng, full):
    """Every single-fault placement on the git calls and on the removal of the temporary directory, with a clean and with a dirty body."""
    out = []
    for step in GIT_STEPS:
        for fk in fault_kinds(step, full):
            for dirty in (False, True):
                ev = {rng.randrange(n_points): ["write"]} if dirty and n_points else {}
                out.append(load_case(ref, faults=faults(**{step: fk}), events=ev, n_points=n_points))
    for k, fk in enumerate(RM_KINDS):
        if full or k % 2 == 0 or fk[0] == "torn":
            ev = {rng.randrange(n_points): ["write"]} if k % 2 and n_points else {}
            out.append(load_case(ref, faults=faults(rmtree=fk), events=ev, n_points=n_points))
    out.append(load_case(ref, faults=faults(mkdtemp=True), n_points=n_points))
    return out


def pair_fault_cases(ref, n_points, rng):
    """Two faults at once where the second decides what the first leaves: a fault on `worktree add` / on a cleanup call
    together with a failing removal of the temporary directory, and a torn call followed by a failing cleanup call."""
    out = []
    for add in (["fail-after"], ["torn", "KeyboardInterrupt"], ["fail-before"]):
        out.append(load_case(ref, faults=faults(add=add, rmtree=rng.choice(RM_KINDS)), n_points=n_points))
    for rm in (["torn"], ["fail-before"], ["raise-after", "Injected"]):
        out.append(load_case(ref, faults=faults(remove=rm, rmtree=rng.choice(RM_KINDS)), n_points=n_points))
    out.append(load_case(ref, faults=faults(remove=["torn"], branchD=["fail-before"]), n_points=n_points))
    out.append(load_case(ref, faults=faults(add=["torn"], remove=["raise-before", "Injected"]), n_points=n_points))
    out.append(load_case(ref, faults=faults(branchD=["fail-before"], rmtree=["raise-before", "OSError"]), events={0: ["write"]} if n_points else {}, n_points=n_points))
    return out


def event_cases(ref, n_points, indices):
    out = []
    for i in indices:
        for action in (["raise", "Injected"], ["raise", "KeyboardInterrupt"], ["write"]):
            out.append(load_case(ref, events={i: action}, n_points=n_points))
        if i + 1 < n_points:
            out.append(load_case(ref, events={i: ["write"], i + 1: ["raise", "Injected"]}, n_points=n_points))
    return out


def random_fault(rng, p=0.25, torn=False):
    if rng.random() > p:
        return OK
    return list(rng.choice(FAULT_KINDS + (TORN_KINDS if torn else [])))


def random_rmfault(rng, p=0.08):
    return list(rng.choice(RM_KINDS)) if rng.random() < p else OK


def random_load_case(rng, repo, n_points_by_commit):
    ref, k = rng.choice(repo.ref_pool())
    package = PKG if rng.random() < 0.9 else ABSENT_PKG
    F = [random_fault(rng, 0.1), rng.random() < 0.05, random_fault(rng, 0.1) if GUARD else OK, random_fault(rng, 0.2, torn=True),
         random_fault(rng, torn=True), random_fault(rng), random_rmfault(rng)]
    n = n_points_by_commit.get(k, 0) if package == PKG else 0
    ev = {}
    for _ in range(rng.choice([0, 0, 1, 1, 2, 3])):
        idx = rng.randrange(max(n, 4))
        ev[idx] = rng.choice([["write"], ["write"], ["raise", "Injected"], ["raise", "KeyboardInterrupt"], ["step"]])
    return load_case(ref, package=package, faults=F, events=ev, n_points=n, repo_arg=rng.choice(["abs", "."]))


# --------------------------------------------------------------------------------------------- check()

def run_check_case(env, repo: Repo, case):
    import _griffe.cli as cli
    F1, F2 = case["F1"], case["F2"]
    plans = {0: {"tag": case["f_tag"], "root": case["f_root"]},
             1: {step: F1[i] for step, i in STEP_INDEX.items()}, 2: {step: F2[i] for step, i in STEP_INDEX.items()}}
    ctrl = Control(env, plans, {1: {int(k): v for k, v in case["events1"].items()}, 2: {int(k): v for k, v in case["events2"].items()}},
                   {1: F1[1], 2: F2[1]}, {1: F1[RMTREE], 2: F2[RMTREE]})
    before = observe(repo)
    before_abs = abstract(repo, before)
    os.chdir(repo.path)
    ext = make_extension(ctrl)
    err = io.StringIO()
    saved_streams = (sys.stdout, sys.stderr)
    with injected(ctrl):
        try:
            sys.stderr = err
            with watchdog(90):
                rc = cli.check(PKG, case["against"], base_ref=case["base"], search_paths=[repo.layout], extensions=[ext], color=False)
            outcome = ["returned", rc]
        except BaseException as e:  # noqa: BLE001
            outcome = ["raised", exc_name(e)]
        finally:
            try:
                import colorama.initialise as ci
                ci.deinit()
                ci.orig_stdout = ci.orig_stderr = ci.wrapped_stdout = ci.wrapped_stderr = None   # do not let the next init() resurrect this run's streams
            except Exception:  # noqa: BLE001
                pass
            sys.stdout, sys.stderr = saved_streams
    os.chdir(env.cwd)
    p1, p2 = repo.fresh_pid(), repo.fresh_pid()
    if ctrl.tmp_names.get(1):
        repo.bind_tmp(ctrl.tmp_names[1], p1)
    if ctrl.tmp_names.get(2):
        repo.bind_tmp(ctrl.tmp_names[2], p2)
    after = observe(repo)
    return {"case": case, "before": before, "after": after, "before_abs": before_abs, "after_abs": abstract(repo, after),
            "outcome": outcome, "p1": p1, "p2": p2, "ctrl": ctrl, "stderr": err.getvalue()}


def model_input_check(repo, rec):
    c = rec["case"]
    ev1 = events_for_model({int(k): v for k, v in c["events1"].items()}, c.get("n1", 0))
    ev2 = events_for_model({int(k): v for k, v in c["events2"].items()}, c.get("n2", 0))
    args = [[c["against"]] if c["against"] else [], [repo.latest_tag] if repo.latest_tag else [], [c["base"]] if c["base"] else [],
            repo.work["kind"], repo.head_idx, c["f_tag"], c["f_root"], False, c["F1"], c["F2"], rec["p1"], rec["p2"], ev1, ev2]
    return ["check", GUARD, True, True, rec["before_abs"], args, repo.tree(PKG), repo.breaking_table()]


def expected_locations(repo):
    """Repository-relative paths of the files of the generated package."""
    pre = "" if repo.layout == "." else repo.layout + "/"
    return [f"{pre}{PKG}/__init__.py", f"{pre}{PKG}/sub.py"]


def judge_check(ctx, repo, rec, mout):
    c = rec["case"]
    cj = dict(c, repo=repo.spec(), kind="check")
    faulted = c["F1"] != NO_FAULTS or c["F2"] != NO_FAULTS or c["f_tag"] != OK or c["f_root"] != OK or c["events1"] or c["events2"]
    ctx.case(cj, True)
    ctx.observe("check.outcome", ":".join(map(str, rec["outcome"])))
    ctx.observe("check.sides", ("latest-tag" if not c["against"] else "against") + "/" + ("base-ref" if c["base"] else "working-tree"))
    if rec["ctrl"].unknown:
        ctx.tie_failure("correspondence", "git call not in the modelled protocol", rec["ctrl"].unknown[:5], cj)
    changed = diff_obs(rec["before"], rec["after"])
    against = c["against"] or repo.latest_tag
    cls1 = py_classify(rec["before_abs"], against, c["F1"], True) if against else "benign"
    cls2 = py_classify(rec["before_abs"], c["base"], c["F2"], True) if c["base"] else "benign"
    if mout is not None:
        mstate, mres = mout
        if canon_state(mstate) != rec["after_abs"]:
            ctx.tie_failure("correspondence", "check final state (model) vs repository after _griffe.cli.check",
                            {"diff": state_diff(canon_state(mstate), rec["after_abs"]), "outcome": rec["outcome"]}, cj)
        if mres != rec["outcome"]:
            ctx.tie_failure("correspondence", "check outcome (model) vs _griffe.cli.check", {"model": mres, "impl": rec["outcome"], "stderr": rec["stderr"][-300:]}, cj)
    rm_failed = any(F[RMTREE][0] in ("raise-before", "torn") for F in (c["F1"], c["F2"]))
    tmp_left = rec["after"]["tmp"] != rec["before"]["tmp"]
    repo_changed = {k: v for k, v in changed.items() if k != "tmp"}
    if tmp_left and not rm_failed:
        ctx.property_failure(cj, {"what": "temporary directory left behind by check", "tmp": rec["after"]["tmp"]})
    elif repo_changed:
        excl = ("excluded-cleanup-fault", "excluded-rmtree-fault")
        if any(k in MAIN_KEYS for k in changed):
            ctx.property_failure(cj, {"what": "main worktree touched by check", "diff": changed})
        elif cls1 == "benign" and cls2 == "benign":
            ctx.property_failure(cj, {"what": "repository not restored by check", "diff": repo_changed, "outcome": rec["outcome"]})
        elif "gap-add-after" in (cls1, cls2) and cls1 not in excl and cls2 not in excl:
            if mout is None or canon_state(mout[0]) == rec["after_abs"]:
                ctx.property_failure(cj, {"what": "repository not restored by check", "diff": repo_changed}, finding="C20-F2")
            else:
                ctx.property_failure(cj, {"what": "repository not restored by check, and not the way finding C20-F2 leaves it", "diff": repo_changed})
    # exit code against the construction oracle, when nothing was injected
    if not faulted and against:
        ko = repo.loadable(against)
        kn = repo.head_idx if not c["base"] else repo.loadable(c["base"])
        if ko is not None and kn is not None and repo.commits[ko]["kind"] == "package" and repo.commits[kn]["kind"] == "package":
            want = 1 if breaking_commits(repo.commits[ko], repo.commits[kn]) else 0
            ctx.observe("check.oracle_exit", want)
            if rec["outcome"] != ["returned", want]:
                ctx.property_failure(cj, {"what": "exit code", "griffe": rec["outcome"], "expected": want, "stderr": rec["stderr"][-400:]})
            # reported locations are repository-relative
            exp = expected_locations(repo)
            for line in rec["stderr"].splitlines():
                if ": " in line and line.split(":")[0].endswith(".py"):
                    loc = line.split(":")[0]
                    ctx.count("check_locations_seen")
                    if loc not in exp:
                        ctx.property_failure(cj, {"what": "breakage location", "griffe": loc, "expected": exp})
    ctx.count("check_cases")


def random_check_case(rng, repo, n_points_by_commit, faulty):
    pool = [(r, k) for r, k in repo.ref_pool()]
    good = [(r, k) for r, k in pool if k is not None and repo.commits[k]["kind"] == "package"]
    pick = (lambda: rng.choice(good)) if rng.random() < 0.75 and good else (lambda: rng.choice(pool))
    against, ka = pick() if rng.random() < 0.75 else (None, repo.loadable(repo.latest_tag))
    base, kb = pick() if rng.random() < 0.75 else (None, repo.head_idx)
    fz = lambda p: random_fault(rng, p) if faulty else OK  # noqa: E731
    fzt = lambda p: random_fault(rng, p, torn=True) if faulty else OK  # noqa: E731
    frm = lambda: random_rmfault(rng, 0.05) if faulty else OK  # noqa: E731
    F1 = [fz(0.05), faulty and rng.random() < 0.03, fz(0.05) if GUARD else OK, fzt(0.12), fzt(0.15), fz(0.15), frm()]
    F2 = [fz(0.05), faulty and rng.random() < 0.03, fz(0.05) if GUARD else OK, fzt(0.12), fzt(0.15), fz(0.15), frm()]
    n1, n2 = n_points_by_commit.get(ka, 0), n_points_by_commit.get(kb, 0)
    ev1, ev2 = {}, {}
    if faulty:
        for ev, n, allow_write in ((ev1, n1, True), (ev2, n2, base is not None)):
            for _ in range(rng.choice([0, 0, 0, 1, 2])):
                acts = [["raise", "Injected"], ["raise", "KeyboardInterrupt"]] + ([["write"], ["write"]] if allow_write else [])
                ev[str(rng.randrange(max(n, 3)))] = rng.choice(acts)
    return {"against": against, "base": base, "F1": F1, "F2": F2, "f_tag": fz(0.2) if against is None else OK, "f_root": fz(0.05),
            "events1": ev1, "events2": ev2, "n1": n1, "n2": n2}


def run_check_batch(ctx, env, repo, cases):
    recs = []
    for case in cases:
        rec = run_check_case(env, repo, case)
        recs.append(rec)
        if diff_obs(rec["before"], rec["after"]):
            repo.restore()
    try:
        mouts = ctx.model([model_input_check(repo, r) for r in recs])
    except Exception as e:
        if type(e).__name__ != "ModelUnavailable":
            raise
        mouts = [None] * len(recs)
    for rec, mo in zip(recs, mouts):
        if mo == ["bad-input"]:
            ctx.tie_failure("harness", "model rejected the check input", None, rec["case"])
            mo = None
        judge_check(ctx, repo, rec, mo)


# --------------------------------------------------------------------------------------------- end-to-end CLI

def run_cli(ctx, env, repo, against, base, importable=False):
    before = observe(repo)
    cmd = [sys.executable, "-m", "griffe", "check", PKG, "-s", repo.layout]
    if against:
        cmd += ["-a", against]
    if base:
        cmd += ["-b", base]
    e = dict(os.environ, NO_COLOR="1")
    if importable:
        # the package of the working tree is importable in the CLI process and byte-code writing is on (the defaults of a
        # user who runs `python -m griffe check` in a checkout installed in development mode)
        e.pop("PYTHONDONTWRITEBYTECODE", None)
        e["PYTHONPATH"] = e.get("PYTHONPATH", "") + os.pathsep + str(repo.path if repo.layout == "." else repo.path / repo.layout)
    p = _real_run(cmd, cwd=repo.path, capture_output=True, text=True, timeout=120, env=e)
    after = observe(repo)
    cj = {"kind": "cli", "repo": repo.spec(), "against": against, "base": base, "importable": importable}
    ctx.observe("cli.importable", importable)
    ctx.case(cj, True)
    ko = repo.loadable(against or repo.latest_tag)
    kn = repo.head_idx if not base else repo.loadable(base)
    changed = diff_obs(before, after)
    if changed:
        ctx.property_failure(cj, {"what": "python -m griffe check changed the repository or left a temp dir", "diff": changed})
    if ko is None or kn is None or repo.commits[ko]["kind"] != "package" or repo.commits[kn]["kind"] != "package":
        ctx.observe("cli.exit", f"error-path:{p.returncode}")
        if p.returncode == 0:
            ctx.property_failure(cj, {"what": "exit code 0 although a side could not be loaded", "stderr": p.stderr[-300:]})
    else:
        want = 1 if breaking_commits(repo.commits[ko], repo.commits[kn]) else 0
        ctx.observe("cli.exit", f"{want}")
        if p.returncode != want:
            ctx.property_failure(cj, {"what": "exit code of python -m griffe check", "got": p.returncode, "expected": want, "stderr": p.stderr[-400:]})
        locs = [l.split(":")[0] for l in p.stderr.splitlines() if ": " in l and l.split(":")[0].endswith(".py")]
        if want and (not locs or any(l not in expected_locations(repo) for l in locs)):
            ctx.property_failure(cj, {"what": "breakage location not repository-relative", "stderr": p.stderr[-400:]})
    ctx.count("cli_cases")


# --------------------------------------------------------------------------------------------- end-to-end CLI with faults at the process boundary

SHIM = r"""#!/bin/sh
# Stands in for `git` on PATH while `python -m griffe check` runs end to end: a plan file says which git call of which
# load (phase) fails, is interrupted (SIGINT to the calling Python process, i.e. a real Ctrl-C) or is torn.
REAL="$C20_REAL_GIT"
PLAN="$C20_SHIM_PLAN"
if [ -z "$PLAN" ] || [ ! -f "$PLAN" ]; then exec "$REAL" "$@"; fi
w1=""; w2=""; skip=0; repo="."; takec=0; last=""; nb=0; b=""; loc=""
for a in "$@"; do
  last="$a"
  if [ $nb -eq 2 ]; then loc="$a"; nb=0; fi
  if [ $nb -eq 1 ]; then b="$a"; nb=2; fi
  if [ "$a" = "-b" ]; then nb=1; fi
  if [ $takec -eq 1 ]; then repo="$a"; takec=0; continue; fi
  if [ $skip -eq 1 ]; then skip=0; continue; fi
  if [ -z "$w1" ] && [ "$a" = "-C" ]; then takec=1; continue; fi
  if [ -z "$w1" ] && [ "$a" = "-c" ]; then skip=1; continue; fi
  if [ -z "$w1" ]; then w1="$a"; continue; fi
  if [ -z "$w2" ]; then w2="$a"; fi
done
case "$w1 $w2" in
  "rev-parse --is-inside-work-tree") step=assert;;
  "rev-parse --show-toplevel") step=root;;
  "worktree add") step=add;;
  "worktree remove") step=remove;;
  "branch -D") step=branchD;;
  "branch --list") step=list;;
  "tag -l") step=tag;;
  *) step="unknown:$w1-$w2";;
esac
phase=$(cat "$PLAN.phase" 2>/dev/null || echo 0)
if [ "$step" = assert ]; then phase=$((phase + 1)); echo $phase > "$PLAN.phase"; fi
p=$phase
if [ "$step" = tag ] || [ "$step" = root ]; then p=0; fi
if [ "$step" != add ]; then loc="$last"; fi
echo "$phase $step $loc" >> "$PLAN.log"
line=$(grep "^$p $step " "$PLAN" | head -1)
set -- "$@"
fault=$(echo "$line" | cut -d' ' -f3)
exc=$(echo "$line" | cut -d' ' -f4)
interrupt() { kill -INT $PPID; sleep 5; exit 130; }
case "$fault" in
  "") exec "$REAL" "$@";;
  fail-before) exit 1;;
  fail-after) "$REAL" "$@" >/dev/null 2>&1; exit 1;;
  raise-before) interrupt;;
  raise-after) "$REAL" "$@" >/dev/null 2>&1; interrupt;;
  torn)
    if [ "$step" = add ]; then
      "$REAL" -C "$repo" branch "$b" "$last" >/dev/null 2>&1
    elif [ "$step" = remove ]; then
      if "$REAL" -C "$repo" worktree list --porcelain | awk -v loc="$last" '$1=="worktree"{cur=($2==loc)} cur&&$1=="locked"{l=1} $1=="worktree"&&$2==loc{f=1} END{exit !(f&&!l)}'; then
        rm -rf "$last"
      fi
    fi
    if [ -n "$exc" ]; then interrupt; fi
    exit 1;;
  *) exec "$REAL" "$@";;
esac
"""

CLI_EXT = r'''"""Extension used by the end-to-end runs: acts at the planned hook indices of each load (phase = number of
`rev-parse --is-inside-work-tree` calls the git shim has seen so far)."""
import json, os
import griffe

_PLAN = json.loads(os.environ.get("C20_EXT_PLAN", "{}"))
_SEEN = {}


def _point():
    plan_file = os.environ["C20_SHIM_PLAN"]
    try:
        phase = open(plan_file + ".phase").read().strip()
    except OSError:
        phase = "0"
    log = open(plan_file + ".log").read().splitlines() if os.path.exists(plan_file + ".log") else []
    adds = [l.split(" ", 2) for l in log if l.split(" ")[1] == "add"]
    done = [l for l in log if l.split(" ")[1] == "branchD" and l.split(" ")[0] == phase]
    if done:                      # hooks after the cleanup of this phase belong to the working-tree load
        phase = str(int(phase) + 1)
    idx = _SEEN.get(phase, 0)
    _SEEN[phase] = idx + 1
    action = _PLAN.get(phase, {}).get(str(idx))
    with open(plan_file + ".points", "a") as fh:
        fh.write(f"{phase} {idx}\n")
    if not action or action[0] == "step":
        return
    if action[0] == "write":
        loc = next((a[2] for a in adds if a[0] == phase), None)
        if loc and os.path.isdir(loc):
            open(os.path.join(loc, f"c20_written_{idx}.txt"), "w").write("left by an extension\n")
        return
    raise (KeyboardInterrupt("injected") if action[1] == "KeyboardInterrupt" else RuntimeError("injected"))


class C20CliExtension(griffe.Extension):
    def __getattribute__(self, name):
        if name.startswith("on_"):
            return lambda *a, **k: _point()
        return object.__getattribute__(self, name)
'''

SHIM_FAULTS = [["fail-before"], ["fail-after"], ["raise-before", "KeyboardInterrupt"], ["raise-after", "KeyboardInterrupt"]]
SHIM_TORN = [["torn"], ["torn", "KeyboardInterrupt"]]


def random_cli_fault_case(rng, repo, n_points_by_commit):
    """A `python -m griffe check` run with faults the git shim / the CLI extension can place: non-zero exit, SIGINT, torn."""
    good = [(r, k) for r, k in repo.ref_pool() if k is not None and repo.commits[k]["kind"] == "package"]
    pool = repo.ref_pool()
    pick = (lambda: rng.choice(good)) if good and rng.random() < 0.8 else (lambda: rng.choice(pool))
    against, ka = pick() if rng.random() < 0.8 else (None, repo.loadable(repo.latest_tag))
    base, kb = pick() if rng.random() < 0.7 else (None, repo.head_idx)

    def fz(step, p):
        if rng.random() > p:
            return OK
        return list(rng.choice(SHIM_FAULTS + (SHIM_TORN if step in ("add", "remove") else [])))
    F1 = faults(**{"assert": fz("assert", 0.05), "add": fz("add", 0.25), "remove": fz("remove", 0.2), "branchD": fz("branchD", 0.2)})
    F2 = faults(**{"assert": fz("assert", 0.05), "add": fz("add", 0.2), "remove": fz("remove", 0.2), "branchD": fz("branchD", 0.2)})
    if GUARD:
        F1[STEP_INDEX["list"]], F2[STEP_INDEX["list"]] = fz("list", 0.08), fz("list", 0.08)
    ev1, ev2 = {}, {}
    for ev, allow_write in ((ev1, True), (ev2, base is not None)):
        if rng.random() < 0.35:
            acts = [["raise", "RuntimeError"], ["raise", "KeyboardInterrupt"]] + ([["write"], ["write"]] if allow_write else [])
            ev[str(rng.randrange(3))] = rng.choice(acts)
    return {"against": against, "base": base, "F1": F1, "F2": F2, "f_tag": fz("tag", 0.15) if against is None else OK, "f_root": fz("root", 0.05),
            "events1": ev1, "events2": ev2, "n1": 0, "n2": 0}


def run_cli_fault_case(ctx, env, repo, case):
    shim_dir = env.root / "shim"
    shim_dir.mkdir(exist_ok=True)
    shim = shim_dir / "git"
    if not shim.exists():
        shim.write_text(SHIM)
        shim.chmod(0o755)
        (shim_dir / "c20_cli_ext.py").write_text(CLI_EXT)
    plan = shim_dir / "plan"
    for f in shim_dir.glob("plan*"):
        f.unlink()
    lines = []
    for step in ("tag", "root"):
        if case["f_" + step] != OK:
            lines.append(f"0 {step} {' '.join(case['f_' + step])}")
    for ph, F in ((1, case["F1"]), (2, case["F2"])):
        for step, i in STEP_INDEX.items():
            if F[i] != OK:
                lines.append(f"{ph} {step} {' '.join(F[i])}")
    plan.write_text("\n".join(lines) + "\n")
    before = observe(repo)
    before_abs = abstract(repo, before)
    cmd = [sys.executable, "-m", "griffe", "check", PKG, "-s", repo.layout, "-e", str(shim_dir / "c20_cli_ext.py")]
    if case["against"]:
        cmd += ["-a", case["against"]]
    if case["base"]:
        cmd += ["-b", case["base"]]
    real_git = shutil.which("git")
    e = dict(os.environ, NO_COLOR="1", PATH=f"{shim_dir}{os.pathsep}{os.environ.get('PATH', '')}", C20_REAL_GIT=real_git, C20_SHIM_PLAN=str(plan),
             C20_EXT_PLAN=json.dumps({"1": case["events1"], "2": case["events2"]}))
    p = _real_run(cmd, cwd=repo.path, capture_output=True, text=True, timeout=120, env=e)
    log = [l.split(" ", 2) for l in (plan.parent / "plan.log").read_text().splitlines()] if (plan.parent / "plan.log").exists() else []
    p1, p2 = repo.fresh_pid(), repo.fresh_pid()
    for ph, pid in (("1", p1), ("2", p2)):
        loc = next((l[2] for l in log if l[0] == ph and l[1] == "add"), None)
        if loc:
            repo.bind_tmp(os.path.relpath(loc, env.tmp).split(os.sep)[0], pid)
    after = observe(repo)
    unknown = sorted({l[1] for l in log if l[1].startswith("unknown")})
    return {"case": case, "before": before, "after": after, "before_abs": before_abs, "after_abs": abstract(repo, after), "rc": p.returncode,
            "stderr": p.stderr, "p1": p1, "p2": p2, "unknown": unknown, "log": log}


def judge_cli_fault(ctx, repo, rec, mout):
    c = rec["case"]
    cj = dict(c, repo=repo.spec(), kind="cli-faults")
    ctx.case(cj, True)
    for F in (c["F1"], c["F2"]):
        for step, i in STEP_INDEX.items():
            if F[i] != OK:
                ctx.observe("cli.fault", f"{step}:{'+'.join(F[i][:1])}{'+sigint' if F[i][0] == 'torn' and len(F[i]) > 1 else ''}")
    for ev in (c["events1"], c["events2"]):
        for a in ev.values():
            ctx.observe("cli.event", ":".join(a))
    ctx.observe("cli.fault_exit", rec["rc"])
    if rec["unknown"]:
        ctx.tie_failure("correspondence", "git call not in the modelled protocol (end to end)", rec["unknown"][:5], cj)
    changed = diff_obs(rec["before"], rec["after"])
    against = c["against"] or repo.latest_tag
    cls1 = py_classify(rec["before_abs"], against, c["F1"], True) if against else "benign"
    cls2 = py_classify(rec["before_abs"], c["base"], c["F2"], True) if c["base"] else "benign"
    if mout is not None:
        mstate, mres = mout
        if canon_state(mstate) != rec["after_abs"]:
            ctx.tie_failure("correspondence", "check final state (model) vs repository after `python -m griffe check` with faults at the process boundary",
                            {"diff": state_diff(canon_state(mstate), rec["after_abs"]), "rc": rec["rc"], "stderr": rec["stderr"][-300:]}, cj)
        ok = (rec["rc"] == mres[1]) if mres[0] == "returned" else (rec["rc"] != 0)
        if not ok:
            ctx.tie_failure("correspondence", "exit code of `python -m griffe check` vs check outcome (model)",
                            {"model": mres, "rc": rec["rc"], "stderr": rec["stderr"][-300:]}, cj)
    if rec["after"]["tmp"] != rec["before"]["tmp"]:
        ctx.property_failure(cj, {"what": "temporary directory left behind by python -m griffe check", "tmp": rec["after"]["tmp"], "rc": rec["rc"]})
    elif changed:
        if any(k in MAIN_KEYS for k in changed):
            ctx.property_failure(cj, {"what": "main worktree touched by python -m griffe check", "diff": changed})
        elif cls1 == "benign" and cls2 == "benign":
            ctx.property_failure(cj, {"what": "repository not restored by python -m griffe check", "diff": changed, "rc": rec["rc"], "stderr": rec["stderr"][-300:]})
        elif "gap-add-after" in (cls1, cls2) and "excluded-cleanup-fault" not in (cls1, cls2):
            if mout is None or canon_state(mout[0]) == rec["after_abs"]:
                ctx.property_failure(cj, {"what": "repository not restored by python -m griffe check", "diff": changed}, finding="C20-F2")
            else:
                ctx.property_failure(cj, {"what": "repository not restored by python -m griffe check, and not the way finding C20-F2 leaves it", "diff": changed})
    if rec["rc"] == 0 and not mout:
        pass
    ctx.count("cli_fault_cases")


def run_cli_fault_batch(ctx, env, repo, cases):
    recs = []
    for case in cases:
        rec = run_cli_fault_case(ctx, env, repo, case)
        recs.append(rec)
        if diff_obs(rec["before"], rec["after"]):
            repo.restore()
    try:
        mouts = ctx.model([model_input_check(repo, r) for r in recs])
    except Exception as e:
        if type(e).__name__ != "ModelUnavailable":
            raise
        mouts = [None] * len(recs)
    for rec, mo in zip(recs, mouts):
        if mo == ["bad-input"]:
            ctx.tie_failure("harness", "model rejected the check input", None, rec["case"])
            mo = None
        judge_cli_fault(ctx, repo, rec, mo)


# --------------------------------------------------------------------------------------------- (O) the model of git vs git

def oracle_sequences(ctx, env, repo, n_seq, length):
    rng = ctx.rng
    work = env.root / "oracle"
    tmp = env.root / "oracle-tmp"
    for s in range(n_seq):
        shutil.rmtree(work, ignore_errors=True)
        shutil.rmtree(tmp, ignore_errors=True)
        shutil.copytree(repo.pristine, work, symlinks=True)
        tmp.mkdir()
        o = OracleRepo(repo, work, tmp)
        refs = [r for r, _ in repo.ref_pool()]
        bnames = ["griffe-a", "griffe-b", "user/wt0", "main"] + [b for b in repo.base_branches if "/" in b][:1]
        steps, real = [], []
        s0 = o.abstract()
        good_ref = next((r for r, k in repo.ref_pool() if k is not None and "/" not in r and r not in repo.base_branches), "HEAD")
        # scripted openings: the situations `worktree add` can meet at its path, each followed by a random continuation
        scripted = [
            [["mkdtemp", 1], ["add", "griffe-a", 1, good_ref], ["rmtree", 1], ["mkdtemp", 1], ["add", "griffe-b", 1, good_ref]],          # missing registered
            [["mkdtemp", 2], ["add", "griffe-a", 2, good_ref], ["lock", 2], ["rmtree", 2], ["mkdtemp", 2], ["add", "griffe-b", 2, good_ref],
             ["branch-D", "griffe-b"], ["remove", True, 2]],                                                                               # missing, locked
            [["occupy", 3], ["add", "griffe-a", 3, good_ref], ["add", "griffe-a", 1, good_ref], ["branch-D", "griffe-a"]],                # foreign directory
            [["mkdtemp", 1], ["add", "griffe-a", 1, good_ref], ["add", "griffe-b", 1, good_ref], ["remove", False, 1], ["branch-D", "griffe-b"]],  # live worktree
            [["mkdtemp", 1], ["add-torn", "griffe-a", 1, good_ref], ["add", "griffe-a", 1, good_ref], ["remove", True, 1], ["branch-D", "griffe-a"]],
            [["mkdtemp", 1], ["add", "griffe-a", 1, "nope"], ["add-torn", "griffe-a", 1, "nope"], ["occupy", 1], ["add", "griffe-a", 1, "nope"]],
            # removal by NAME: unique, then ambiguous between two worktrees, then stale ones still count, then the main worktree's name
            [["mkdtemp", 1], ["add", "griffe-a", 1, good_ref], ["touch", 1], ["remove-named", False, "wt"], ["remove-named", True, "wt"], ["branch-D", "griffe-a"]],
            [["mkdtemp", 1], ["add", "griffe-a", 1, good_ref], ["mkdtemp", 2], ["add", "griffe-b", 2, good_ref], ["remove-named", True, "wt"],
             ["rmtree", 2], ["remove-named", True, "wt"], ["prune"], ["remove-named", True, "wt"]],
            [["mkdtemp", 3], ["add", "griffe-a", 3, good_ref], ["remove-named", True, "oracle"], ["remove", True, 3], ["remove-named", True, "oracle"]],
        ]
        for st in (scripted[s] if s < len(scripted) else []):
            if st[0] in ("add", "add-torn"):
                ctx.observe("oracle.add_path", "live" if o.loc(st[2]).exists() and o.registered(st[2]) else "foreign-dir" if o.loc(st[2]).exists()
                            else "missing-registered" if o.registered(st[2]) else "free")
            steps.append(st)
            ok = o.apply(st)
            real.append([ok, o.abstract()])
        for _ in range(length):
            p = rng.randint(1, 3)
            k = rng.random()
            st = None
            live = [q for q in (1, 2, 3) if o.loc(q).exists()]
            if live and rng.random() < 0.7 and k >= 0.47:
                p = rng.choice(live)                 # aim remove / touch / lock / rmtree at a worktree that exists
            gone = [q for q in (1, 2, 3) if not o.tdir(q).exists() and o.registered(q)]
            if k < 0.12:
                if gone and rng.random() < 0.7:
                    p = rng.choice(gone)             # re-create the parent of a missing registered worktree: the next add meets it
                if not o.tdir(p).exists():          # mkdtemp never returns a name in use
                    st = ["mkdtemp", p]
            elif k < 0.42:
                # any path whose parent directory exists (the way tmp_worktree calls it: mkdtemp first) or that is not
                # registered: free, occupied by a foreign directory, a live worktree, a missing registered worktree
                # (locked or not). With a missing parent git 2.39 registers a second worktree at a registered path.
                occupied = [q for q in (1, 2, 3) if o.tdir(q).exists() and (o.loc(q).exists() or o.registered(q))]
                if occupied and rng.random() < 0.35:
                    p = rng.choice(occupied)
                if o.tdir(p).exists() or not o.registered(p):
                    kind = "add-torn" if rng.random() < 0.12 else "add"
                    st = [kind, rng.choice(bnames[:3]), p, rng.choice(refs)]
                    ctx.observe("oracle.add_path", "live" if o.loc(p).exists() and o.registered(p) else "foreign-dir" if o.loc(p).exists()
                                else "missing-registered" if o.registered(p) else "free")
            elif k < 0.47:
                if not o.loc(p).exists() and not o.registered(p):
                    st = ["occupy", p]
            elif k < 0.50:
                st = ["remove-named", rng.random() < 0.6, rng.choice(["wt", "wt", o.work.name, "nomatch"])]
                ctx.observe("oracle.named", f"{'main-name' if st[2] == o.work.name else st[2]}:registered-with-that-name="
                            f"{sum(1 for q in (1, 2, 3) if o.loc(q).name == st[2] and o.registered(q))}")
            elif k < 0.58:
                st = ["remove", rng.random() < 0.5, p]
            elif k < 0.68:
                st = ["prune"]
            elif k < 0.82:
                st = ["branch-D", rng.choice(bnames[:2] if rng.random() < 0.6 else bnames)]
            elif k < 0.90:
                st = ["rmtree", p]
            elif k < 0.97:
                if not o.loc(p).exists() or (o.loc(p) / ".git").exists():     # only a checkout can become dirty
                    st = ["touch", p]
            else:
                st = ["lock", p]
            if st is None:
                continue
            steps.append(st)
            ok = o.apply(st)
            real.append([ok, o.abstract()])
        try:
            mo = ctx.model([["steps-named", *o.naming(), s0, steps]])[0]
        except Exception as e:
            if type(e).__name__ != "ModelUnavailable":
                raise
            return
        ctx.case({"kind": "git-steps", "repo": repo.spec(), "steps": steps}, True)
        for i, (st, r, m) in enumerate(zip(steps, real, mo)):
            ctx.observe("oracle.step", f"{st[0]}:{'ok' if r[0] else 'refused'}")
            if [bool(m[0]), canon_state(m[1])] != [r[0], r[1]]:
                ctx.tie_failure("oracle", "git model vs git", {"step": i, "cmd": st, "accepted": {"model": bool(m[0]), "git": r[0]},
                                                                "diff": state_diff(canon_state(m[1]), r[1])},
                                {"kind": "git-steps", "repo": repo.spec(), "steps": steps[:i + 1]})
                break
        ctx.count("oracle_sequences")


class OracleRepo:
    """A copy of a generated repository on which raw git steps are executed; path id p <-> <tmp>/griffe-worktree-o<p>/wt."""

    def __init__(self, repo, work, tmp):
        self.repo, self.work, self.tmp = repo, work, tmp
        self.touched = set()

    def tdir(self, p):
        return self.tmp / f"griffe-worktree-o{p}"

    def loc(self, p):
        # path ids 1 and 2 share the last component `wt`; path id 3 has the last component of the main worktree's directory
        return self.tdir(p) / ("wt" if p < 3 else self.work.name)

    def naming(self):
        return [self.work.name, sorted([[p, self.loc(p).name] for p in (1, 2, 3)] + [[self.repo.pathids[path], os.path.basename(path)] for path, _ in self.repo.foreign])]

    def registered(self, p):
        out = git(self.work, "worktree", "list", "--porcelain").stdout
        return any(w["path"] == str(self.loc(p)) for w in parse_worktrees(out))

    def apply(self, st):
        k = st[0]
        if k == "mkdtemp":
            self.tdir(st[1]).mkdir(exist_ok=True)
            return True
        if k == "add":
            return git(self.work, "worktree", "add", "-b", st[1], str(self.loc(st[2])), st[3], check=False).returncode == 0
        if k == "add-torn":        # the first half of `worktree add -b`, as git runs it itself
            git(self.work, "branch", st[1], st[3], check=False)
            return False
        if k == "occupy":
            self.loc(st[1]).mkdir(parents=True)
            (self.loc(st[1]) / "somebody-elses-file").write_text("x\n")
            return True
        if k == "remove":
            a = ["worktree", "remove"] + (["--force"] if st[1] else []) + [str(self.loc(st[2]))]
            return git(self.work, *a, check=False).returncode == 0
        if k == "remove-named":     # the argument is a name, resolved by git against the last component of every worktree
            a = ["worktree", "remove"] + (["--force"] if st[1] else []) + [st[2]]
            return git(self.work, *a, check=False).returncode == 0
        if k == "prune":
            return git(self.work, "worktree", "prune", check=False).returncode == 0
        if k == "branch-D":
            return git(self.work, "branch", "-D", st[1], check=False).returncode == 0
        if k == "rmtree":
            shutil.rmtree(self.tdir(st[1]), ignore_errors=True)
            return True
        if k == "touch":
            if self.loc(st[1]).is_dir():
                (self.loc(st[1]) / "untracked.txt").write_text("x\n")
            return True
        if k == "lock":
            return git(self.work, "worktree", "lock", str(self.loc(st[1])), check=False).returncode == 0
        raise ValueError(k)

    def abstract(self):
        repo = self.repo
        refs = git(self.work, "for-each-ref", "--format=%(refname) %(objectname)", "refs/heads").stdout
        branches = sorted([l.split(" ")[0][11:], repo.sha_idx.get(l.split(" ")[1], 999)] for l in refs.splitlines())
        sym = git(self.work, "symbolic-ref", "-q", "HEAD", check=False).stdout.strip()
        hb = [sym.replace("refs/heads/", "", 1)] if sym else []
        regs, dirs, tmps = [], [], []
        pid_of = {str(self.loc(p)): p for p in (1, 2, 3)}
        for path, _ in repo.foreign:
            pid_of[path] = repo.pathids[path]
        for w in parse_worktrees(git(self.work, "worktree", "list", "--porcelain").stdout)[1:]:
            pid = pid_of.get(w["path"], 777)
            regs.append([pid, [w["branch"]] if w["branch"] else [], w["locked"]])
        for path, pid in pid_of.items():
            if os.path.isdir(path):
                dirs.append([pid, dir_dirty(path) if pid < 4 else False])
        for p in (1, 2, 3):
            if self.tdir(p).is_dir():
                tmps.append(p)
        names = sorted([k, v] for k, v in repo.names().items())
        return [hb, repo.head_idx, 0, branches, names, sorted(regs, key=lambda r: r[0]), sorted(dirs), sorted(tmps)]


# --------------------------------------------------------------------------------------------- _normalize and Breakage._location

REF_ALPHABET = "abzAZ09_-/.@~^{}: +\\"


def check_normalize(ctx, n):
    from _griffe.git import _normalize
    rng = ctx.rng
    refs = ["HEAD", "@", "@~1", "feat/x", "release/1.x", "v1.0", "a//b", "-a-", "--", "", "a b", "refs/heads/main", "fix/a-b/c", "@{-1}", "..", "a\\b"]
    refs += ["".join(rng.choice(REF_ALPHABET) for _ in range(rng.randint(0, 12))) for _ in range(n)]
    outs = ctx.model([["normalize", r] for r in refs])
    for r, m in zip(refs, ctx.model([["checkout-name", r] for r in refs])):
        if m != py_checkout_name(r) or not m or "/" in m:
            ctx.tie_failure("harness", "py_checkout_name mirror", {"model": m, "python": py_checkout_name(r)}, {"ref": r})
    for r, m in zip(refs, outs):
        impl = _normalize(r)
        ctx.case({"kind": "normalize", "ref": r}, bool(r) and impl != r)
        if m != impl:
            ctx.tie_failure("correspondence", "normalize(model) vs _griffe.git._normalize", {"model": m, "impl": impl}, {"ref": r})
        if py_normalize(r) != impl:
            ctx.tie_failure("harness", "py_normalize mirror", {"python": py_normalize(r), "impl": impl}, {"ref": r})
        ctx.count("normalize_cases")
    # outside the ASCII model: the spec alone (the checkout directory must be a single path component)
    for _ in range(n // 2):
        r = "".join(rng.choice(["é", "ü", "日", "ﬁ", "²", "/", "-", "a", " ", "　", "़", "​", "."]) for _ in range(rng.randint(1, 8)))
        v = _normalize(r)
        ctx.observe("normalize.stream", "non-ascii")
        if any(ch in v for ch in "/\\ .") or v.startswith("-") or v.endswith("-") or os.path.basename(v) != v:
            ctx.property_failure({"kind": "normalize", "ref": r}, {"what": "normalised reference is not a single safe path component", "value": v})


class _FakeObj:
    is_alias = False

    def __init__(self, rel):
        self.relative_filepath = rel


def check_location(ctx, n):
    from _griffe.diff import ObjectRemovedBreakage
    rng = ctx.rng
    comps = ["src", "pkg", "a.py", "griffe-worktree-x", "griffe", "tmp", "v1", "lib", "griffe-worktree-"]
    cases = []
    for i in range(n):
        root = ["/"] + [rng.choice(["tmp", "var", "build", "t"]) for _ in range(rng.randint(0, 3))]
        normref = rng.choice(["v1", "feat-x", "HEAD", "ref", "1", "griffe-worktree-y"])   # checkout_name is never empty
        rel = [rng.choice(comps) for _ in range(rng.randint(0, 4))]
        kind = rng.random()
        if kind < 0.6:
            parts = root + ["griffe-worktree-repo-" + normref + "-abc", normref] + rel
            is_abs = True
        elif kind < 0.8:
            parts = rel or ["x.py"]
            is_abs = False
        else:
            parts = root + rel
            is_abs = True
        cases.append((is_abs, parts, root, normref, rel, kind < 0.6))
    outs = ctx.model([["location", a, p] for a, p, *_ in cases])
    for (is_abs, parts, root, normref, rel, in_wt), m in zip(cases, outs):
        path = Path(*parts)
        impl = list(ObjectRemovedBreakage(_FakeObj(path), None, None)._location.parts)
        ctx.case({"kind": "location", "parts": parts}, in_wt)
        ctx.observe("location.kind", "worktree" if in_wt else ("relative" if not is_abs else "absolute-other"))
        if impl != m:
            ctx.tie_failure("correspondence", "location(model) vs Breakage._location", {"model": m, "impl": impl}, {"parts": parts})
        if in_wt and not any(c.startswith("griffe-worktree-") for c in root):
            if impl != rel:
                ctx.property_failure({"kind": "location", "parts": parts}, {"what": "worktree prefix not stripped", "griffe": impl, "expected": rel})
        ctx.count("location_cases")


# --------------------------------------------------------------------------------------------- facade + private sibling layout

FAC, IMPL = "c20fac", "_c20fac"
FAC_VERSIONS = [
    # (tag, parameters of func, extra exported function?)
    ("f1", ["a", "b"], False),
    ("f2", ["a"], False),          # breaking with respect to f1: parameter b removed from the re-exported func
    ("f3", ["a"], True),           # not breaking with respect to f2: a function is added
]


def facade_files(k):
    tag, params, extra = FAC_VERSIONS[k]
    names = ["Klass", "func"] + (["added"] if extra else [])
    public = f'"""Public API {tag}."""\n\nfrom {IMPL} import {", ".join(names)}\nfrom {IMPL}.util import helper\n\n__all__ = {names + ["helper"]!r}\n'
    impl = [f'"""Private implementation {tag}."""', "", "", f"def func({', '.join(params)}):", f'    """Func at {tag}."""',
            f"    total = ({', '.join(params)},)", "    return total", "", "", "class Klass:", f'    """Klass at {tag}."""', "",
            "    def method(self, x):", "        return x"]
    if extra:
        impl += ["", "", "def added(z):", "    return z"]
    util = f'"""Util {tag}."""\n\n\ndef helper(x):\n    """Helper at {tag}."""\n    return [x]\n'
    return {f"src/{FAC}/__init__.py": public, f"src/{IMPL}/__init__.py": "\n".join(impl) + "\n", f"src/{IMPL}/util.py": util}


class FacadeRepo:
    """`c20fac` re-exports its API from the private sibling `_c20fac` living in the same checkout (Griffe's own layout)."""

    def __init__(self, env):
        self.env = env
        self.path = env.root / "facade"
        shutil.rmtree(self.path, ignore_errors=True)
        self.path.mkdir(parents=True)
        git(self.path, "init", "-q", "-b", "main", ".")
        for k, (tag, _p, _e) in enumerate(FAC_VERSIONS):
            for rel, text in facade_files(k).items():
                f = self.path / rel
                f.parent.mkdir(parents=True, exist_ok=True)
                f.write_text(text)
            date = f"2021-01-{k + 1:02d}T00:00:00 +0000"
            e = dict(os.environ, GIT_AUTHOR_DATE=date, GIT_COMMITTER_DATE=date)
            git(self.path, "add", "-A", env=e)
            git(self.path, "commit", "-q", "-m", tag, env=e)
            git(self.path, "tag", tag)
        git(self.path, "branch", "feat/fac", "f2")

    def spec(self):
        return {"facade": True}

    def version_of_ref(self, ref):
        return {"f1": 0, "f2": 1, "f3": 2, "feat/fac": 1, "HEAD": 2, "main": 2}[ref]


def facade_member_problems(repo, obj, ref, env):
    """Every public member, through its alias, must give the lines git holds for that reference — after cleanup."""
    problems = []
    k = repo.version_of_ref(ref)
    for name in obj.exports or []:
        name = str(name)
        try:
            m = obj.members[name]
            rel = f"src/{IMPL}/util.py" if name == "helper" else f"src/{IMPL}/__init__.py"
            shown = git(repo.path, "show", f"{ref}:{rel}").stdout
            if shown != facade_files(k)[rel]:
                problems.append(f"generator: git show {ref}:{rel} differs from the generated text")
            lines = shown.split("\n")
            node = next(n for n in ast.parse(shown).body if getattr(n, "name", None) == name)
            want_lines = lines[node.lineno - 1:node.end_lineno]
            if not m.is_alias:
                problems.append(f"{name}: not an alias")
            got_lines = list(m.lines)
            if got_lines != want_lines:
                problems.append({"member": name, "lines": got_lines[:3], "expected": want_lines[:3]})
            if m.source != textwrap.dedent("\n".join(want_lines)):
                problems.append({"member": name, "source": m.source[:80]})
            if (m.lineno, m.endlineno) != (node.lineno, node.end_lineno):
                problems.append({"member": name, "lineno": [m.lineno, m.endlineno], "expected": [node.lineno, node.end_lineno]})
            fp = str(m.filepath)
            if not fp.startswith(str(env.tmp)) or os.path.exists(fp):
                problems.append({"member": name, "filepath": fp, "exists": os.path.exists(fp)})
            if name == "func" and [p.name for p in m.parameters] != FAC_VERSIONS[k][1]:
                problems.append({"member": name, "parameters": [p.name for p in m.parameters]})
        except Exception as e:  # noqa: BLE001 - AliasResolutionError and friends are exactly what must not happen
            problems.append({"member": name, "raised": type(e).__name__, "message": str(e)[:160]})
    if sorted(map(str, obj.exports or [])) != sorted(["Klass", "func", "helper"] + (["added"] if FAC_VERSIONS[k][2] else [])):
        problems.append({"exports": sorted(map(str, obj.exports or []))})
    return problems


def raw_observe(path, env):
    return {"head": git(path, "rev-parse", "HEAD").stdout + git(path, "symbolic-ref", "-q", "HEAD", check=False).stdout,
            "refs": git(path, "for-each-ref", "--format=%(refname) %(objectname)").stdout,
            "status": git(path, "status", "--porcelain", "--untracked-files=all").stdout,
            "worktrees": git(path, "worktree", "list", "--porcelain").stdout, "tmp": env.tmp_listing()}


def facade_load_case(ctx, env, repo, case):
    import griffe
    cj = dict(case, repo=repo.spec(), kind="facade-load")
    ctrl = Control(env, {}, {1: {int(k): v for k, v in case.get("events", {}).items()}}, {})
    before = raw_observe(repo.path, env)
    os.chdir(repo.path)
    obj, out = None, None
    with injected(ctrl):
        try:
            with watchdog(60):
                obj = griffe.load_git(FAC, ref=case["ref"], repo=str(repo.path), search_paths=["src"], extensions=griffe.load_extensions(make_extension(ctrl)),
                                      resolve_aliases=True, resolve_external=case["resolve_external"], force_inspection=bool(case.get("inspect")))
            out = "returned"
        except BaseException as e:  # noqa: BLE001
            out = exc_name(e)
        finally:
            for name in [m for m in sys.modules if m.split(".")[0] in (FAC, IMPL)]:
                del sys.modules[name]
    os.chdir(env.cwd)
    after = raw_observe(repo.path, env)
    ctx.case(cj, True)
    ctx.observe("facade.load", f"{out}/external={case['resolve_external']}")
    if before != after:
        ctx.property_failure(cj, {"what": "repository not restored (facade layout)", "diff": diff_obs(before, after)})
        for name in os.listdir(env.tmp):
            shutil.rmtree(env.tmp / name, ignore_errors=True)
    late = [p for ph, pts in ctrl.points.items() if ph != 1 for p in pts]
    if late:
        ctx.tie_failure("correspondence", "loader stage outside the temporary worktree",
                        {"what": "the model runs every loader stage inside `with tmp_worktree`; these ran after the cleanup", "stages": late[:5]}, cj)
    want = "Injected" if any(a[0] == "raise" for a in case.get("events", {}).values()) else "returned"
    if out != want:
        ctx.property_failure(cj, {"what": "load_git outcome on the facade layout", "got": out, "expected": want})
    if obj is not None:
        probs = [] if case.get("inspect") else facade_member_problems(repo, obj, case["ref"], env)
        for top in list(obj.modules_collection.members.values()):       # the facade and its private sibling
            if not top.is_alias and top.name in (FAC, IMPL):
                probs += audit_returned(repo.path, case["ref"], top, env)[0]
        if probs:
            ctx.property_failure(cj, {"what": "re-exported members not usable after the checkout was removed", "problems": probs[:4]})
    ctx.count("facade_cases")


def facade_check_case(ctx, env, repo, against, base, cli_mode):
    cj = {"kind": "facade-check", "repo": repo.spec(), "against": against, "base": base, "cli": cli_mode}
    ko, kn = repo.version_of_ref(against), repo.version_of_ref(base or "HEAD")
    want = 1 if FAC_VERSIONS[ko][1] != FAC_VERSIONS[kn][1] and set(FAC_VERSIONS[ko][1]) - set(FAC_VERSIONS[kn][1]) else 0
    before = raw_observe(repo.path, env)
    if cli_mode:
        cmd = [sys.executable, "-m", "griffe", "check", FAC, "-s", "src", "-a", against] + (["-b", base] if base else [])
        p = _real_run(cmd, cwd=repo.path, capture_output=True, text=True, timeout=120, env=dict(os.environ, NO_COLOR="1"))
        rc, err = p.returncode, p.stderr
    else:
        import _griffe.cli as cli
        buf = io.StringIO()
        saved = (sys.stdout, sys.stderr)
        os.chdir(repo.path)
        try:
            sys.stderr = buf
            with watchdog(90):
                rc = cli.check(FAC, against, base_ref=base, search_paths=["src"], color=False)
        except BaseException as e:  # noqa: BLE001
            rc = "raised:" + exc_name(e)
        finally:
            try:
                import colorama.initialise as ci
                ci.deinit()
                ci.orig_stdout = ci.orig_stderr = ci.wrapped_stdout = ci.wrapped_stderr = None
            except Exception:  # noqa: BLE001
                pass
            sys.stdout, sys.stderr = saved
            os.chdir(env.cwd)
        err = buf.getvalue()
    after = raw_observe(repo.path, env)
    ctx.case(cj, True)
    ctx.observe("facade.check", f"{'cli' if cli_mode else 'api'}:{want}")
    if before != after:
        ctx.property_failure(cj, {"what": "repository not restored by check (facade layout)", "diff": diff_obs(before, after)})
    if rc != want:
        ctx.property_failure(cj, {"what": "exit code of check on a re-exported object", "got": rc, "expected": want, "stderr": err[-400:]})
    elif want:
        locs = [l.split(":")[0] for l in err.splitlines() if ": " in l and l.split(":")[0].endswith(".py")]
        if f"src/{IMPL}/__init__.py" not in locs:
            ctx.property_failure(cj, {"what": "breakage does not name the changed file", "stderr": err[-400:], "expected": f"src/{IMPL}/__init__.py"})
    ctx.count("facade_cases")


def facade_checks(ctx, env, repo=None):
    repo = repo or FacadeRepo(env)
    for ref in ["f1", "f2", "f3", "feat/fac"]:
        for ext in (None, True):
            facade_load_case(ctx, env, repo, {"ref": ref, "resolve_external": ext})
    facade_load_case(ctx, env, repo, {"ref": "f1", "resolve_external": None, "events": {"2": ["write"]}})
    facade_load_case(ctx, env, repo, {"ref": "f3", "resolve_external": True, "inspect": True})
    facade_load_case(ctx, env, repo, {"ref": "f2", "resolve_external": True, "events": {"5": ["raise", "Injected"]}})
    for against, base in (("f1", "f2"), ("f2", "f3"), ("f1", None), ("feat/fac", "f3")):
        facade_check_case(ctx, env, repo, against, base, cli_mode=False)
    facade_check_case(ctx, env, repo, "f1", "f2", cli_mode=True)
    if not ctx.quick:
        facade_check_case(ctx, env, repo, "f2", "f3", cli_mode=True)
        facade_check_case(ctx, env, repo, "f1", None, cli_mode=True)


# --------------------------------------------------------------------------------------------- witnesses of the known findings

def witness_f2(env, repo):
    """F2: a failing post-checkout hook makes `git worktree add` exit non-zero after creating branch and worktree."""
    import griffe
    hook = repo.path / ".git" / "hooks" / "post-checkout"
    hook.parent.mkdir(exist_ok=True)
    hook.write_text("#!/bin/sh\nexit 3\n")
    hook.chmod(0o755)
    ref = next(r for r, k in repo.ref_pool() if k is not None and repo.commits[k]["kind"] == "package")
    before = observe(repo)
    try:
        griffe.load_git(PKG, ref=ref, repo=str(repo.path), search_paths=[repo.layout])
        raised = None
    except BaseException as e:  # noqa: BLE001
        raised = type(e).__name__
    after = observe(repo)
    repo.restore()
    d = diff_obs(before, after)
    return raised == "RuntimeError" and "refs" in d and "worktrees" in d and "griffe-" in d["refs"]["after"]


def witness_f3(env, repo):
    """F3: the user's own worktree whose directory is away (unlocked) loses its registration."""
    import griffe
    d = repo.foreign_root / "away"
    d.parent.mkdir(parents=True, exist_ok=True)
    git(repo.path, "worktree", "add", "-q", "-b", "user/away", str(d), repo.commits[0]["sha"])
    shutil.move(str(d), str(d) + ".moved")
    ref = next(r for r, k in repo.ref_pool() if k is not None and repo.commits[k]["kind"] == "package")
    before = observe(repo)
    try:
        griffe.load_git(PKG, ref=ref, repo=str(repo.path), search_paths=[repo.layout])
    except BaseException:  # noqa: BLE001
        pass
    after = observe(repo)
    shutil.rmtree(str(d) + ".moved", ignore_errors=True)
    repo.restore()
    df = diff_obs(before, after)
    return list(df) == ["worktrees"] and "user/away" in df["worktrees"]["before"] and "user/away" not in df["worktrees"]["after"]


def witness_f4(env, repo):
    """F4: with the reference `@` the reported location loses its first component."""
    import griffe
    from _griffe.diff import find_breaking_changes
    if repo.layout == ".":
        return None
    if repo.work["kind"] != "package":
        return None
    os.chdir(repo.path)
    try:
        at = griffe.load_git(PKG, ref="@", repo=str(repo.path), search_paths=[repo.layout])
        for k, c in enumerate(repo.commits):
            if c["kind"] != "package":
                continue
            other = griffe.load_git(PKG, ref=c["sha"], repo=str(repo.path), search_paths=[repo.layout])
            for old, new in ((at, other), (other, at)):
                locs = {str(b._location) for b in find_breaking_changes(old, new) if str(b.obj.filepath).startswith(str(at.filepath.parent))}
                if locs:
                    return not locs <= set(expected_locations(repo))
        return None
    finally:
        os.chdir(env.cwd)


# --------------------------------------------------------------------------------------------- explore / search / replay

def assert_safe(env):
    """The harness must never be able to touch /verif's own repository or /repo."""
    probe = env.root / "notrepo"
    probe.mkdir(exist_ok=True)
    p = _real_run(["git", "-C", str(probe), "rev-parse", "--is-inside-work-tree"], capture_output=True, text=True)
    if p.returncode == 0:
        raise RuntimeError("GIT_CEILING_DIRECTORIES is not effective: refusing to run git experiments inside another repository")
    return probe


def clean_points(env, repo, ref):
    """A fault-free, event-free run; returns the record (its n_points is the number of stages/hooks of that commit)."""
    return run_load_case(env, repo, load_case(ref))


def explore(ctx):
    import griffe  # noqa: F401
    for msg in SHAPE_PROBLEM:
        ctx.tie_failure("correspondence", "shape of tmp_worktree (which model variant describes the tree under test)", msg, {"kind": "shape"})
    with Env(ctx) as env:
        notrepo = assert_safe(env)
        quick = ctx.quick
        profiles = [{"layout": "src", "dirty": True, "foreign": ["healthy", "named"], "head": "main"},
                    {"layout": ".", "ambiguous": True, "existing_tmp_branch": True, "head": "detached", "foreign": ["healthy", "locked-stale"]},
                    {"head": "branch"}, {}, {"layout": "src"}, {}]
        repos = [Repo(ctx.seed, i, env, profiles[i]) for i in range(ctx.budget(2, 4))]
        for repo in repos:
            ctx.observe("repo.layout", repo.layout)
            ctx.observe("repo.head", repo.head_mode)
            ctx.observe("repo.commits", len(repo.commits))
            for c in repo.commits:
                ctx.observe("repo.commit_kind", c["kind"] + ("+broken-sub" if c["sub_broken"] else ""))
            # 1. every reference of the pool, no fault; learn the number of stages per commit
            pool = repo.ref_pool()
            cases = [load_case(r, repo_arg="." if i % 3 == 0 else "abs") for i, (r, _) in enumerate(pool)]
            cases.append(load_case(pool[0][0], package=ABSENT_PKG))
            recs = run_load_batch(ctx, env, repo, cases, "refs")
            npts = {}
            for (r, k), rec in zip(pool, recs):
                if k is not None and rec["outcome"][0] == "returned":
                    npts[k] = rec["n_points"]
                    if rec["outcome"][1] != k:
                        ctx.property_failure(dict(rec["case"], repo=repo.spec()), {"what": "wrong commit loaded", "got": rec["outcome"][1], "expected": k})
            good = [(r, k) for r, k in pool if k in npts]
            if not good:
                ctx.tie_failure("harness", "generator", "no loadable reference", repo.spec())
                continue
            slash = [(r, k) for r, k in good if "/" in r] or good
            # 2. every single-fault placement
            r, k = ctx.rng.choice(slash)
            run_load_batch(ctx, env, repo, single_fault_cases(r, npts[k], ctx.rng, full=not quick), "single-fault")
            # 3. every stage / hook index
            r, k = ctx.rng.choice(good)
            idx = list(range(npts[k]))
            if quick and len(idx) > 7:
                idx = sorted(set(ctx.rng.sample(idx, 5)) | {0, npts[k] - 1, npts[k] - 2})
            run_load_batch(ctx, env, repo, event_cases(r, npts[k], idx), "events")
            # the realistic way a checkout gets dirty: dynamic analysis imports the package and CPython writes __pycache__
            r, k = ctx.rng.choice(good)
            r2, k2 = ctx.rng.choice(good)
            run_load_batch(ctx, env, repo, [load_case(r, events={0: ["write"]}, inspect=True, expect=k), load_case(r2, inspect=True, expect=k2, check_pycache=True),
                                            load_case(r2, faults=faults(remove=["fail-after"], rmtree=["raise-after", "KeyboardInterrupt"]), inspect=True, expect=k2)],
                           "inspection-pycache")
            # a name collision with the stale registration of an interrupted run: `worktree add` on an occupied path
            r, k = ctx.rng.choice(good)
            run_load_batch(ctx, env, repo, [load_case(r, collide="stale"), load_case(r, collide="locked", faults=faults(rmtree=["raise-after", "OSError"]))], "collision")
            # the package is absent (or broken) at the reference while the calling process can import it from the user's
            # working tree: inspection is allowed by default, so the loader falls back to a dynamic import
            syspath_stream(ctx, env, repo)
            # two faults at once
            r, k = ctx.rng.choice(good)
            run_load_batch(ctx, env, repo, pair_fault_cases(r, npts[k], ctx.rng), "pair-fault")
            # events on a reference whose package is absent or broken never fire
            for r2, k2 in pool:
                if k2 is not None and repo.commits[k2]["kind"] != "package":
                    run_load_batch(ctx, env, repo, [load_case(r2, events={0: ["write"], 1: ["raise", "Injected"]}),
                                                    load_case(r2, faults=faults(remove=["fail-before"]))], "bad-content")
                    break
            # 4. random multi-fault schedules
            run_load_batch(ctx, env, repo, [random_load_case(ctx.rng, repo, npts) for _ in range(ctx.budget(30, 200))], "random")
            # 5. check()
            cc = [random_check_case(ctx.rng, repo, npts, faulty=False) for _ in range(ctx.budget(8, 30))]
            cc += [random_check_case(ctx.rng, repo, npts, faulty=True) for _ in range(ctx.budget(14, 80))]
            if any(py_normalize(x) == "" for x, _ in pool):       # `@`: the regression case of the repaired finding F4
                g = ctx.rng.choice(good)[0]
                cc.append({"against": g, "base": "@", "F1": faults(), "F2": faults(), "f_tag": OK, "f_root": OK, "events1": {}, "events2": {}, "n1": 0, "n2": 0})
            run_check_batch(ctx, env, repo, cc)
            # 6. end to end
            pairs = [(a, b) for a, ka in good for b, kb in good if repo.commits[ka]["kind"] == "package" and repo.commits[kb]["kind"] == "package"]
            for want in (True, False):
                sel = [(a, b) for a, b in pairs if breaking_commits(repo.commits[repo.loadable(a)], repo.commits[repo.loadable(b)]) == want
]
                if sel:
                    run_cli(ctx, env, repo, *ctx.rng.choice(sel))
            for _ in range(ctx.budget(2, 10)):
                a, _ka = ctx.rng.choice(good if ctx.rng.random() < 0.8 else pool)
                b, _kb = ctx.rng.choice(good if ctx.rng.random() < 0.8 else pool)
                run_cli(ctx, env, repo, a if ctx.rng.random() < 0.85 else None, b if ctx.rng.random() < 0.7 else None)
            # ... and with faults placed at the process boundary (git shim on PATH: exit codes, SIGINT, torn calls; CLI extension)
            g1, g2 = ctx.rng.choice(good)[0], ctx.rng.choice(good)[0]
            base_case = {"against": g1, "base": g2, "F1": faults(), "F2": faults(), "f_tag": OK, "f_root": OK, "events1": {}, "events2": {}, "n1": 0, "n2": 0}
            scripted = [dict(base_case, F1=faults(add=["raise-after", "KeyboardInterrupt"])), dict(base_case, F2=faults(remove=["torn"])),
                        dict(base_case, F1=faults(branchD=["raise-before", "KeyboardInterrupt"]), events1={"1": ["write"]}),
                        dict(base_case, base=None, events2={"0": ["raise", "KeyboardInterrupt"]}, F1=faults(remove=["fail-after"]))]
            if quick:
                scripted = ctx.rng.sample(scripted, 2)
            run_cli_fault_batch(ctx, env, repo, scripted + [random_cli_fault_case(ctx.rng, repo, npts) for _ in range(ctx.budget(3, 30))])
            # 7. (O)
            oracle_sequences(ctx, env, repo, ctx.budget(12, 60), ctx.budget(9, 14))
        # the user's own stale, unlocked worktree registration must survive (regression stream of the repaired finding F3)
        stale = Repo(ctx.seed, 9, env, {"foreign": ["healthy", "stale"], "head": "main"})
        spool = [(r, k) for r, k in stale.ref_pool() if k is not None and stale.commits[k]["kind"] == "package"]
        r = spool[0][0]
        scases = [load_case(r), load_case(spool[-1][0], events={3: ["write"]}),
                  load_case(r, faults=faults(remove=["fail-after"])), load_case(r, faults=faults(branchD=["raise-after", "Injected"])),
                  load_case(r, faults=faults(remove=["fail-before"])), load_case(r, faults=faults(add=["fail-before"])),
                  load_case("nope"), load_case(r, faults=faults(add=["fail-after"])), load_case(r, faults=faults(remove=["torn"])),
                  load_case(r, faults=faults(add=["torn", "KeyboardInterrupt"])), load_case(r, faults=faults(rmtree=["torn", "OSError"]))]
        run_load_batch(ctx, env, stale, scases + [random_load_case(ctx.rng, stale, {}) for _ in range(ctx.budget(4, 40))], "stale-foreign")
        run_check_batch(ctx, env, stale, [random_check_case(ctx.rng, stale, {}, faulty=False) for _ in range(ctx.budget(2, 10))])
        # a directory that is not a repository at all
        rep0 = repos[0]
        os.chdir(notrepo)
        import griffe as g
        before_tmp = env.tmp_listing()
        try:
            g.load_git(PKG, ref="HEAD", repo=str(notrepo))
            out = "returned"
        except BaseException as e:  # noqa: BLE001
            out = exc_name(e)
        os.chdir(env.cwd)
        ctx.case({"kind": "not-a-repository"}, True)
        mo = None
        try:
            mo = ctx.model([["load_git", GUARD, True, False, [[], 0, 0, [], [], [], [], []], NO_FAULTS, 5, "HEAD", [], []]])[0]
        except Exception as e:
            if type(e).__name__ != "ModelUnavailable":
                raise
        if mo is not None and mo[1] != ["raised", out]:
            ctx.tie_failure("correspondence", "not a repository: outcome", {"model": mo[1], "impl": out})
        if env.tmp_listing() != before_tmp or os.listdir(notrepo):
            ctx.property_failure({"kind": "not-a-repository"}, {"what": "something left behind", "tmp": env.tmp_listing(), "dir": os.listdir(notrepo)})
        # public API re-exported from a private sibling in the same checkout
        facade_checks(ctx, env)
        # normalize, location
        check_normalize(ctx, ctx.budget(300, 3000))
        check_location(ctx, ctx.budget(300, 3000))
        # witnesses of the known findings
        if GUARD:       # the repaired variant: the witness of F2 is a regression case that must pass
            ctx.case({"kind": "regression", "finding": "F2"}, True)
            if witness_f2(env, rep0):
                ctx.property_failure({"kind": "regression", "finding": "F2", "repo": rep0.spec()},
                                     {"what": "a failing post-checkout hook leaves the branch griffe-<ref> and a worktree entry behind"})
        else:
            ctx.witness("C20-F2", witness_f2(env, rep0))
        w5 = next((w for w in (witness_f5(env, r) for r in repos) if w is not None), None)
        ctx.observe("observation.cached_package_escapes", str(w5))       # not a finding: see asbuilt (observation)
        # the witnesses of the repaired findings F3 and F4 are regression cases now: they must not reproduce
        ctx.case({"kind": "regression", "finding": "F3"}, True)
        if witness_f3(env, rep0):
            ctx.property_failure({"kind": "regression", "finding": "F3", "repo": rep0.spec()},
                                 {"what": "the user's own stale, unlocked worktree registration disappeared during load_git (git worktree prune is back?)"})
        for repo in repos:
            w4 = witness_f4(env, repo)
            if w4 is not None:
                ctx.case({"kind": "regression", "finding": "F4"}, True)
                if w4:
                    ctx.property_failure({"kind": "regression", "finding": "F4", "repo": repo.spec()},
                                         {"what": "with the reference `@` the breakage location lost its first path component"})
                break
        if not quick:
            sample = [["normalize", "feat/x"], ["normalize", "@"], ["checkout-name", "@"], ["checkout-name", "a/b"], ["location", True, ["/", "tmp", "griffe-worktree-r-v1-x", "v1", "src", "a.py"]],
                      ["load_git", False, True, True, [["main"], 1, 0, [["main", 1]], [["v1", 0]], [], [], []],
                       faults(remove=["fail-after"], branchD=["raise-after", "KeyboardInterrupt"], rmtree=["raise-after", "OSError"]), 7, "v1",
                       [[0, "package"], [1, "package"]], [["write"], ["raise", "Injected"]]],
                      ["load_git", True, True, True, [["main"], 1, 0, [["main", 1]], [["v1", 0]], [], [], []],
                       faults(add=["torn", "KeyboardInterrupt"], remove=["fail-before"]), 7, "v1", [[0, "package"], [1, "package"]], []],
                      ["load_git", False, True, True, [["main"], 1, 0, [["main", 1]], [["v1", 0]], [], [], []],
                       faults(remove=["torn"], rmtree=["torn", "OSError"]), 7, "v1", [[0, "package"], [1, "package"]], [["write"]]],
                      ["steps-named", "proj", [[1, "wt"], [2, "wt"], [3, "proj"]], [["main"], 1, 0, [["main", 1]], [["v1", 0]], [], [], []],
                       [["mkdtemp", 1], ["add", "griffe-a", 1, "v1"], ["remove-named", True, "wt"], ["mkdtemp", 3], ["add", "griffe-a", 3, "v1"], ["remove-named", True, "proj"],
                        ["mkdtemp", 1], ["add", "griffe-b", 1, "v1"], ["mkdtemp", 2], ["add", "griffe-c", 2, "v1"], ["remove-named", True, "wt"]]],
                      ["lines", ["tmp", "co"], [[["pkg", "a.py"], ["import os", "def f():", "    return 1", "x = 2"]]], ["pkg", "a.py"], 2, 3],
                      ["steps", [["main"], 1, 0, [["main", 1]], [["v1", 0]], [], [], []],
                       [["mkdtemp", 1], ["add", "griffe-a", 1, "v1"], ["touch", 1], ["remove", False, 1], ["branch-D", "griffe-a"], ["remove", True, 1], ["prune"], ["branch-D", "griffe-a"], ["rmtree", 1]]]]
            ctx.cross_check_extraction(sample)


def search(ctx):
    """A tie broke and no failing input is known yet: direct evaluation only (python mirror for the classification)."""
    with Env(ctx) as env:
        assert_safe(env)
        saved_model = ctx.model

        def no_model(values):
            from harness.common.framework import ModelUnavailable
            raise ModelUnavailable("search runs without the model")
        ctx.model = no_model
        try:
            facade_checks(ctx, env)
            if ctx.prop_failures:
                return
            for i in range(3):
                repo = Repo(ctx.seed + 1000, i, env, [{"layout": "src"}, {"layout": "."}, {}][i])
                pool = repo.ref_pool()
                recs = run_load_batch(ctx, env, repo, [load_case(r) for r, _ in pool], "search-refs")
                npts = {k: rec["n_points"] for (r, k), rec in zip(pool, recs) if k is not None and rec["outcome"][0] == "returned"}
                good = [(r, k) for r, k in pool if k in npts]
                if ctx.prop_failures or not good:
                    break
                r, k = good[0]
                run_load_batch(ctx, env, repo, single_fault_cases(r, npts[k], ctx.rng, full=True), "search-single-fault")
                run_load_batch(ctx, env, repo, event_cases(r, npts[k], list(range(npts[k]))), "search-events")
                if ctx.prop_failures:
                    break
                run_check_batch(ctx, env, repo, [random_check_case(ctx.rng, repo, npts, faulty=j % 2 == 1) for j in range(40)])
                if ctx.prop_failures:
                    break
        finally:
            ctx.model = saved_model


def replay(ctx, data):
    case = data.get("failing_input") or {}
    if not case or "repo" not in case:
        print(json.dumps(data.get("no_longer_checks") or case, indent=1, default=str))
        return 0
    ctx.scratch.mkdir(parents=True, exist_ok=True)
    try:
        with Env(ctx) as env:
            assert_safe(env)
            spec = case["repo"]
            kind = case.get("kind")
            if spec.get("facade"):
                frepo = FacadeRepo(env)
                if kind == "facade-load":
                    facade_load_case(ctx, env, frepo, {k: v for k, v in case.items() if k not in ("repo", "kind")})
                else:
                    facade_check_case(ctx, env, frepo, case["against"], case["base"], case["cli"])
                print(json.dumps({k: v for k, v in case.items() if k != "repo"}))
                for f in ctx.prop_failures:
                    print("FAILS  :", json.dumps(f["detail"], default=str)[:1200])
                for f in ctx.tie_failures:
                    print("TIE    :", f["name"], json.dumps(f["detail"], default=str)[:400])
                if not ctx.prop_failures and not ctx.tie_failures:
                    print("holds on this tree")
                return 0
            repo = Repo(spec["seed"], spec["idx"], env, spec.get("profile"))
            if kind == "load_git":
                rec = run_load_case(env, repo, case)
                print("case    :", json.dumps({k: v for k, v in case.items() if k != "repo"}))
                print("outcome :", rec["outcome"])
                print("changed :", json.dumps(diff_obs(rec["before"], rec["after"]), indent=1))
                print("class   :", py_classify(rec["before_abs"], case["ref"], case["faults"], True))
                try:
                    print("model   :", ctx.model([model_input_load(repo, rec)])[0][1:3])
                except Exception as e:  # noqa: BLE001
                    print("model unavailable:", e)
            elif kind == "check":
                rec = run_check_case(env, repo, case)
                print("outcome :", rec["outcome"], "\nstderr  :", rec["stderr"][-500:])
                print("changed :", json.dumps(diff_obs(rec["before"], rec["after"]), indent=1))
            elif kind == "cli-faults":
                rec = run_cli_fault_case(ctx, env, repo, case)
                print("rc      :", rec["rc"], "\nstderr  :", rec["stderr"][-500:])
                print("git log :", rec["log"])
                print("changed :", json.dumps(diff_obs(rec["before"], rec["after"]), indent=1))
            elif kind == "git-steps":
                o = OracleRepo(repo, repo.path, env.tmp)
                for st in case["steps"]:
                    print(st, "->", o.apply(st), o.abstract()[3:])
            else:
                print(json.dumps(case, indent=1))
    finally:
        subprocess.run(["rm", "-rf", str(ctx.scratch)])
    return 0
